#!/bin/bash
# Run by /verif/check before C19 (and, through pre-C18.sh, before C18):
#  1. builds the `wac` CLI from /repo's CURRENT working tree (or $WAC_REPO: the scratch copy of tools/mutant-lab.sh), verification guard off, registry
#     feature off (no network), once with `wit` and once with `wit,wat`;
#  2. builds the `wit,wat` variant of mc-env (cargo feature `wat`) next to the default build.
# Everything goes under the harness target directory; nothing is written into /repo.
set -u
ROOT="$(cd "$(dirname "${BASH_SOURCE[0]}")" && pwd)"
T="${CARGO_TARGET_DIR:-$ROOT/harness/target}"
export CARGO_NET_OFFLINE=true
export RUST_BACKTRACE=0
mkdir -p "$T"
if [ "${1:-all}" != "mc-env-only" ]; then
  # from $ROOT: harness/.cargo/config.toml (which sets --cfg wac_verif) is not in effect here
  cd "$ROOT" || exit 2
  for v in "wit:wit" "wat:wit,wat"; do
    name="${v%%:*}"; feats="${v#*:}"
    log="$T/build-wac-$name.log"
    if ! env -u CARGO_TARGET_DIR -u RUSTFLAGS cargo build --release --offline --manifest-path "${WAC_REPO:-/repo}/Cargo.toml" \
         --no-default-features --features "$feats" --bin wac --target-dir "$T/wac-$name" >"$log" 2>&1; then
      echo "MACHINERY-ERROR: build of the wac CLI ($feats) failed (log: $log)" >&2
      tail -40 "$log" >&2
      exit 2
    fi
  done
fi
cd "$ROOT/harness" || exit 2
log="$T/build-mc-env-wat.log"
if ! CARGO_TARGET_DIR="$T/alt-wat" cargo build --release --offline -p mc-env --features wat >"$log" 2>&1; then
  echo "MACHINERY-ERROR: build of mc-env --features wat failed (log: $log)" >&2
  tail -40 "$log" >&2
  exit 2
fi
exit 0
