#!/usr/bin/env python3
"""Regenerates MANIFEST.json from the table below and validates it against the schema."""
import json, subprocess, sys, os

ROOT = os.path.dirname(os.path.abspath(__file__))
# BASELINE.json: nextest with a fallback to cargo test (nextest cannot list the custom-harness tests of this repository)
BASELINE = ("cd /repo && (cargo nextest run --workspace --no-fail-fast --tool-config-file pb:/w/lib/nextest.toml "
            "--profile pb --test-threads 8 --offline || cargo test --workspace --no-fail-fast --offline)")

# id -> (engine, category, technique, level text, level note, design ref)
CHECKS = {
 "C20": ("mc-reg", "model_checking",
         "exhaustive enumeration of key lists x download completion orders on the real resolver against an in-process Warg registry, completion order enforced through guarded per-task gates (controlled scheduler)",
         "An in-process Warg server holds test:a {1.0.0, 1.1.0, 2.0.0}, test:b {0.1.0}, test:c {1.0.0} with distinct content per release (100 B .. 200 KiB). For every ordered list of distinct keys of length 1-2 (quick: plus an eighth of the all-existing length-3 lists that repeat the name test:a and every length-3 list of two existing keys sharing a name followed by a failing key; thorough: all length-3 lists) over a 9-key universe (versioned and unversioned references to one package, a missing version, a missing package) and EVERY permutation of download completion order, the real RegistryPackageResolver runs over the real HTTP stack while the H2 gates release one download at a time in the chosen order (the consumed order is confirmed from the resolver's progress callbacks); plus one free-running execution per list. The result must have exactly the requested keys, each with the content published under that name and version (latest when unversioned); a missing package/version must be reported with the corresponding error naming the key and carrying that key's span; the result must be the same for every completion order. Histories start from non-initial client state: resolve(first keys), a further release is published, resolve(second keys) on the same client storage, for every ordered list of 1-2 keys among {unversioned, old release, new release} and every completion order; every key must get the release it names, the unversioned key the latest release at that time.",
         "The only schedule-dependent observable of resolve() is the order in which finished downloads are consumed; that order is enumerated exhaustively per list. Scheduling inside the HTTP client/server is not enumerated; overlapping downloads are exercised only by the free-running executions.",
         "DESIGN.md §5 C20, §4 E7"),
 "C04": ("mc-sem", "translation_validation",
         "exhaustive program enumeration evaluated by a reference evaluator written from LANGUAGE.md and by wac; E2 provenance equality on the encoded bytes",
         "Programs = a fixed prefix binding every kind of value the name-inference rules distinguish (imports by path / inline type / `as`, an instance from `new`, accesses, named accesses, a let alias) followed by one `new` whose argument list is the product of per-import supply modes (omitted, inferred via each bound name, named by identifier, named by string, mismatching) x spreads x `...` x argument order, every export form (plain, `as` id / string, spread, after a conflicting export, nested, last-segment access), 25 single-fault variants (incl. string names that are only the last segment or lack the version of an import name) nested `new`, an export product (15 source expressions x 6 export options, singly and in ordered pairs) and an access product (9 bases x 15 accessors, bound by let and exported); ~57k programs quick. Each program's outcome class must equal the reference evaluator's (the diagnostic the reference names, or a composition), and for compositions the independent E2 reading of the bytes (instantiations with per-name argument provenance, exports, explicit imports) must equal the evaluator's.",
         "Trusts the evaluator (DESIGN.md A.4) and the E2 reader. Library LibL covers plain names, interface paths with and without versions, ambiguous and unique last segments; type compatibility is the resource-free structural rule.",
         "DESIGN.md §5 C04, §4 E5, A.4"),
 "C05": ("mc-sem", "translation_validation",
         "exhaustive enumeration of generated WIT packages encoded by wac and by the reference WIT toolchain, compared inside one validator",
         "Every package of the bounded WIT enumeration (all type declarations x function shapes, pairs of declarations, dependent declarations, resources with every member subset, `use` chains of three to five interfaces / diamonds / renames / derived types over every base declaration, world-level use / types / inline interfaces / paths / include with 0-2 renames, versioned and unversioned; plus the world-shape product family: every ordered sequence of 1..3 distinct world items from a 17-item alphabet - world-level use / renamed use / use through a second interface, world-level record and alias, interface paths in both directions, function items over the latest named type, inline interfaces, include with and without `with` - over a record and a full-resource base (thorough: 7 bases); ~5000 packages quick) is parsed, resolved and encoded by wac as a WAC document and encoded by wit-component; both artefacts are nested in one wrapper component validated once: every interface type must be a mutual subtype of the reference's (wasmparser is_subtype_of), every world must have the same explicit imports and exports with equal canonical types.",
         "Trusts wit-parser/wit-component 0.247 as the reference WIT semantics and wasmparser's subtyping. Interfaces a world depends on only through `use` are not 'explicit imports' (wac encodes them types-only) and are compared by presence.",
         "DESIGN.md §5 C05, §4 E3"),
 "C11": ("mc-sem", "exploration",
         "exhaustive enumeration of (world, composition) pairs - a hand table of single perturbations plus every ordered list of 1..k library components per world - with three verdicts that must agree: resolution, stand-alone validate_target on the encoded output, reference component subtyping",
         "7 generated worlds (function / interface / interface using another interface / versioned names; 0-2 imports, 1-2 exports). (a) Hand table: conforming compositions and every single perturbation (extra implicit / explicit / interface import, missing export, export under another name, type change in an import or export, fewer imports, more exports, other compatible version): resolution must accept exactly the conforming ones with the corresponding diagnostic class otherwise. (b) Generated family: every ordered list of 1..3 (quick) / 1..4 (thorough) of 21 library components (incl. components built against a wider or retyped version of an imported interface, so that several instantiations share an import name with different requirements) with all arguments implicit x export choice (world exports from the first / last instance offering them, or with extra exports) x 7 worlds: ~170k compositions quick. For every pair the resolution verdict, the stand-alone validate_target applied to the encoded output and wasmparser's component subtyping output <= world (one wrapper) must agree.",
         "Worlds and components come from generated WIT through wit-component; all resource-free. For names at another semver-compatible version the statement is silent: only wac's two verdicts are compared there (1 known finding).",
         "DESIGN.md §5 C11"),
 "C16": ("mc-sem", "model_checking",
         "exhaustive input/history enumeration re-executed under an enumerated set of process hash seeds (LD_PRELOAD getrandom shim, single-threaded workers) and independent in-process rebuilds; SHA-256 equality",
         "Inputs: every state of bounded E1 explorations over the C06, C03 and C02 universes, histories that define base types after their dependants and create many same-rank nodes, slot-reuse histories (a package owning 3-5 nodes is unregistered or its nodes are removed one by one, then as many independent nodes are created), every .wac file of the repository's test and example directories (parse, print, discover, resolve with the neighbouring packages, encode, rendered diagnostics), the two-position document family of C17 and multi-fault documents (several faults of one class in one document, incl. import merge conflicts involving several instantiations and explicit imports). Each input is processed twice per process (fresh hash maps) in 8 (quick) / 32 (thorough) worker processes whose std hash seed is an explicit input; encoded bytes in both dependency modes, printed text, rendered diagnostics, imports() listings and clone-vs-original encodings must be identical over all executions.",
         "The input/history dimension is exhaustive at the stated bounds; the hash-seed dimension is a deterministic, replayable enumeration of seeds, not an order-coverage argument (reported exhaustive=false). std HashMap keys come from getrandom (shimmed; effectiveness asserted by a probe each run); hashbrown maps inside wasmparser are assumed not to influence output.",
         "DESIGN.md §5 C16, §4 E8"),
 "C17": ("mc-sem", "exploration",
         "exhaustive enumeration of syntactic positions x packages (singles, ordered pairs, triples) with a generic AST-walk reference set and a differential resolve",
         "A foreign package reference is placed at each of 21 syntactic positions (targets clause; import path; use paths in interface, world, inline interfaces of import statements / world imports / world exports; world import/export paths; include; new in let, named and string-named arguments, parentheses, under a postfix chain, in export, doubly nested, and in a named argument that follows a spread / named / inferred argument or precedes a spread and the fill) with and without version, singly and in all ordered pairs (distinct packages, one package at two versions in both orders, the same reference twice; thorough: all triples), plus own-package references (own directive with and without a version x reference without a version / with the own version / with another version) and self-instantiation at every position. packages(doc) must contain every (name, version) object found by a generic walk over the serialised AST, never the own package; self-instantiation must be rejected; resolving with exactly the discovered packages must give the same outcome and the same encoded bytes (both modes) as resolving with the whole library.",
         "The reference set comes from the parser's own serialised AST (independent of the visitor, not of the parser). Supersets are represented by the whole library.",
         "DESIGN.md §5 C17"),
 "C08": ("mc-graph", "exploration",
         "exhaustive enumeration of generated WIT worlds built into real components; decoded world vs the reference validator's type tables via two independent canonical printers; wrapper-component subtyping for re-encoded dependency types",
         "Every world of every package of the bounded WIT enumeration (all type declarations x function shapes, dependent declarations, `use` chains of three to five interfaces/diamonds/renames/derived types, world-level use/types/include-with; plus every world of the world-shape product family the reference toolchain accepts; ~5000 components quick) is built into a real component, loaded with Package::from_bytes, and compared with wasmparser's view: import/export names in order, per-item canonical type (kinds, parameter names and order, results, async, value types, resource identity and aliasing through one resource numbering per world), instance type = exports, used-type provenance against type identity in the validator, and - with define_components=false - the original component must be a subtype of the written `unlocked-dep` component type inside one wrapper. The 231-item hand-shaped type universe of C07 (every import kind incl. core modules) and the LibHand components are compared the same way.",
         "Trusts wasmparser's type tables and the two printers (mc-core e2::Canon / canon_wac). Type shapes are those of the generator.",
         "DESIGN.md §5 C08, §4 E3"),
 "C07": ("mc-graph", "model_checking",
         "exhaustive pair enumeration over a generated type universe against the reference validator's subtype relation + BFS over memo contents",
         "A type universe (every value-type constructor to depth 2, field/case/param renames and reorderings, arity changes, async, option/result arms, alias chains, instance width/depth, component import/export subsets, core module limits/flags/globals/tags, values; 231 items in both tiers) is generated as the imports of one component; for all ordered pairs of resource-free items SubtypeChecker::is_subtype (fresh memo) must agree with wasmparser's ComponentEntityType::is_subtype_of in the same validator. Functions over own / borrow handles of two fixed imported resources (10 shapes) are compared among themselves the same way (the resources are the same on both sides, so only the structure counts). Reflexivity across two independent decodes, transitivity over all accepted chains, and an explicit-state BFS over memo contents (depth 4 over a 12-pair family sharing sub-terms; every family pair re-probed in every memo state) follow.",
         "Trusts wasmparser 0.247's subtype relation, corrected for two known quirks (it ignores table64 and the shared flag of globals; core import matching requires equality there, and wac's pinned tests agree). Apart from the handle family, resources only take part in reflexivity; resourceful argument passing is covered by C01's LibT.",
         "DESIGN.md §5 C07"),
 "C09": ("mc-graph", "model_checking",
         "exhaustive enumeration of contributor multisets and all their permutations on the real TypeAggregator against a reference merge",
         "All multisets of 2..5 (both tiers: the former thorough bound takes under 10 s) contributors from a 24-contributor universe (a:b/i at 13 versions incl. multi-digit and prefix-trap versions, a hand-written contributor whose exports share one type index with overlapping/disjoint/conflicting export sets, equal and conflicting functions, a kind clash on one track, nested instances, and WIT-derived interfaces that `use` one or two types of a compatible or incompatible version of another merged interface, so that one contributor has a `use` the other lacks), each decoded into its own Types collection, and every permutation of each, are aggregated. Checked: verdict equals the reference merge and is the same for every permutation; the name->canonical-type map is the same for every permutation; the canonical name is the highest version of its track and every lower name redirects to it; the merged type satisfies every contributor (fresh SubtypeChecker); re-aggregating every contributor changes nothing; no panic.",
         "Trusts the reference merge (A.3) and, for satisfaction, wac's SubtypeChecker (tied to the reference validator by C07). For mixes of hand-described and WIT-derived contributors the reference gives no verdict on success/failure (counted as unspecified) but all order-independence and law checks still apply.",
         "DESIGN.md §5 C09, A.3"),
 "C10": ("mc-graph", "exploration",
         "exhaustive enumeration of sockets x ordered plug lists on the real plug(), graph and encoding compared with the statement",
         "10 sockets (incl. two importing two versions of one interface on the same semver track, in ascending and descending order) x all ordered lists of 1..4 (both tiers: the former thorough bound takes under 10 s) plugs from a 12-plug universe (exact and semver-compatible versioned names, incompatible tracks, type-incompatible same-named items, plugs with nothing to offer, a plug with its own import, a plug exporting two versions on one track, one repeated plug) are plugged on fresh graphs. On success every matchable socket import must be supplied by the designated export of the designated plug (graph queries and E2 reading of both encodings), every other import remains an import, socket exports are re-exported from the socket instance under their names, idle plugs are not instantiated, and both encodings validate; a contested import must fail; NoPlugHappened iff nothing was matchable.",
         "Offers are computed from the library descriptors with the resource-free structural subtype rule. 'Same name or, failing that, a semver-compatible name' is read from the export's side: an export named exactly like a socket import belongs to that import only. One plug offering two candidates for one import, and one export with two semver-compatible socket imports and no same-named one, are outside the statement (no verdict).",
         "DESIGN.md §5 C10"),
 "C01": ("mc-graph", "model_checking",
         "explicit-state BFS over the real CompositionGraph (E1) on three libraries; every reached state encoded under 4 option vectors and re-validated by the reference validator",
         "BFS (depth 4 quick / 5 thorough, up to 5 live nodes) over LibT (WIT-derived records/variants/enums/flags/alias chains/resources with constructor, method, static and borrow, `use` chains and renames at versioned interface names), LibHand (core module, nested component, nested instance, type, resource and value imports/exports) and LibFI (functions, instances, type definitions). Every new state is encoded with dependencies embedded and imported, with and without validation: Ok bytes must pass wasmparser's validator (and the E2 wiring/interface comparison), the two validate settings must agree, an error must be a documented one the model admits; ValidationFailure, panics and process aborts are never admissible.",
         "For WIT-/WAT-derived packages item types are opaque text from the reference validator: where the model cannot decide argument compatibility or merge conflicts it accepts either outcome; validity is decided by wasmparser. Type shapes are those of the libraries; the known findings (13 fingerprints, 8 root causes) are listed in known-findings.json.",
         "DESIGN.md §5 C01, §8"),
 "C02": ("mc-graph", "translation_validation",
         "explicit-state BFS over constructive graph operations (E1) + independent section-level re-reading of every encoding (E2), provenance equality",
         "Every composition reachable by instantiate/alias/import/set-argument/export/name within depth 3 (quick) / 4 (thorough) from 8 seed states over a library built for ambiguity (same-typed slots and candidates, one package name at two versions, one package instantiated several times, diamonds, aliases of aliases of nested instances, multi-name exports, a package exporting a resource and a record type aliased from two of its instantiations, a package importing a component, so that explicit imports of component kind sit in the component index space) is encoded in both dependency modes; each encoding is re-read by an independent walker that rebuilds the index spaces with provenance, and the multiset of instantiations with per-name argument provenance, export bindings, alias sources, embedded component hashes (each once, byte-identical) and name-section entries must equal the graph's denotation read through public queries.",
         "Trusts the E2 reader (harness/mc-core/src/e2.rs, over wasmparser payloads) and wasmparser's validator for types. Implicit imports are identified up to their semver track here (C03 pins the name).",
         "DESIGN.md §4 E2, §5 C02, A.2"),
 "C03": ("mc-graph", "model_checking",
         "explicit-state BFS (E1) over versioned-import libraries with order-insensitive state grouping; implied-interface oracle from the reference merge",
         "All compositions of up to 4 (quick) / 5 (thorough) nodes over 10 packages requiring a:b/i unversioned and at 0.2.0/0.2.1/0.2.2(conflicting)/0.3.0/1.0.0/1.2.0/0.0.1/1.0.0-rc.1 plus plain function imports with equal and conflicting types, with explicit imports and satisfied slots, under every creation order BFS produces: the encoded import/export names, kinds and canonical types must equal the interface implied by the reference model (explicit imports, one import per semver track named for the highest version with the union type, exports = designated names), agree with imports(), and be identical for all states of one order-insensitive group. A second BFS (LibDep, depth 5 / 6, up to 5 / 6 nodes) runs over WIT-derived packages whose imported interfaces use types of each other (t; j uses t; k uses t and j) at versions 0.2.0 and 0.2.1, with a provider whose exports can satisfy a dependency while the dependant stays implicit: there every instance import must offer exactly the union of members its sharers need (plus the types its dependants use, at most what their packages know), at a type one sharer requires; the root interface of every used type must be imported; no other import may appear.",
         "Trusts the reference merge (A.3) and wasmparser's type tables for canonical types. No verdict where an explicit and an implicit import share a track under different names (statement silent); import sequence is not compared.",
         "DESIGN.md §5 C03, A.3"),
 "C06": ("mc-graph", "model_checking",
         "explicit-state BFS over the real CompositionGraph in lock-step with a reference model (E1)",
         "Level-synchronous BFS over the real graph with the full operation alphabet (register/unregister/instantiate/alias/import/set+unset argument/export/unexport/define type/name/remove) and every live identifier, from the empty graph and 6 hand-built seed states, depth 3 (quick) / 4 (thorough). Every transition's result class must be one the rustdoc admits for the model state; every new state is checked on all public queries against the model, on the H1 internal invariants, on encode under 4 option vectors against the predicted outcome and the reference validator, and by replaying its history on a fresh graph.",
         "Trusts the reference model (DESIGN.md A.1) and the tabulated name validity (wasmparser's name parser). Histories beyond the depth, more than 4/5 live nodes, and type shapes outside the 3-package library are not covered.",
         "DESIGN.md §4 E1, §5 C06, A.1"),
 "C15": ("mc-graph", "model_checking",
         "explicit-state exploration of NameMap insertion histories in lock-step with a reference map + exhaustive pair enumeration",
         "Every ordered pair of a 272-name universe is compared with an independent implementation of the semver track relation, and every NameMap insertion history up to depth 4 (both tiers) over 16 colliding names is explored on the real map; in every reached state every universe name is looked up and compared with the reference answer, and states reached by different orders of the same insertions must answer identically.",
         "Trusts the reference relation (written from the property statement on an independent semver.org parse). Names outside the universe and histories deeper than the bound are not covered.",
         "DESIGN.md §5 C15, A.6"),
 "C12": ("mc-lang", "exploration",
         "exhaustive grammar-derivation enumeration (bounded depth/repetition) plus all single-token mutants, subtree deletions and one-gap layout deviations, each decided by a reference recogniser written from LANGUAGE.md and by the real parser",
         "For every non-terminal of LANGUAGE.md every derivation to depth 4 with at most 2 repetitions (full substitute set to depth 3; ~11k base documents) is embedded in a minimal document; around each base document every single-token deletion, duplication, swap and substitution by every token class, every subtree deletion, every one-gap layout deviation (no space, newline, line/block comment, CR, tab) and a sweep of 1274 code points in identifier position are generated (~10 M texts), plus the tight-layout rendering (separators dropped wherever the reference tokenizer still splits the text identically) of every base document and of the mutants of the depth-3 documents (thorough: of all documents; ~2.7 M / 224 M more texts). The reference recogniser (harness/mc-lang/src/reference.rs, transcribing the EBNF) and Document::parse must agree on accept/reject; for accepted texts the span-stripped serialised AST must equal the reference derivation tree; rejected texts must carry at least one label inside the source.",
         "Trusts the reference recogniser as a transcription of LANGUAGE.md (with the widening clarifications listed in the evidence assumptions). Where LANGUAGE.md is silent the case is counted unspecified. Disagreements the maintainers' pinned tests rely on (e.g. `result<_>`) are listed in known-findings.json.",
         "DESIGN.md §5 C12, §4 E4"),
 "C13": ("mc-lang", "exploration",
         "exhaustive round trip parse -> print -> parse -> print over every accepted text of the C12 corpus, every doc-comment form at every gap, and every repository .wac file",
         "Every text of the C12 corpus that Document::parse accepts (~3.5 M distinct texts quick), 14 doc-comment forms (line and block comments, empty, multi-line with blank lines, with leading and trailing blanks on their lines, nested, CRLF) inserted at every gap of every base document, and all 155 .wac files under /repo: t1 = parse(s), p1 = print(t1), t2 = parse(p1) must succeed, strip(t1) == strip(t2) (spans removed, doc comments flattened to non-empty trimmed lines) and print(t2) == p1 byte for byte; every AST construct must occur in at least one round-tripped tree (constructs_never_printed is reported).",
         "Only accepted texts are round-tripped (acceptance is C12's question). Tree identity is identity of the serde-serialised AST.",
         "DESIGN.md §5 C13, §4 E4"),
 "C14": ("mc-lang", "fault_enumeration",
         "exhaustive single-fault enumeration around valid documents and valid package binaries (every token mutant, prefix, character substitution, multi-byte insertion; every byte prefix, bit flip and byte substitution), nesting families in supervised subprocesses; panic/abort/hang/span oracle on the real parser, resolver, decoder and encoder",
         "Text half: around every base document of the C12 corpus (depth 3) and every repository .wac file: every single-token mutant, subtree deletion, layout deviation, every prefix, every single-character substitution by {NUL, quote, slash, DEL}, every insertion of 12 multi-byte scalars at every token boundary, truncation into a comment, the same insertions after a comment of multi-byte characters, every identifier replaced by one identifier, all ordered pairs of interface / world / top-level items defining the same name, every kind of let-bound item in every top-level position that takes a name, package paths of one to three segments landing on every kind of item in every path position (~520 documents), and parametric nesting families at depths 2^1..2^17 (supervised workers; death by signal or 5 s silence is a violation) - ~5.5 M texts. parse, then resolve (empty package set) and encode must return without panic; every span and every error label must satisfy offset+len <= len on character boundaries; every error must render with miette's graphical handler. Byte half: every prefix, single-bit flip and substitution by {00,01,7F,80,FF} of 14 seed binaries (library components, core module, headers; ~74k byte strings quick) decoded with Package::from_bytes in supervised chunk workers, and decodable ones instantiated and encoded in both modes; 795/5k document x package pairings (missing, swapped, corrupted) and every ordered list of 1..3 (thorough 4) packages of the versioned-import library instantiated with implicit arguments, alone and after an explicit import statement under each of 6 versioned interface names with a merging / conflicting type (~4.6k / 60k documents), resolved and encoded. Every corpus text is additionally rendered in the tightest layout the reference tokenizer still splits identically (~2.7 M more texts quick).",
         "Single faults only (no pairs of faults); invalid UTF-8 is not representable as &str. Hangs are detected by a 5 s silence bound in workers. 4 known findings (deep-nesting stack overflow, miette width panic, encoder panic on a decodable mutant) are listed in known-findings.json.",
         "DESIGN.md §5 C14, §4 E6"),
 "C18": ("mc-env", "exploration",
         "exhaustive enumeration of file-system layouts x keys x overrides x resolver builds on the real FileSystemPackageResolver against a decision table written from README.md",
         "Full product: package key (quick: ns:name, ns:name:sub, ns:name@1.2.3; thorough: names of 1-3 segments x {unversioned, 1.2.3, 1.2.3-rc.1, 0.1.0+b.7}) x P, P.wasm, P.wat each in {absent, file, directory} x override in {none, .wasm, .wat, .wit, dangling, directory, other-name} x error_on_unknown x resolver build {wit; wit,wat}, plus all ordered pairs of distinct keys over 6 representative layouts in one resolve call, plus every ordered list of 1-3 keys over three WIT directories one of which depends on (and optionally vendors a differing copy of) another, where each key must resolve to exactly what its directory alone encodes to (~3k layouts quick). Every file holds a distinct component and every directory a distinct WIT package, so the loaded source is identified from the returned bytes; each layout is materialised in its own directory under the harness target dir and FileSystemPackageResolver::resolve is compared with the decision table of DESIGN.md A.5 (which candidate is loaded, the loaded bytes, UnknownPackage vs PackageResolutionFailure vs skipped).",
         "Reference bytes come from the same wat / wit-component crates wac links. Override pointing at a directory and a .wat override without text support are run for panics only (sources silent). Real file system (tmp dir under the target dir), no fault injection on I/O errors.",
         "DESIGN.md §5 C18, A.5"),
 "C19": ("mc-env", "exploration",
         "exhaustive enumeration of CLI flag vectors x input classes on the built wac binary, each run compared with the in-process library pipeline and the documented flag meaning",
         "Every invocation of the wac binary built from /repo (registry feature off) in the product: compose = 14 inputs (6 succeeding shapes incl. a versioned + WIT-directory dependency and a .wat dependency; failing at parse, discovery, unknown package, resolution, encoding, not-a-component; one validation-dependent) x {--deps-dir, default deps/, --dep k=v} x {--import-dependencies} x {-t} x {--no-validate} x {-o, stdout} (thorough: x short/long spellings x argument position x both CLI builds); plug = 3 sockets x ordered lists of 1-3 plug files x {-t} x {-o, stdout}; targets = 7 components x {one-world file, two-world file, WIT directory} x --world {omitted, w1, w2, unknown}; parse = accepted/rejected documents + missing file (~1k process runs quick). Exit status and failure stage must equal the in-process library pipeline's; binary output must be byte-identical to the library's; -t output must assemble to a component with the same E2 reading; the -o file must equal stdout; --import-dependencies must flip embedded/imported provenance; --no-validate must change neither bytes nor status except on the validation-dependent input.",
         "The in-process pipeline reproduces src/lib.rs + src/commands without the registry feature (no network in the sandbox). README/--help disagreement on `wac targets` positional form is recorded without verdict.",
         "DESIGN.md §5 C19"),
}

NOT_BUILT = "check not built yet in this revision (see DESIGN.md Appendix C build order); will be claimed once its engine exists"

def main():
    props = [json.loads(l)["id"] for l in open(os.path.join(ROOT, "properties.jsonl"))]
    hooks_commits = []
    hc = os.path.join(ROOT, "hooks-commits.txt")
    if os.path.exists(hc):
        hooks_commits = [l.split()[0] for l in open(hc) if l.strip() and not l.startswith("#")]
    checks = []
    for pid in props:
        if pid not in CHECKS:
            continue
        engine, cat, tech, text, note, ref = CHECKS[pid]
        checks.append({
            "property_id": pid,
            "quick_cmd": f"./check {pid} quick",
            "thorough_cmd": f"./check {pid} thorough",
            "evidence_file": f"/verif/evidence/{pid}.json",
            "replay_cmd_template": f"./check {pid} --replay {{path}}",
            "engine": engine,
            "level_claimed": {"category": cat, "text": text, "design_ref": ref},
            "level_note": note,
            "technique": tech,
        })
    na_extra = {}
    nap = os.path.join(ROOT, "not-applicable.json")
    if os.path.exists(nap):
        na_extra = json.load(open(nap))
    man = {
        "version": 1,
        "setup_cmd": "./setup.sh",
        "hooks": {
            "guard": "cfg(wac_verif)",
            "enable": "RUSTFLAGS=\"--cfg wac_verif\" via /verif/harness/.cargo/config.toml (own target dir /verif/harness/target; /repo/target is never touched)",
            "baseline_off_cmd": BASELINE,
            "source_commits": hooks_commits,
            "add_only": True,
        },
        "engines": [
            {"name": "mc-graph", "path": "harness/mc-graph", "serves_properties": [p for p in props if p in CHECKS and CHECKS[p][0] == "mc-graph"],
             "kind_free_text": "explicit-state BFS / exhaustive enumeration over the real wac-graph and wac-types code with reference models"},
            {"name": "mc-lang", "path": "harness/mc-lang", "serves_properties": [p for p in props if p in CHECKS and CHECKS[p][0] == "mc-lang"],
             "kind_free_text": "grammar-derivation enumeration, reference recogniser/evaluator, fault enumeration over the real parser/resolver"},
            {"name": "mc-sem", "path": "harness/mc-sem", "serves_properties": [p for p in props if p in CHECKS and CHECKS[p][0] == "mc-sem"],
             "kind_free_text": "document-level enumeration: package discovery, reproducibility under enumerated hash seeds, WAC evaluator, WIT differential, targets"},
            {"name": "mc-reg", "path": "harness/mc-reg", "serves_properties": [p for p in props if p in CHECKS and CHECKS[p][0] == "mc-reg"],
             "kind_free_text": "completion-order explorer for the registry resolver over an in-process Warg server (H2 gates)"},
            {"name": "mc-env", "path": "harness/mc-env", "serves_properties": [p for p in props if p in CHECKS and CHECKS[p][0] == "mc-env"],
             "kind_free_text": "environment enumeration: file-system layouts, CLI flag vectors, download completion orders"},
        ],
        "checks": checks,
        "not_applicable": [{"property_id": p, "reason": na_extra.get(p, NOT_BUILT)} for p in props if p not in CHECKS],
        "notes": "All checks are bounded exhaustive explorations of the real code (model-checking family); see DESIGN.md. Exit 2 = machinery error, never a verdict.",
    }
    out = os.path.join(ROOT, "MANIFEST.json")
    json.dump(man, open(out, "w"), indent=1)
    open(out, "a").write("\n")
    try:
        import jsonschema
        jsonschema.validate(man, json.load(open("/root/.vp/MANIFEST.schema.json")))
        print("MANIFEST.json valid;", len(checks), "checks,", len(man["not_applicable"]), "not_applicable")
    except ImportError:
        print("jsonschema not importable; wrote MANIFEST.json unvalidated")

if __name__ == "__main__":
    main()
