/* LD_PRELOAD shim: makes the per-process hash seed of Rust's std::collections::HashMap an
 * explicit input. std takes its RandomState keys from getrandom(2) (through the libc symbol
 * when present); this override fills the buffer from VERIF_HASH_SEED with a splitmix64 stream.
 * Without VERIF_HASH_SEED it forwards to the real syscall. */
#define _GNU_SOURCE
#include <stdint.h>
#include <stdlib.h>
#include <string.h>
#include <sys/syscall.h>
#include <sys/types.h>
#include <unistd.h>

static uint64_t splitmix(uint64_t *s) {
    uint64_t z = (*s += 0x9e3779b97f4a7c15ULL);
    z = (z ^ (z >> 30)) * 0xbf58476d1ce4e5b9ULL;
    z = (z ^ (z >> 27)) * 0x94d049bb133111ebULL;
    return z ^ (z >> 31);
}

ssize_t getrandom(void *buf, size_t len, unsigned int flags) {
    const char *seed = getenv("VERIF_HASH_SEED");
    if (!seed) return syscall(SYS_getrandom, buf, len, flags);
    uint64_t s = strtoull(seed, NULL, 10) * 0x2545F4914F6CDD1DULL + 1;
    unsigned char *p = buf;
    size_t i = 0;
    while (i < len) {
        uint64_t v = splitmix(&s);
        size_t n = len - i < 8 ? len - i : 8;
        memcpy(p + i, &v, n);
        i += n;
    }
    return (ssize_t)len;
}
