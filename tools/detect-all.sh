#!/bin/bash
# Runs every seeded change and every own mutant through the checks that are expected to catch it
# (quick tier, in the scratch lab of tools/mutant-lab.sh) and writes /verif/seeded/DETECTION.tsv:
#   <patch id> <check> <exit code> <first fingerprints>
# exit 1 = caught, 0 = not caught, 2 = machinery error.
set -u
L=/verif/tools/mutant-lab.sh
OUT=/verif/seeded/DETECTION.tsv
$L init >/dev/null 2>&1; $L sync
: > $OUT.tmp
run() { # id patch checks...
  local id="$1" patch="$2"; shift 2
  local log; log=$($L run "$patch" "$@" 2>&1)
  local c=""
  while IFS= read -r line; do
    case "$line" in
      "== "*) c=$(echo "$line" | sed -E 's/^== (C[0-9]+) exit=([0-9]+)$/\1\t\2/'); echo -e "$id\t$c\t$(echo "$log" | awk -v chk="$(echo "$line" | cut -d' ' -f2)" '$0 ~ "^== "chk" " {f=1; next} /^== /{f=0} f && /fingerprint:/ {sub(/^ *fingerprint: /,""); printf "%s; ", $0}' | cut -c1-300)" >> $OUT.tmp ;;
    esac
  done <<< "$log"
}
for d in /verif/seeded/*/; do
  id=$(basename $d)
  [ -f $d/meta.json ] || continue
  checks=$(python3 -c "import json;print(' '.join(json.load(open('$d/meta.json'))['caught_by_quick_checks']))")
  run "seed-$id" $d/patch.diff $checks
done
for p in /verif/mutants/*.patch; do
  id=$(basename $p .patch); txt=${p%.patch}.txt
  checks=$(head -1 $txt | sed 's/expected to be caught by://; s/?//g')
  run "$id" $p $checks
done
mv $OUT.tmp $OUT
echo done
