#!/bin/bash
# seed-verify.sh <id> <demo file in out dir> <destination in tree> <cargo test args...>
# Confirms a seeded change in the scratch worktree /tmp/mut/repo (never /repo):
#   builds with the patch, runs the repository's suite with the patch, runs the demonstration
#   with and without it. Writes /verif/seeded/<id>/{patch.diff,demo/,meta.json,verify.log}.
set -u
id="$1"; demo="$2"; dest="$3"; shift 3
OUT=/tmp/seed/out-$id; R=/tmp/mut/repo; S=/verif/seeded/$id
export CARGO_TARGET_DIR=/tmp/mut/repo-target RUST_BACKTRACE=0 CARGO_NET_OFFLINE=true
mkdir -p $S/demo; cp $OUT/patch.diff $S/; cp -r $OUT/demo/. $S/demo/; cp $OUT/meta.json $S/agent-meta.json
log=$S/verify.log
# DEMO_ONLY=1: keep the build/suite results of an earlier run, redo only the demonstration
if [ -n "${DEMO_ONLY:-}" ]; then
  b=$(grep -o 'build=[0-9]*' $log | tail -1 | cut -d= -f2); t=$(grep -o 'suite_with_patch=[0-9]*' $log | tail -1 | cut -d= -f2)
  echo "== DEMO_ONLY rerun (build=$b suite_with_patch=$t kept from the run above)" >> $log
else
  : > $log
fi
git -C $R checkout -q -- . ; git -C $R clean -fdq -- crates src examples 2>/dev/null
cd $R
echo "== apply patch" >> $log; git apply $S/patch.diff >> $log 2>&1 || { echo "PATCH DOES NOT APPLY" >> $log; exit 1; }
if [ -z "${DEMO_ONLY:-}" ]; then
echo "== build with patch" >> $log; cargo build --workspace --offline >> $log 2>&1; b=$?
echo "== suite with patch" >> $log; cargo test --workspace --no-fail-fast --offline >> $log 2>&1; t=$?
fi
mkdir -p "$(dirname $R/$dest)"
cp $OUT/demo/$demo $R/$dest
if [ -n "${EXTRA_SRC:-}" ]; then cp -r $OUT/demo/$EXTRA_SRC $R/$EXTRA_DEST; fi
echo "== demo with patch" >> $log; cargo test --offline "$@" >> $log 2>&1; d1=$?
git -C $R checkout -q -- .
echo "== demo without patch" >> $log; cargo test --offline "$@" >> $log 2>&1; d0=$?
rm -f $R/$dest; rmdir "$(dirname $R/$dest)" 2>/dev/null
if [ -n "${EXTRA_SRC:-}" ]; then rm -rf $R/$EXTRA_DEST; fi
echo "RESULT id=$id build=$b suite_with_patch=$t demo_with_patch=$d1 demo_without_patch=$d0" | tee -a $log
