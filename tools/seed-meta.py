#!/usr/bin/env python3
"""seed-meta.py <id> <caught-by (comma list or 'none')> <missed-by-before (text)>  -> writes /verif/seeded/<id>/meta.json"""
import json,sys,re,os
sid,caught,note=sys.argv[1],sys.argv[2],sys.argv[3]
d=f'/verif/seeded/{sid}'
a=json.load(open(f'{d}/agent-meta.json'))
log=open(f'{d}/verify.log').read()
m=list(re.finditer(r'RESULT id=\S+ build=(\d+) suite_with_patch=(\d+) demo_with_patch=(\d+) demo_without_patch=(\d+)',log))[-1]
meta={
 "property": a["property"],
 "written_by": "independent sub-agent given only the property text and a scratch worktree",
 "summary": a["summary"],
 "manifests_when": a["manifests_when"],
 "files_changed": a["files_changed"],
 "confirmed_in_scratch_worktree": {
   "builds_with_change": m.group(1)=="0",
   "repository_suite_passes_with_change": m.group(2)=="0",
   "demonstration_fails_with_change": m.group(3)!="0",
   "demonstration_passes_without_change": m.group(4)=="0",
   "commands": ["tools/seed-verify.sh (cargo build --workspace; RUST_BACKTRACE=0 cargo test --workspace --no-fail-fast; demo with and without the patch) in /tmp/mut/repo",
                "tools/mutant-lab.sh run seeded/%s/patch.diff <checks> (quick tier against a scratch copy of /repo + harness)"%sid]},
 "caught_by_quick_checks": [] if caught=="none" else caught.split(","),
 "detection_note": note,
}
json.dump(meta,open(f'{d}/meta.json','w'),indent=1)
print(sid, meta["confirmed_in_scratch_worktree"], meta["caught_by_quick_checks"])
