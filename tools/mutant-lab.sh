#!/bin/bash
# Scratch laboratory for trying property-breaking changes WITHOUT touching /repo:
#   mutant-lab.sh init                 create /tmp/mut/{repo (worktree of /repo HEAD), verif (copy of /verif)}
#   mutant-lab.sh sync                 refresh the copy of /verif (harness sources, known findings)
#   mutant-lab.sh run <patch> <Cxx>..  apply patch to the scratch repo, run quick checks, revert
#   mutant-lab.sh clean                remove everything
set -u
LAB=/tmp/mut
case "${1:-}" in
  init)
    mkdir -p $LAB
    [ -d $LAB/repo ] || git -C /repo worktree add -q --detach $LAB/repo HEAD
    $0 sync ;;
  sync)
    git -C $LAB/repo checkout -q --detach "$(git -C /repo rev-parse HEAD)"
    mkdir -p $LAB/verif
    rsync -a --delete --exclude 'harness/target*' --exclude '.git' --exclude replays --exclude evidence /verif/ $LAB/verif/
    sed -i "s#/repo/crates#$LAB/repo/crates#g; s#\"/repo\"#\"$LAB/repo\"#g" $LAB/verif/harness/Cargo.toml
    sed -i "s#/verif/harness/target#$LAB/verif/harness/target#" $LAB/verif/harness/.cargo/config.toml
    mkdir -p $LAB/verif/evidence ;;
  run)
    patch="$(realpath "$2")"; shift 2
    git -C $LAB/repo checkout -q -- . && git -C $LAB/repo apply "$patch" || { echo "patch does not apply"; exit 2; }
    for c in "$@"; do
      out=$(cd $LAB/verif && WAC_REPO=$LAB/repo VERIF_TARGET_DIR=$LAB/verif/harness/target ./check $c quick 2>&1)
      code=$?
      echo "== $c exit=$code"; echo "$out" | grep -E "fingerprint|MACHINERY|$c quick" | head -8 | cut -c1-220
    done
    git -C $LAB/repo checkout -q -- . ;;
  clean)
    git -C /repo worktree remove --force $LAB/repo 2>/dev/null; rm -rf $LAB ;;
  *) echo "usage: $0 init|sync|run <patch> <Cxx>...|clean"; exit 2 ;;
esac
