//! C19 — the CLI does what the library does with the flags as documented.
//!
//! The built `wac` binary is run over the full flag product x input classes of `compose`,
//! `plug`, `targets` and `parse`; every run is compared with (a) the in-process library
//! pipeline on the same inputs and (b) what README / `--help` / the statement promise
//! (success or failure, which dependency files are used, embedded vs imported dependencies,
//! `-o` = stdout, text form assembles to the same component).

use crate::common::{self, Partial, FEATURES, HAS_WAT};
use crate::lib_spec::{PkgSpec, Ty};
use mc_core::e2::{decode, Kind, Prov};
use mc_core::{catch, panic_site, sha256_hex, Ctx};
use rayon::prelude::*;
use serde::{Deserialize, Serialize};
use serde_json::{json, Map, Value};
use std::collections::{BTreeMap, BTreeSet, HashMap};
use std::path::{Path, PathBuf};
use std::sync::OnceLock;
use wac_graph::EncodeOptions;

type Viol = (String, String);

// ================================================================== running the binary

struct CliRes {
    code: Option<i32>,
    stdout: Vec<u8>,
    stderr: String,
}

fn run_wac(cwd: &Path, args: &[String]) -> CliRes {
    let bin = common::wac_bin();
    let out = std::process::Command::new(&bin)
        .args(args)
        .current_dir(cwd)
        .env_remove("RUST_LOG")
        .env("RUST_BACKTRACE", "0")
        .env("NO_COLOR", "1")
        // `wac` starts a multi-threaded tokio runtime it does not need with the registry off;
        // one worker thread keeps thousands of spawns cheap and changes nothing observable
        .env("TOKIO_WORKER_THREADS", "1")
        .stdin(std::process::Stdio::null())
        .output()
        .unwrap_or_else(|e| mc_core::machinery_error(&format!("cannot run {}: {e}", bin.display())));
    CliRes { code: out.status.code(), stdout: out.stdout, stderr: String::from_utf8_lossy(&out.stderr).to_string() }
}

fn first_line(s: &str) -> String {
    s.lines().find(|l| !l.trim().is_empty()).unwrap_or("").chars().take(160).collect()
}

/// Checks that hold for every invocation: not killed, no panic; on failure a diagnostic.
fn generic_checks(cmd: &str, r: &CliRes, v: &mut Vec<Viol>, argv: &[String]) {
    if r.code.is_none() {
        v.push((format!("C19/{cmd}/killed-by-signal"), format!("`wac {}` was killed by a signal; stderr: {}", argv.join(" "), first_line(&r.stderr))));
    }
    if r.stderr.contains("panicked at") {
        v.push((format!("C19/{cmd}/panic"), format!("`wac {}` panicked: {}", argv.join(" "), first_line(&r.stderr))));
    }
    if r.code != Some(0) && r.stderr.trim().is_empty() {
        v.push((format!("C19/{cmd}/failure-without-diagnostic"), format!("`wac {}` exited with {:?} and printed nothing on stderr", argv.join(" "), r.code)));
    }
}

// ================================================================== E2 view

#[derive(PartialEq, Eq, Debug, Clone, Serialize)]
struct View {
    imports: Vec<(String, Kind)>,
    exports: Vec<(String, Kind, Prov)>,
    instantiations: Vec<Prov>,
    embedded: Vec<String>,
}

/// Order-free E2 reading (imports, exports with provenance, instantiations, embedded hashes).
fn view(bytes: &[u8]) -> Result<View, String> {
    view_with(bytes, false)
}

fn map_embedded(p: &Prov, f: &dyn Fn(&str) -> String) -> Prov {
    match p {
        Prov::Embedded(h) => Prov::Embedded(f(h)),
        Prov::Inst(c, args) => Prov::Inst(Box::new(map_embedded(c, f)), args.iter().map(|(k, v)| (k.clone(), map_embedded(v, f))).collect()),
        Prov::Alias(i, n) => Prov::Alias(Box::new(map_embedded(i, f)), n.clone()),
        Prov::Bundle(m) => Prov::Bundle(m.iter().map(|(k, v)| (k.clone(), map_embedded(v, f))).collect()),
        other => other.clone(),
    }
}

/// `positional`: embedded components are identified by their position instead of the hash of
/// their bytes (print -> assemble does not reproduce every embedded component byte for byte,
/// e.g. custom sections of toolchain-built components; their order is preserved).
fn view_with(bytes: &[u8], positional: bool) -> Result<View, String> {
    let d = decode(bytes)?;
    let mut v = View { imports: d.imports, exports: d.exports, instantiations: d.instantiations, embedded: d.embedded };
    if positional {
        let order = v.embedded.clone();
        let f = move |h: &str| format!("#{}", order.iter().position(|x| x == h).map(|i| i.to_string()).unwrap_or_else(|| "?".into()));
        v.exports = v.exports.iter().map(|(n, k, p)| (n.clone(), *k, map_embedded(p, &f))).collect();
        v.instantiations = v.instantiations.iter().map(|p| map_embedded(p, &f)).collect();
        v.embedded = (0..v.embedded.len()).map(|i| format!("#{i}")).collect();
    }
    v.imports.sort();
    v.exports.sort();
    v.instantiations.sort();
    v.embedded.sort();
    Ok(v)
}

/// `-t` output: must assemble to a valid component with the same E2 reading as `reference`.
fn check_text(cmd: &str, text: &[u8], reference: &[u8], v: &mut Vec<Viol>, argv: &[String], counters: &mut BTreeMap<String, u64>) {
    let Ok(text) = std::str::from_utf8(text) else {
        v.push((format!("C19/{cmd}/text-output-not-utf8"), format!("`wac {}`: -t output is not UTF-8", argv.join(" "))));
        return;
    };
    let assembled = match wat::parse_str(text) {
        Ok(b) => b,
        Err(e) => {
            v.push((format!("C19/{cmd}/text-output-does-not-assemble"), format!("`wac {}`: -t output is rejected by the wat crate: {e}", argv.join(" "))));
            return;
        }
    };
    let ref_valid = mc_core::libs::validate(reference).is_ok();
    if !ref_valid {
        // only reachable with --no-validate on an input whose encoding is invalid (a wac
        // encoder defect, C01): the text is compared through re-assembly of the bytes only
        *counters.entry("text_roundtrip_of_invalid_component_not_e2_compared".into()).or_default() += 1;
        return;
    }
    if let Err(e) = mc_core::libs::validate(&assembled) {
        v.push((format!("C19/{cmd}/text-output-assembles-to-invalid-component"), format!("`wac {}`: the assembled -t output is invalid: {e}", argv.join(" "))));
        return;
    }
    // Embedded components are identified by the hash of their bytes, and print -> assemble
    // does not reproduce every component byte for byte (custom sections of toolchain-built
    // components): the binary form is taken through the same print -> assemble step with the
    // reference tools, which must preserve its positional reading.
    let reference_rt = wasmprinter::print_bytes(reference).ok().and_then(|t| wat::parse_str(t).ok());
    let Some(reference_rt) = reference_rt else {
        mc_core::machinery_error("the reference printer/assembler rejects a valid component");
    };
    if view_with(&reference_rt, true).ok() != view_with(reference, true).ok() {
        mc_core::machinery_error("print -> assemble with the reference tools changed interface or wiring of the binary form");
    }
    match (view(&assembled), view(&reference_rt)) {
        (Ok(a), Ok(b)) => {
            *counters.entry("text_outputs_assembled_and_e2_compared".into()).or_default() += 1;
            if a != b {
                v.push((
                    format!("C19/{cmd}/text-output-differs-from-binary-form"),
                    format!("`wac {}`: interface/wiring of the assembled -t output differ from the binary form: {} vs {}", argv.join(" "), json!(a), json!(b)),
                ));
            }
        }
        (Err(e), _) | (_, Err(e)) => mc_core::machinery_error(&format!("E2 reader failed on a valid component: {e}")),
    }
}

// ================================================================== library of packages

struct Lib {
    files: BTreeMap<&'static str, Vec<u8>>,
    /// the component bytes a package denotes (for .wat: the assembled text)
    component: BTreeMap<&'static str, Vec<u8>>,
}

const WIT_W: &str = "package t:w;\n\ninterface iface {\n  f: func();\n}\n\nworld w {\n  import iface;\n}\n";
const WIT_TYPES: &str = "package t:types@1.0.0;\n\ninterface base {\n  record rec { a: u32 }\n}\n\ninterface user {\n  use base.{rec};\n  g: func(r: rec) -> rec;\n}\n\nworld producer {\n  export base;\n  export user;\n}\n";

fn lib() -> &'static Lib {
    static L: OnceLock<Lib> = OnceLock::new();
    L.get_or_init(|| {
        let f0 = Ty::func0();
        let f1 = Ty::func(&[("p", "u32")], None);
        let mut files: BTreeMap<&'static str, Vec<u8>> = BTreeMap::new();
        let mut component = BTreeMap::new();
        let mut add = |id: &'static str, spec: PkgSpec| {
            let b = spec.to_bytes();
            files.insert(id, b.clone());
            component.insert(id, b);
        };
        add("a", PkgSpec::new("t:a", &[], &[("x", f0.clone())]));
        add("a-decoy", PkgSpec::new("t:a", &[], &[("x", f0.clone()), ("decoy", f0.clone())]));
        add("b", PkgSpec::new("t:b", &[("x", f0.clone())], &[("out", f0.clone())]));
        add("b-decoy", PkgSpec::new("t:b", &[("x", f0.clone())], &[("out", f0.clone()), ("decoy", f0.clone())]));
        add("c", PkgSpec::new("t:c", &[("x", f0.clone()), ("y", f1.clone())], &[("out2", f0.clone()), ("inst", Ty::inst(&[("g", f0.clone())]))]));
        add("v", PkgSpec::new("t:v", &[], &[("x", f0.clone()), ("v123", f0.clone())]));
        add("v-decoy", PkgSpec::new("t:v", &[], &[("x", f0.clone()), ("decoy", f0.clone())]));
        add("x", PkgSpec::new("t:x", &[("x", f1.clone())], &[("outx", f0.clone())]));
        let wt = PkgSpec::new("t:wt", &[], &[("x", f0.clone()), ("from-text", f0.clone())]);
        files.insert("wt.wat", wt.to_wat().into_bytes());
        component.insert("wt.wat", wt.to_bytes());
        files.insert("bad", wat::parse_str("(module (func (export \"f\")))").unwrap());
        let producer = mc_core::libs::component_from_wit(&[("types.wit", WIT_TYPES)], "producer").unwrap_or_else(|e| mc_core::machinery_error(&format!("producer: {e:#}")));
        files.insert("producer", producer.clone());
        component.insert("producer", producer);
        files.insert("w.wit", WIT_W.as_bytes().to_vec());
        Lib { files, component }
    })
}

fn put(path: &Path, bytes: &[u8]) {
    if let Some(p) = path.parent() {
        std::fs::create_dir_all(p).unwrap_or_else(|e| mc_core::machinery_error(&format!("mkdir {}: {e}", p.display())));
    }
    std::fs::write(path, bytes).unwrap_or_else(|e| mc_core::machinery_error(&format!("write {}: {e}", path.display())));
}

// ================================================================== compose

#[derive(Clone, Copy, PartialEq, Eq, Debug, Serialize, Deserialize, PartialOrd, Ord)]
#[serde(rename_all = "kebab-case")]
enum DepsMode {
    /// `--deps-dir mydeps`; a `deps/` directory with decoys sits in the working directory
    DepsDir,
    /// no flag: `deps/` in the working directory
    Default,
    /// `--dep name=path` for t:a, t:b (decoys of both in `deps/`), t:w (WIT file), t:wt (.wat)
    /// and t:v (a decoy: the document references t:v@1.2.3, which an override never serves)
    Dep,
}

#[derive(Clone, Copy, PartialEq, Eq, Debug)]
enum Hand {
    Ok,
    Fail,
    /// no promise in the sources: library and binary must agree, nothing more
    Differential,
}

struct Input {
    id: &'static str,
    source: &'static str,
    /// intended stage of failure ("" = succeeds); evidence only
    stage: &'static str,
    /// package ids (keys of Lib::component) instantiated by the document
    uses: &'static [&'static str],
    hand: fn(DepsMode, bool) -> Hand,
}

fn compose_inputs() -> Vec<Input> {
    fn ok(_: DepsMode, _: bool) -> Hand {
        Hand::Ok
    }
    fn fail(_: DepsMode, _: bool) -> Hand {
        Hand::Fail
    }
    vec![
        Input { id: "wired", stage: "", uses: &["a", "b"], hand: ok, source: "package t:comp;\n\nlet a = new t:a {};\nlet b = new t:b { x: a.x };\nexport b.out;\n" },
        Input { id: "implicit-import", stage: "", uses: &["b"], hand: ok, source: "package t:comp;\n\nlet b = new t:b { ... };\nexport b.out;\n" },
        Input {
            id: "explicit-import-twice",
            stage: "",
            uses: &["b"],
            hand: ok,
            source: "package t:comp@1.0.0;\n\nimport x: func();\nlet b1 = new t:b { x };\nlet b2 = new t:b { x: x };\nexport b1.out as out1;\nexport b2.out as out2;\n",
        },
        Input {
            id: "versioned-and-wit",
            stage: "",
            uses: &["v", "c"],
            hand: ok,
            source: "package t:comp;\n\nimport i: t:w/iface;\nlet v = new t:v@1.2.3 {};\nlet c = new t:c { x: v.x, ... };\nexport c.inst;\nexport c.out2;\nexport i as \"my-iface\";\n",
        },
        Input {
            id: "nested-new",
            stage: "",
            uses: &["a", "b", "c"],
            hand: ok,
            source: "package t:comp;\n\nlet c = new t:c { x: new t:a {}.x, ... };\nlet b = new t:b { x: c.out2 };\nexport b.out;\nexport c.inst as other;\n",
        },
        Input {
            id: "wat-dependency",
            stage: "",
            uses: &["wt.wat", "b"],
            // a .wat dependency needs text support [readme]; a .wat override without it: silent
            hand: |m, wat| if wat { Hand::Ok } else if m == DepsMode::Dep { Hand::Differential } else { Hand::Fail },
            source: "package t:comp;\n\nlet w = new t:wt {};\nlet b = new t:b { x: w.x };\nexport b.out;\n",
        },
        Input { id: "fail-parse", stage: "parse", uses: &[], hand: fail, source: "package t:comp;\n\nlet a = new t:a {;\n" },
        Input { id: "fail-discovery-self", stage: "discovery", uses: &[], hand: fail, source: "package t:comp;\n\nlet s = new t:comp {};\n" },
        Input { id: "fail-unknown-package", stage: "unknown-package", uses: &[], hand: fail, source: "package t:comp;\n\nlet a = new t:a {};\nlet m = new t:missing {};\n" },
        Input { id: "fail-resolution", stage: "resolution", uses: &[], hand: fail, source: "package t:comp;\n\nlet a = new t:a {};\nexport a.nope;\n" },
        Input {
            id: "fail-encoding-merge-conflict",
            stage: "encode",
            uses: &[],
            hand: fail,
            source: "package t:comp;\n\nlet b = new t:b { ... };\nlet x = new t:x { ... };\nexport b.out;\nexport x.outx;\n",
        },
        Input { id: "fail-not-a-component", stage: "resolution", uses: &[], hand: fail, source: "package t:comp;\n\nlet z = new t:bad {};\n" },
        Input {
            id: "validation-dependent",
            stage: "validation",
            uses: &["producer"],
            // succeeds with embedded dependencies; with --import-dependencies the outcome hangs
            // on a known encoder defect (C01/C08), so only agreement with the library is asked
            hand: |_, _| Hand::Differential,
            source: "package t:comp;\n\nlet p = new t:producer { ... };\nexport p...;\n",
        },
    ]
}

/// Writes the working directory of one compose group; returns (deps dir, overrides) as the
/// library sees them (absolute) and the flags as the CLI gets them (relative to `cwd`).
fn compose_fixture(cwd: &Path, mode: DepsMode, source: &str) -> (PathBuf, HashMap<String, PathBuf>, Vec<(String, String)>) {
    let l = lib();
    let f = |id: &str| &l.files[id];
    put(&cwd.join("input.wac"), source.as_bytes());
    let real = match mode {
        DepsMode::DepsDir => "mydeps",
        _ => "deps",
    };
    let d = cwd.join(real);
    put(&d.join("t/c.wasm"), f("c"));
    put(&d.join("t/v/1.2.3.wasm"), f("v"));
    put(&d.join("t/x.wasm"), f("x"));
    put(&d.join("t/bad.wasm"), f("bad"));
    put(&d.join("t/producer.wasm"), f("producer"));
    let mut overrides = HashMap::new();
    let mut dep_flags = Vec::new();
    if mode == DepsMode::Dep {
        put(&d.join("t/a.wasm"), f("a-decoy"));
        put(&d.join("t/b.wasm"), f("b-decoy"));
        for (name, file, id) in [("t:a", "flat/a-real.wasm", "a"), ("t:b", "flat/sub/b-real.wasm", "b"), ("t:w", "flat/w.wit", "w.wit"), ("t:wt", "flat/wt.wat", "wt.wat"), ("t:v", "flat/v-decoy.wasm", "v-decoy")] {
            put(&cwd.join(file), f(id));
            overrides.insert(name.to_string(), cwd.join(file));
            dep_flags.push((name.to_string(), file.to_string()));
        }
    } else {
        put(&d.join("t/a.wasm"), f("a"));
        put(&d.join("t/b.wasm"), f("b"));
        put(&d.join("t/w/w.wit"), f("w.wit"));
        put(&d.join("t/wt.wat"), f("wt.wat"));
        if mode == DepsMode::DepsDir {
            // the default directory must not be consulted when --deps-dir is given
            put(&cwd.join("deps/t/a.wasm"), f("a-decoy"));
            put(&cwd.join("deps/t/b.wasm"), f("b-decoy"));
        }
    }
    (d, overrides, dep_flags)
}

#[derive(Clone, Debug)]
enum LibRes {
    Ok(Vec<u8>),
    Err(&'static str, String),
    Panic(String),
}

/// The library pipeline of src/lib.rs + src/commands/compose.rs with the registry off.
fn compose_pipeline(source: &str, deps: &Path, overrides: &HashMap<String, PathBuf>, define_components: bool, validate: bool) -> LibRes {
    let r = catch(|| -> Result<Vec<u8>, (&'static str, String)> {
        let doc = wac_parser::Document::parse(source).map_err(|e| ("parse", e.to_string()))?;
        let mut keys = wac_resolver::packages(&doc).map_err(|e| ("discovery", e.to_string()))?;
        let resolver = wac_resolver::FileSystemPackageResolver::new(deps, overrides.clone(), false);
        let packages = resolver.resolve(&keys).map_err(|e| ("package-load", e.to_string()))?;
        keys.retain(|k, _| !packages.contains_key(k));
        if let Some((k, _)) = keys.first() {
            return Err(("unknown-package", format!("unknown package `{}`", k.name)));
        }
        let resolution = doc.resolve(packages).map_err(|e| ("resolution", e.to_string()))?;
        resolution.encode(EncodeOptions { define_components, validate, ..Default::default() }).map_err(|e| {
            let stage = if matches!(e, wac_parser::resolution::Error::ValidationFailure { .. }) { "validation" } else { "encode" };
            (stage, e.to_string())
        })
    });
    match r {
        Ok(Ok(b)) => LibRes::Ok(b),
        Ok(Err((s, m))) => LibRes::Err(s, m),
        Err(p) => LibRes::Panic(p),
    }
}

#[derive(Clone, Debug, Serialize, Deserialize)]
struct ComposeGroup {
    input: String,
    mode: DepsMode,
    import_dependencies: bool,
    wat: bool,
    /// spell the flags in their short form where one exists
    short: bool,
    /// put the document path before the flags
    path_first: bool,
}

fn compose_argv(g: &ComposeGroup, dep_flags: &[(String, String)], no_validate: bool, output: Option<&str>) -> Vec<String> {
    let mut flags: Vec<String> = Vec::new();
    match g.mode {
        DepsMode::DepsDir => flags.extend(["--deps-dir".to_string(), "mydeps".to_string()]),
        DepsMode::Default => {}
        DepsMode::Dep => {
            for (k, v) in dep_flags {
                flags.push(if g.short { "-d".into() } else { "--dep".into() });
                flags.push(format!("{k}={v}"));
            }
        }
    }
    if g.import_dependencies {
        flags.push(if g.short { "-i".into() } else { "--import-dependencies".into() });
    }
    if no_validate {
        flags.push("--no-validate".into());
    }
    if g.wat {
        flags.push(if g.short { "-t".into() } else { "--wat".into() });
    }
    if let Some(o) = output {
        flags.push(if g.short { "-o".into() } else { "--output".into() });
        flags.push(o.to_string());
    }
    let mut argv = vec!["compose".to_string()];
    if g.path_first {
        argv.push("input.wac".into());
        argv.extend(flags);
    } else {
        argv.extend(flags);
        argv.push("input.wac".into());
    }
    argv
}

#[derive(Default)]
struct GroupOut {
    violations: Vec<Viol>,
    runs: u64,
    hist: Vec<(&'static str, String)>,
    counters: BTreeMap<String, u64>,
    sample: Option<Value>,
    nontrivial: u64,
}

fn run_compose_group(g: &ComposeGroup, root: &Path) -> GroupOut {
    let mut out = GroupOut::default();
    let inputs = compose_inputs();
    let input = inputs.iter().find(|i| i.id == g.input).unwrap_or_else(|| mc_core::machinery_error(&format!("unknown compose input {}", g.input)));
    let _ = std::fs::remove_dir_all(root);
    let (deps, overrides, dep_flags) = compose_fixture(root, g.mode, input.source);
    let hand = (input.hand)(g.mode, HAS_WAT);
    let l = lib();
    // payload per (no_validate, output)
    let mut payloads: BTreeMap<(bool, bool), Option<Vec<u8>>> = BTreeMap::new();
    let mut libs: BTreeMap<bool, LibRes> = BTreeMap::new();
    for no_validate in [false, true] {
        let lr = compose_pipeline(input.source, &deps, &overrides, !g.import_dependencies, !no_validate);
        let lib_class = match &lr {
            LibRes::Ok(_) => "ok".to_string(),
            LibRes::Err(s, _) => format!("fail:{s}"),
            LibRes::Panic(_) => "panic".to_string(),
        };
        out.hist.push(("library_outcome_by_input", format!("{} => {lib_class}", input.id)));
        // (b) what the sources promise about this input
        match (hand, &lr) {
            (Hand::Ok, LibRes::Ok(_)) | (Hand::Fail, LibRes::Err(..)) | (Hand::Differential, _) => {}
            (Hand::Ok, _) => out.violations.push((
                format!("C19/compose/documented-success-fails/{}/{}", lib_class, serde_json::to_value(g.mode).unwrap().as_str().unwrap()),
                format!("input `{}` with dependencies given by {:?} must compose (README layout / --dep), the library pipeline says {lr:?}", input.id, g.mode),
            )),
            (Hand::Fail, _) => out.violations.push((
                format!("C19/compose/documented-failure-succeeds/{}", input.id),
                format!("input `{}` (intended to fail at stage {}) went through the library pipeline: {lib_class}", input.id, input.stage),
            )),
        }
        if hand == Hand::Differential {
            out.counters.entry("unspecified_vectors".into()).or_default().add_assign(2);
        }
        for output in [false, true] {
            let ofile = "out.bin";
            let argv = compose_argv(g, &dep_flags, no_validate, output.then_some(ofile));
            let _ = std::fs::remove_file(root.join(ofile));
            let r = run_wac(root, &argv);
            out.runs += 1;
            let v = &mut out.violations;
            generic_checks("compose", &r, v, &argv);
            let file = std::fs::read(root.join(ofile)).ok();
            let _ = std::fs::remove_file(root.join(ofile));
            let cli_ok = r.code == Some(0);
            out.hist.push(("cli_outcome", format!("{} => exit {}", input.id, r.code.map(|c| c.to_string()).unwrap_or("signal".into()))));
            // (a) exit status <=> library outcome
            match (&lr, cli_ok) {
                (LibRes::Ok(_), true) | (LibRes::Err(..), false) => {}
                (LibRes::Panic(p), _) => v.push((format!("C19/compose/library-panic/{}", panic_site(p)), format!("the library pipeline panicked on input `{}`: {p}", input.id))),
                (LibRes::Ok(_), false) => v.push((
                    "C19/compose/exit-status/cli-fails-library-succeeds".into(),
                    format!("`wac {}` exited with {:?} ({}), the library pipeline succeeds", argv.join(" "), r.code, first_line(&r.stderr)),
                )),
                (LibRes::Err(stage, msg), true) => v.push((
                    format!("C19/compose/exit-status/cli-succeeds-library-fails-at-{stage}"),
                    format!("`wac {}` exited 0, the library pipeline fails at {stage}: {msg}", argv.join(" ")),
                )),
            }
            if !cli_ok {
                if file.is_some() {
                    v.push(("C19/compose/output-file-written-on-failure".into(), format!("`wac {}` failed ({:?}) but wrote the output file", argv.join(" "), r.code)));
                }
                payloads.insert((no_validate, output), None);
                continue;
            }
            // where the result went
            let payload = if output {
                if !r.stdout.is_empty() {
                    v.push(("C19/compose/stdout-written-despite-output-file".into(), format!("`wac {}` wrote {} bytes to stdout although -o was given", argv.join(" "), r.stdout.len())));
                }
                match file {
                    Some(f) => f,
                    None => {
                        v.push(("C19/compose/output-file-missing-on-success".into(), format!("`wac {}` exited 0 without writing the output file", argv.join(" "))));
                        payloads.insert((no_validate, output), None);
                        continue;
                    }
                }
            } else {
                r.stdout.clone()
            };
            if let LibRes::Ok(bytes) = &lr {
                if g.wat {
                    check_text("compose", &payload, bytes, v, &argv, &mut out.counters);
                } else if payload != *bytes {
                    v.push((
                        "C19/compose/binary-output-differs-from-library".into(),
                        format!("`wac {}`: {} bytes, sha256 {}; library: {} bytes, sha256 {}", argv.join(" "), payload.len(), &sha256_hex(&payload)[..16], bytes.len(), &sha256_hex(bytes)[..16]),
                    ));
                } else {
                    *out.counters.entry("binary_outputs_byte_identical_to_library".into()).or_default() += 1;
                }
                // dependencies embedded unless --import-dependencies; the files used are the
                // documented ones
                let comp = if g.wat { wat::parse_str(std::str::from_utf8(&payload).unwrap_or("")).ok() } else { Some(payload.clone()) };
                if let Some(d) = comp.as_ref().and_then(|c| decode(c).ok()) {
                    let want: BTreeSet<String> = input.uses.iter().map(|id| sha256_hex(&l.component[id])).collect();
                    let got: BTreeSet<String> = d.embedded.iter().cloned().collect();
                    let dep_imports: Vec<&(String, Kind)> = d.imports.iter().filter(|(n, k)| *k == Kind::Component || n.starts_with("unlocked-dep=")).collect();
                    if hand != Hand::Differential || input.id == "validation-dependent" {
                        if !g.import_dependencies {
                            if g.wat {
                                // the text form is tied to the binary form by check_text; the
                                // identity of the embedded files is checked on the binary form
                                if got.len() != want.len() {
                                    v.push(("C19/compose/embedded-dependency-count".into(), format!("`wac {}` embeds {} component(s), the document uses {} package(s)", argv.join(" "), got.len(), want.len())));
                                }
                            } else if got != want {
                                let name = |h: &String| l.component.iter().find(|(_, b)| sha256_hex(b) == *h).map(|(id, _)| id.to_string()).unwrap_or_else(|| h[..12].to_string());
                                v.push((
                                    "C19/compose/embedded-dependencies-are-not-the-documented-files".into(),
                                    format!("`wac {}` embeds {:?}; the documented lookup selects {:?}", argv.join(" "), got.iter().map(name).collect::<Vec<_>>(), want.iter().map(name).collect::<Vec<_>>()),
                                ));
                            }
                            if !dep_imports.is_empty() {
                                v.push(("C19/compose/dependencies-imported-without-flag".into(), format!("`wac {}` imports {:?}", argv.join(" "), dep_imports)));
                            }
                        } else {
                            if !got.is_empty() {
                                v.push(("C19/compose/dependencies-embedded-despite-import-dependencies".into(), format!("`wac {}` embeds {} component(s)", argv.join(" "), got.len())));
                            }
                            let names: BTreeSet<&str> = input.uses.iter().map(|id| pkg_name(id)).collect();
                            let ok = dep_imports.len() == names.len()
                                && names.iter().all(|n| dep_imports.iter().any(|(i, k)| *k == Kind::Component && i.starts_with(&format!("unlocked-dep=<{n}"))));
                            if !ok {
                                v.push((
                                    "C19/compose/import-dependencies-does-not-import-the-dependencies".into(),
                                    format!("`wac {}` has component imports {:?}; expected one `unlocked-dep=<name…>` per package of {:?}", argv.join(" "), dep_imports, names),
                                ));
                            }
                        }
                        *out.counters.entry("dependency_polarity_checked".into()).or_default() += 1;
                    }
                }
            }
            payloads.insert((no_validate, output), Some(payload));
        }
        libs.insert(no_validate, lr);
    }
    // -o writes exactly the bytes otherwise sent to stdout
    for nv in [false, true] {
        if let (Some(Some(so)), Some(Some(fo))) = (payloads.get(&(nv, false)), payloads.get(&(nv, true))) {
            *out.counters.entry("output_file_vs_stdout_compared".into()).or_default() += 1;
            if so != fo {
                let argv = compose_argv(g, &dep_flags, nv, Some("out.bin"));
                let mut with_nl = fo.clone();
                with_nl.push(b'\n');
                let fp = if *so == with_nl { "C19/compose/output-file-differs-from-stdout/trailing-newline-only-on-stdout" } else { "C19/compose/output-file-differs-from-stdout" };
                out.violations.push((fp.into(), format!("`wac {}`: file has {} bytes, stdout of the same vector without -o has {} bytes", argv.join(" "), fo.len(), so.len())));
            }
        }
    }
    // --no-validate changes neither bytes nor exit status (unless the library itself says
    // validation decides, which needs an encoder defect: then the polarity is observable)
    let lib_differs = matches!((&libs[&false], &libs[&true]), (LibRes::Err("validation", _), LibRes::Ok(_)));
    if lib_differs {
        *out.counters.entry("no_validate_polarity_observable_groups".into()).or_default() += 1;
    } else {
        for o in [false, true] {
            *out.counters.entry("no_validate_pairs_compared".into()).or_default() += 1;
            if payloads.get(&(false, o)) != payloads.get(&(true, o)) {
                let argv = compose_argv(g, &dep_flags, true, o.then_some("out.bin"));
                out.violations.push(("C19/compose/no-validate-changes-the-result".into(), format!("`wac {}` differs from the same vector without --no-validate although the library result is the same", argv.join(" "))));
            }
        }
    }
    if matches!(libs[&false], LibRes::Ok(_)) {
        out.nontrivial = 1;
    }
    out.sample = Some(json!({"command": "compose", "group": g, "argv_example": compose_argv(g, &dep_flags, false, Some("out.bin")), "library": match &libs[&false] { LibRes::Ok(b) => format!("ok, {} bytes", b.len()), LibRes::Err(s, m) => format!("fails at {s}: {}", first_line(m)), LibRes::Panic(p) => format!("panic {p}") }}));
    let _ = std::fs::remove_dir_all(root);
    out
}

trait AddAssign {
    fn add_assign(&mut self, n: u64);
}
impl AddAssign for u64 {
    fn add_assign(&mut self, n: u64) {
        *self += n;
    }
}

fn pkg_name(id: &str) -> &'static str {
    match id {
        "a" => "t:a",
        "b" => "t:b",
        "c" => "t:c",
        "v" => "t:v",
        "x" => "t:x",
        "wt.wat" => "t:wt",
        "producer" => "t:producer",
        other => mc_core::machinery_error(&format!("no package name for {other}")),
    }
}

fn compose_groups(thorough: bool) -> Vec<ComposeGroup> {
    let mut v = Vec::new();
    let mut n = 0usize;
    for input in compose_inputs() {
        for mode in [DepsMode::DepsDir, DepsMode::Default, DepsMode::Dep] {
            for import_dependencies in [false, true] {
                for wat in [false, true] {
                    if thorough {
                        for short in [false, true] {
                            for path_first in [false, true] {
                                v.push(ComposeGroup { input: input.id.to_string(), mode, import_dependencies, wat, short, path_first });
                            }
                        }
                    } else {
                        // both spellings and both positions occur, alternating
                        v.push(ComposeGroup { input: input.id.to_string(), mode, import_dependencies, wat, short: n % 2 == 1, path_first: (n / 2) % 2 == 1 });
                        n += 1;
                    }
                }
            }
        }
    }
    v
}

// ================================================================== plug

struct PlugLib {
    sockets: Vec<(&'static str, PkgSpec)>,
    /// (id, relative path, spec)
    plugs: Vec<(&'static str, &'static str, PkgSpec)>,
}

fn plug_lib() -> &'static PlugLib {
    static L: OnceLock<PlugLib> = OnceLock::new();
    L.get_or_init(|| {
        let f0 = Ty::func0();
        let f1 = Ty::func(&[("p", "u32")], None);
        let ifc = Ty::inst(&[("f", f0.clone())]);
        PlugLib {
            sockets: vec![
                ("s1", PkgSpec::new("s:s1", &[("x", f0.clone())], &[("out", f0.clone())])),
                ("s2", PkgSpec::new("s:s2", &[("x", f0.clone()), ("y", f1.clone()), ("a:b/i@1.0.0", ifc.clone())], &[("out", f0.clone()), ("inst", Ty::inst(&[("g", f0.clone())]))])),
                // no listed plug exports `zz`: nothing can be plugged
                ("s3", PkgSpec::new("s:s3", &[("zz", f0.clone())], &[("out", f0.clone())])),
            ],
            plugs: vec![
                ("px", "d1/p.wasm", PkgSpec::new("p:px", &[], &[("x", f0.clone())])),
                // same file stem as px
                ("py", "d2/p.wasm", PkgSpec::new("p:py", &[], &[("y", f1.clone())])),
                ("pi", "d1/iface.wasm", PkgSpec::new("p:pi", &[], &[("a:b/i@1.0.0", ifc.clone())])),
                // offers `x` as px does: contested when both are listed
                ("px2", "d1/other-x.wasm", PkgSpec::new("p:px2", &[], &[("x", f0.clone()), ("extra", f0.clone())])),
            ],
        }
    })
}

#[derive(Clone, Debug, Serialize, Deserialize)]
struct PlugGroup {
    socket: String,
    plugs: Vec<String>,
    wat: bool,
    short: bool,
}

fn ty_kind(t: &Ty) -> Kind {
    match t {
        Ty::Func(..) => Kind::Func,
        Ty::Inst(_) => Kind::Instance,
    }
}

/// What the statement (C10 wording: every matchable socket import is supplied by the plug
/// exporting it, socket exports are re-exported) fixes for these plugs: Err = must fail.
fn plug_expected(socket: &PkgSpec, plugs: &[&PkgSpec]) -> Result<View, &'static str> {
    let ssha = sha256_hex(&socket.to_bytes());
    let mut args: BTreeMap<String, Prov> = BTreeMap::new();
    let mut insts: Vec<Prov> = Vec::new();
    let mut embedded = vec![ssha.clone()];
    for p in plugs {
        let psha = sha256_hex(&p.to_bytes());
        let pinst = Prov::Inst(Box::new(Prov::Embedded(psha.clone())), BTreeMap::new());
        let mut used = false;
        for (name, ty) in &p.exports {
            if socket.imports.iter().any(|(n, t)| n == name && t == ty) {
                if args.insert(name.clone(), Prov::Alias(Box::new(pinst.clone()), name.clone())).is_some() {
                    return Err("contested");
                }
                used = true;
            }
        }
        if used {
            insts.push(pinst);
            embedded.push(psha);
        }
    }
    if args.is_empty() {
        return Err("nothing-to-plug");
    }
    let supplied: BTreeSet<String> = args.keys().cloned().collect();
    for (n, _) in &socket.imports {
        args.entry(n.clone()).or_insert_with(|| Prov::Import(n.clone()));
    }
    let sinst = Prov::Inst(Box::new(Prov::Embedded(ssha)), args.clone());
    insts.push(sinst.clone());
    let mut v = View {
        imports: socket.imports.iter().filter(|(n, _)| !supplied.contains(n)).map(|(n, t)| (n.clone(), ty_kind(t))).collect(),
        exports: socket.exports.iter().map(|(n, t)| (n.clone(), ty_kind(t), Prov::Alias(Box::new(sinst.clone()), n.clone()))).collect(),
        instantiations: insts,
        embedded,
    };
    v.imports.sort();
    v.exports.sort();
    v.instantiations.sort();
    v.embedded.sort();
    Ok(v)
}

fn plug_pipeline(socket: &[u8], plugs: &[Vec<u8>]) -> LibRes {
    let r = catch(|| -> Result<Vec<u8>, (&'static str, String)> {
        let mut graph = wac_graph::CompositionGraph::new();
        let s = wac_types::Package::from_bytes("socket", None, socket.to_vec(), graph.types_mut()).map_err(|e| ("socket", format!("{e:#}")))?;
        let s = graph.register_package(s).map_err(|e| ("socket", format!("{e:#}")))?;
        let mut ids = Vec::new();
        for (i, p) in plugs.iter().enumerate() {
            let p = wac_types::Package::from_bytes(&format!("plug:p{i}"), None, p.clone(), graph.types_mut()).map_err(|e| ("plug-package", format!("{e:#}")))?;
            ids.push(graph.register_package(p).map_err(|e| ("plug-package", format!("{e:#}")))?);
        }
        wac_graph::plug(&mut graph, ids, s).map_err(|e| ("plug", format!("{e:#}")))?;
        graph.encode(EncodeOptions::default()).map_err(|e| ("encode", format!("{e:#}")))
    });
    match r {
        Ok(Ok(b)) => LibRes::Ok(b),
        Ok(Err((s, m))) => LibRes::Err(s, m),
        Err(p) => LibRes::Panic(p),
    }
}

fn view_without_unused_embeddings(mut v: View, expected: &View) -> View {
    // a registered but unused plug may or may not be embedded: not stated
    v.embedded.retain(|h| expected.embedded.contains(h));
    v
}

fn run_plug_group(g: &PlugGroup, root: &Path) -> GroupOut {
    let mut out = GroupOut::default();
    let l = plug_lib();
    let socket = &l.sockets.iter().find(|(id, _)| *id == g.socket).unwrap_or_else(|| mc_core::machinery_error("unknown socket")).1;
    let plugs: Vec<&(&str, &str, PkgSpec)> = g.plugs.iter().map(|id| l.plugs.iter().find(|(p, _, _)| p == id).unwrap_or_else(|| mc_core::machinery_error("unknown plug"))).collect();
    let _ = std::fs::remove_dir_all(root);
    put(&root.join("socket.wasm"), &socket.to_bytes());
    for (_, path, spec) in &plugs {
        put(&root.join(path), &spec.to_bytes());
    }
    let expected = plug_expected(socket, &plugs.iter().map(|(_, _, s)| s).collect::<Vec<_>>());
    let lr = plug_pipeline(&socket.to_bytes(), &plugs.iter().map(|(_, _, s)| s.to_bytes()).collect::<Vec<_>>());
    let lib_class = match &lr {
        LibRes::Ok(_) => "ok".to_string(),
        LibRes::Err(s, _) => format!("fail:{s}"),
        LibRes::Panic(_) => "panic".into(),
    };
    out.hist.push(("plug_library_outcome", format!("socket {} x {} plug(s) => {lib_class}", g.socket, g.plugs.len())));
    let lib_view = match &lr {
        LibRes::Ok(b) => Some(view(b).unwrap_or_else(|e| mc_core::machinery_error(&format!("E2 on the library's plug result: {e}")))),
        _ => None,
    };
    // the library against the statement
    match (&expected, &lib_view) {
        (Ok(e), Some(lv)) => {
            if view_without_unused_embeddings(lv.clone(), e) != *e {
                out.violations.push(("C19/plug/library-result-is-not-the-stated-plugging".into(), format!("plug {:?} into {}: library gives {}, the statement fixes {}", g.plugs, g.socket, json!(lv), json!(e))));
            }
        }
        (Err(_), None) => {}
        (Ok(_), None) => out.violations.push((format!("C19/plug/library-fails-where-plugging-is-possible/{lib_class}"), format!("plug {:?} into {}: {lr:?}", g.plugs, g.socket))),
        (Err(why), Some(_)) => out.violations.push((format!("C19/plug/library-succeeds-on-{why}"), format!("plug {:?} into {} must fail ({why})", g.plugs, g.socket))),
    }
    let mut payloads: BTreeMap<bool, Option<Vec<u8>>> = BTreeMap::new();
    let argv_of = |output: bool| {
        let mut argv = vec!["plug".to_string()];
        for (_, path, _) in &plugs {
            argv.push("--plug".into());
            argv.push(path.to_string());
        }
        if g.wat {
            argv.push(if g.short { "-t".into() } else { "--wat".into() });
        }
        if output {
            argv.push(if g.short { "-o".into() } else { "--output".into() });
            argv.push("plugged.out".into());
        }
        argv.push("socket.wasm".into());
        argv
    };
    for output in [false, true] {
        let argv = argv_of(output);
        let ofile = root.join("plugged.out");
        let _ = std::fs::remove_file(&ofile);
        let r = run_wac(root, &argv);
        out.runs += 1;
        let v = &mut out.violations;
        generic_checks("plug", &r, v, &argv);
        let file = std::fs::read(&ofile).ok();
        let _ = std::fs::remove_file(&ofile);
        let cli_ok = r.code == Some(0);
        out.hist.push(("cli_outcome", format!("plug => exit {}", r.code.map(|c| c.to_string()).unwrap_or("signal".into()))));
        match (&lr, cli_ok) {
            (LibRes::Ok(_), true) | (LibRes::Err(..), false) => {}
            (LibRes::Panic(p), _) => v.push((format!("C19/plug/library-panic/{}", panic_site(p)), p.clone())),
            (LibRes::Ok(_), false) => v.push(("C19/plug/exit-status/cli-fails-library-succeeds".into(), format!("`wac {}` exited with {:?} ({}), the library pipeline succeeds", argv.join(" "), r.code, first_line(&r.stderr)))),
            (LibRes::Err(stage, msg), true) => v.push((format!("C19/plug/exit-status/cli-succeeds-library-fails-at-{stage}"), format!("`wac {}` exited 0, the library fails: {msg}", argv.join(" ")))),
        }
        if !cli_ok {
            if file.is_some() {
                v.push(("C19/plug/output-file-written-on-failure".into(), format!("`wac {}` failed ({:?}) but wrote the output file", argv.join(" "), r.code)));
            }
            payloads.insert(output, None);
            continue;
        }
        let payload = if output {
            if !r.stdout.is_empty() {
                v.push(("C19/plug/stdout-written-despite-output-file".into(), format!("`wac {}` wrote {} bytes to stdout although -o was given", argv.join(" "), r.stdout.len())));
            }
            match file {
                Some(f) => f,
                None => {
                    v.push(("C19/plug/output-file-missing-on-success".into(), format!("`wac {}` exited 0 without writing the output file", argv.join(" "))));
                    payloads.insert(output, None);
                    continue;
                }
            }
        } else {
            r.stdout.clone()
        };
        if let (LibRes::Ok(bytes), Some(lv)) = (&lr, &lib_view) {
            if g.wat {
                // the text must assemble to the component the binary form denotes: compared
                // with the library's reading, order-free
                let before = v.len();
                check_text("plug", &payload, bytes, v, &argv, &mut out.counters);
                let _ = before;
            } else {
                match mc_core::libs::validate(&payload) {
                    Err(e) => v.push(("C19/plug/output-invalid".into(), format!("`wac {}` wrote an invalid component: {e}", argv.join(" ")))),
                    Ok(()) => {
                        let cv = view(&payload).unwrap_or_else(|e| mc_core::machinery_error(&format!("E2 on plug output: {e}")));
                        *out.counters.entry("plug_outputs_e2_compared".into()).or_default() += 1;
                        if cv != *lv {
                            v.push(("C19/plug/output-differs-from-library".into(), format!("`wac {}`: interface/wiring {} differ from the library's {}", argv.join(" "), json!(cv), json!(lv))));
                        }
                    }
                }
            }
        }
        payloads.insert(output, Some(payload));
    }
    if let (Some(Some(so)), Some(Some(fo))) = (payloads.get(&false), payloads.get(&true)) {
        *out.counters.entry("output_file_vs_stdout_compared".into()).or_default() += 1;
        // instantiation order of differently named plugs may vary from run to run (hash
        // order, C16): byte comparison only makes sense on the order-free reading
        let same = if so == fo {
            true
        } else if g.wat {
            let a = std::str::from_utf8(so).ok().and_then(|t| wat::parse_str(t).ok()).and_then(|b| view(&b).ok());
            let b = std::str::from_utf8(fo).ok().and_then(|t| wat::parse_str(t).ok()).and_then(|b| view(&b).ok());
            a.is_some() && a == b && so.len() == fo.len()
        } else {
            view(so).ok() == view(fo).ok() && so.len() == fo.len()
        };
        if !same {
            let mut with_nl = fo.clone();
            with_nl.push(b'\n');
            let fp = if *so == with_nl || so.len() == fo.len() + 1 { "C19/plug/output-file-differs-from-stdout/trailing-newline-only-on-stdout" } else { "C19/plug/output-file-differs-from-stdout" };
            out.violations.push((fp.into(), format!("`wac {}`: file has {} bytes, stdout of the same vector without -o has {} bytes", argv_of(true).join(" "), fo.len(), so.len())));
        } else if so != fo {
            *out.counters.entry("plug_outputs_equal_only_up_to_instantiation_order".into()).or_default() += 1;
        }
    }
    if lib_view.is_some() {
        out.nontrivial = 1;
    }
    out.sample = Some(json!({"command": "plug", "group": g, "argv_example": argv_of(true), "library": lib_class, "statement": match &expected { Ok(_) => "must plug".to_string(), Err(w) => format!("must fail ({w})") }}));
    let _ = std::fs::remove_dir_all(root);
    out
}

fn plug_groups(thorough: bool) -> Vec<PlugGroup> {
    let l = plug_lib();
    let ids: Vec<&str> = l.plugs.iter().map(|(id, _, _)| *id).collect();
    let mut lists: Vec<Vec<&str>> = Vec::new();
    fn rec<'a>(ids: &[&'a str], cur: &mut Vec<&'a str>, out: &mut Vec<Vec<&'a str>>) {
        if !cur.is_empty() {
            out.push(cur.clone());
        }
        if cur.len() == 3 {
            return;
        }
        for i in ids {
            if !cur.contains(i) {
                cur.push(i);
                rec(ids, cur, out);
                cur.pop();
            }
        }
    }
    rec(&ids, &mut Vec::new(), &mut lists);
    lists.sort_by_key(|l| l.len());
    if !thorough {
        // lengths 1 and 2 completely; of length 3 every list holding both same-stem plugs
        lists.retain(|l| l.len() < 3 || (l.contains(&"px") && l.contains(&"py")));
    }
    let mut v = Vec::new();
    let mut n = 0usize;
    for (s, _) in &l.sockets {
        for list in &lists {
            for wat in [false, true] {
                let shorts: &[bool] = if thorough { &[false, true] } else { &[n % 2 == 1] };
                for short in shorts {
                    v.push(PlugGroup { socket: s.to_string(), plugs: list.iter().map(|s| s.to_string()).collect(), wat, short: *short });
                }
                n += 1;
            }
        }
    }
    v
}

// ================================================================== targets

const WIT_ONE: &str = "package t:tw;\n\nworld w1 {\n  import x: func();\n  export out: func();\n}\n";
const WIT_TWO: &str = "package t:tw;\n\nworld w1 {\n  import x: func();\n  export out: func();\n}\n\nworld w2 {\n  export other: func();\n}\n";

#[derive(Clone, Debug, Serialize, Deserialize)]
struct TargetsCase {
    component: String,
    /// "one.wit" | "two.wit" | "witdir"
    wit: String,
    world: Option<String>,
}

fn targets_components() -> Vec<(&'static str, PkgSpec, bool)> {
    let f0 = Ty::func0();
    let f1 = Ty::func(&[("p", "u32")], None);
    // (id, component, conforms to w1)
    vec![
        ("conforming", PkgSpec::new("t:t", &[("x", f0.clone())], &[("out", f0.clone())]), true),
        ("conforming-no-import", PkgSpec::new("t:t", &[], &[("out", f0.clone())]), true),
        ("conforming-extra-export", PkgSpec::new("t:t", &[("x", f0.clone())], &[("out", f0.clone()), ("more", f0.clone())]), true),
        ("missing-export", PkgSpec::new("t:t", &[("x", f0.clone())], &[("unrelated", f0.clone())]), false),
        ("extra-import", PkgSpec::new("t:t", &[("x", f0.clone()), ("q", f0.clone())], &[("out", f0.clone())]), false),
        ("wrong-export-type", PkgSpec::new("t:t", &[("x", f0.clone())], &[("out", f1.clone())]), false),
        ("wrong-import-type", PkgSpec::new("t:t", &[("x", f1.clone())], &[("out", f0.clone())]), false),
    ]
}

/// Library pipeline of `wac targets` as `--help` documents it.
fn targets_pipeline(wit_path: &Path, world: Option<&str>, component: &[u8]) -> LibRes {
    let r = catch(|| -> Result<Vec<u8>, (&'static str, String)> {
        let mut resolve = wit_parser::Resolve::new();
        let pkg = if wit_path.is_dir() { resolve.push_dir(wit_path).map_err(|e| ("wit", format!("{e:#}")))?.0 } else { resolve.push_path(wit_path).map_err(|e| ("wit", format!("{e:#}")))?.0 };
        let bytes = wit_component::encode(&resolve, pkg).map_err(|e| ("wit", format!("{e:#}")))?;
        let mut types = wac_types::Types::default();
        let wit = wac_types::Package::from_bytes("wit", None, bytes, &mut types).map_err(|e| ("wit", format!("{e:#}")))?;
        let comp = wac_types::Package::from_bytes("component", None, component.to_vec(), &mut types).map_err(|e| ("component", format!("{e:#}")))?;
        let top = &types[wit.ty()];
        // "If the wit package only has one world definition, this does not need to be specified"
        let item = match world {
            Some(w) => top.exports.get(w).ok_or(("world-selection", format!("no world named {w}")))?,
            None if top.exports.len() == 1 => top.exports.values().next().unwrap(),
            None => return Err(("world-selection", format!("{} worlds and no --world", top.exports.len()))),
        };
        let wac_types::ItemKind::Type(wac_types::Type::World(wid)) = item else {
            return Err(("world-selection", "export is not a world".into()));
        };
        let Some(wac_types::ItemKind::Component(target)) = types[*wid].exports.values().next() else {
            return Err(("world-selection", "world type without component".into()));
        };
        wac_types::validate_target(&types, *target, comp.ty()).map_err(|e| ("conformance", format!("{e:#}")))?;
        Ok(Vec::new())
    });
    match r {
        Ok(Ok(b)) => LibRes::Ok(b),
        Ok(Err((s, m))) => LibRes::Err(s, m),
        Err(p) => LibRes::Panic(p),
    }
}

fn targets_cases() -> Vec<TargetsCase> {
    let mut v = Vec::new();
    for (c, _, _) in targets_components() {
        for wit in ["one.wit", "two.wit", "witdir"] {
            for world in [None, Some("w1"), Some("w2"), Some("nope")] {
                v.push(TargetsCase { component: c.to_string(), wit: wit.to_string(), world: world.map(String::from) });
            }
        }
    }
    v
}

fn run_targets_case(c: &TargetsCase, root: &Path) -> GroupOut {
    let mut out = GroupOut::default();
    let comps = targets_components();
    let (_, spec, conforms_w1) = comps.iter().find(|(id, _, _)| *id == c.component).unwrap_or_else(|| mc_core::machinery_error("unknown targets component"));
    let _ = std::fs::remove_dir_all(root);
    put(&root.join("comp.wasm"), &spec.to_bytes());
    put(&root.join("one.wit"), WIT_ONE.as_bytes());
    put(&root.join("two.wit"), WIT_TWO.as_bytes());
    put(&root.join("witdir/worlds.wit"), WIT_TWO.as_bytes());
    let worlds: usize = if c.wit == "one.wit" { 1 } else { 2 };
    // what --help promises
    let hand_ok = match c.world.as_deref() {
        Some("w1") => *conforms_w1,
        Some("w2") => false, // no component of the set exports `other`
        Some(_) => false,    // no such world
        None => worlds == 1 && *conforms_w1,
    };
    let hand_class = match (c.world.as_deref(), worlds) {
        (None, 2) => "world-omitted-ambiguous",
        (None, _) => "world-omitted-single",
        (Some("nope"), _) => "world-unknown",
        (Some("w2"), 1) => "world-unknown",
        (Some(_), _) => "world-given",
    };
    let hand_ok = hand_ok && !(c.world.as_deref() == Some("w2") && worlds == 1);
    let lr = targets_pipeline(&root.join(&c.wit), c.world.as_deref(), &spec.to_bytes());
    let lib_ok = matches!(lr, LibRes::Ok(_));
    out.hist.push(("targets_classes", format!("{hand_class} / {} => library {}", if *conforms_w1 { "conforming" } else { "non-conforming" }, match &lr { LibRes::Ok(_) => "ok".to_string(), LibRes::Err(s, _) => format!("fail:{s}"), LibRes::Panic(_) => "panic".into() })));
    if lib_ok != hand_ok {
        out.violations.push((
            format!("C19/targets/library-verdict/{hand_class}/expected-{}", if hand_ok { "success" } else { "failure" }),
            format!("component `{}` against {} world {:?}: the library pipeline says {lr:?}", c.component, c.wit, c.world),
        ));
    }
    let mut argv = vec!["targets".to_string(), "--wit".to_string(), c.wit.clone()];
    if let Some(w) = &c.world {
        argv.push("--world".into());
        argv.push(w.clone());
    }
    argv.push("comp.wasm".into());
    let r = run_wac(root, &argv);
    out.runs += 1;
    generic_checks("targets", &r, &mut out.violations, &argv);
    out.hist.push(("cli_outcome", format!("targets => exit {}", r.code.map(|c| c.to_string()).unwrap_or("signal".into()))));
    if let LibRes::Panic(p) = &lr {
        out.violations.push((format!("C19/targets/library-panic/{}", panic_site(p)), p.clone()));
    } else if (r.code == Some(0)) != lib_ok {
        out.violations.push((
            format!("C19/targets/exit-status/cli-{}-library-{}", if r.code == Some(0) { "succeeds" } else { "fails" }, if lib_ok { "succeeds" } else { "fails" }),
            format!("`wac {}` exited with {:?} ({}); library: {lr:?}", argv.join(" "), r.code, first_line(&r.stderr)),
        ));
    }
    if lib_ok {
        out.nontrivial = 1;
    }
    out.sample = Some(json!({"command": "targets", "case": c, "argv": argv, "exit": r.code, "stderr": first_line(&r.stderr)}));
    let _ = std::fs::remove_dir_all(root);
    out
}

// ================================================================== parse

fn parse_inputs() -> Vec<(String, String)> {
    let mut v: Vec<(String, String)> = compose_inputs().iter().map(|i| (i.id.to_string(), i.source.to_string())).collect();
    v.push(("types-and-worlds".into(), "package t:decl@0.1.0 targets t:w/w;\n\ninterface i {\n  record r { a: u32, b: string }\n  f: func(x: r) -> option<r>;\n}\n\nworld w {\n  import i;\n  export g: func();\n}\n\ntype t = list<u8>;\n".into()));
    v.push(("empty-file".into(), "".into()));
    v.push(("no-package-directive".into(), "let a = new t:a {};\n".into()));
    v.push(("unterminated-string".into(), "package t:comp;\nexport x as \"oops;\n".into()));
    v.push(("bad-version".into(), "package t:comp@1.x;\n".into()));
    v.push(("trailing-comment-multibyte".into(), "package t:comp;\n// é".into()));
    v
}

#[derive(Clone, Debug, Serialize, Deserialize)]
struct ParseCase {
    input: String,
    /// also run on a path that does not exist
    missing_file: bool,
}

fn run_parse_case(c: &ParseCase, root: &Path) -> GroupOut {
    let mut out = GroupOut::default();
    let inputs = parse_inputs();
    let (_, source) = inputs.iter().find(|(id, _)| *id == c.input).unwrap_or_else(|| mc_core::machinery_error("unknown parse input"));
    let _ = std::fs::remove_dir_all(root);
    put(&root.join("doc.wac"), source.as_bytes());
    let argv = vec!["parse".to_string(), if c.missing_file { "absent.wac".to_string() } else { "doc.wac".to_string() }];
    let lr: Result<String, String> = if c.missing_file {
        Err("file does not exist".into())
    } else {
        match catch(|| wac_parser::Document::parse(source).map(|d| serde_json::to_string_pretty(&d).unwrap() + "\n").map_err(|e| e.to_string())) {
            Ok(r) => r,
            Err(p) => {
                out.violations.push((format!("C19/parse/library-panic/{}", panic_site(&p)), p.clone()));
                Err(p)
            }
        }
    };
    let r = run_wac(root, &argv);
    out.runs += 1;
    generic_checks("parse", &r, &mut out.violations, &argv);
    out.hist.push(("cli_outcome", format!("parse => exit {}", r.code.map(|c| c.to_string()).unwrap_or("signal".into()))));
    out.hist.push(("parse_classes", format!("{} => library {}", if c.missing_file { "missing file" } else { c.input.as_str() }, if lr.is_ok() { "accepts" } else { "rejects" })));
    match (&lr, r.code == Some(0)) {
        (Ok(json), true) => {
            if r.stdout != json.as_bytes() {
                out.violations.push(("C19/parse/output-differs-from-library".into(), format!("`wac {}` printed {} bytes; the serialised library AST has {} bytes", argv.join(" "), r.stdout.len(), json.len())));
            }
            out.nontrivial = 1;
        }
        (Err(_), false) => {}
        (Ok(_), false) => out.violations.push(("C19/parse/exit-status/cli-fails-library-accepts".into(), format!("`wac {}` exited with {:?}: {}", argv.join(" "), r.code, first_line(&r.stderr)))),
        (Err(e), true) => out.violations.push(("C19/parse/exit-status/cli-succeeds-library-rejects".into(), format!("`wac {}` exited 0; the library rejects the document: {e}", argv.join(" ")))),
    }
    out.sample = Some(json!({"command": "parse", "case": c, "argv": argv, "exit": r.code, "stderr": first_line(&r.stderr)}));
    let _ = std::fs::remove_dir_all(root);
    out
}

// ================================================================== driver

#[derive(Clone, Debug, Serialize, Deserialize)]
#[serde(tag = "command", rename_all = "lowercase")]
enum Unit {
    Compose(ComposeGroup),
    Plug(PlugGroup),
    Targets(TargetsCase),
    Parse(ParseCase),
}

fn units(thorough: bool) -> Vec<Unit> {
    let mut v: Vec<Unit> = Vec::new();
    v.extend(compose_groups(thorough).into_iter().map(Unit::Compose));
    v.extend(plug_groups(thorough).into_iter().map(Unit::Plug));
    v.extend(targets_cases().into_iter().map(Unit::Targets));
    for (id, _) in parse_inputs() {
        v.push(Unit::Parse(ParseCase { input: id, missing_file: false }));
    }
    v.push(Unit::Parse(ParseCase { input: "wired".into(), missing_file: true }));
    v
}

fn run_unit(u: &Unit, root: &Path) -> GroupOut {
    match u {
        Unit::Compose(g) => run_compose_group(g, root),
        Unit::Plug(g) => run_plug_group(g, root),
        Unit::Targets(c) => run_targets_case(c, root),
        Unit::Parse(c) => run_parse_case(c, root),
    }
}

fn case_json(u: &Unit) -> Value {
    json!({"features": FEATURES, "unit": u})
}

fn half(thorough: bool) -> Partial {
    let bin = common::wac_bin();
    if !bin.is_file() {
        mc_core::machinery_error(&format!("the wac CLI ({FEATURES}) is missing at {} (built by /verif/pre-C19.sh; or set WAC_BIN)", bin.display()));
    }
    let _ = (lib(), plug_lib());
    let root = common::tmp_root("C19");
    let us = units(thorough);
    let outs: Vec<GroupOut> = us.par_iter().enumerate().map(|(i, u)| run_unit(u, &root.join(format!("u{i}")))).collect();
    let mut p = Partial::new();
    let mut sampled: BTreeMap<&'static str, usize> = BTreeMap::new();
    for (u, o) in us.iter().zip(outs) {
        let cmd = match u {
            Unit::Compose(_) => "compose",
            Unit::Plug(_) => "plug",
            Unit::Targets(_) => "targets",
            Unit::Parse(_) => "parse",
        };
        p.evaluations += o.runs;
        p.nontrivial += o.nontrivial;
        p.bump("units_per_command", cmd);
        for _ in 0..o.runs {
            p.bump("invocations_per_command", cmd);
        }
        for (h, k) in o.hist {
            p.bump(h, k);
        }
        for (k, n) in o.counters {
            *p.hist.entry("counters".into()).or_default().entry(k).or_default() += n;
        }
        let s = sampled.entry(cmd).or_default();
        if *s < 1 && o.nontrivial > 0 {
            if let Some(sm) = o.sample {
                p.samples.push(sm);
                *s += 1;
            }
        }
        for (fp, what) in o.violations {
            p.violation(fp, what, case_json(u));
        }
    }
    // README shows `wac targets my-component.wasm my-wit.wit`; --help documents --wit: recorded
    {
        let d = root.join("readme-form");
        put(&d.join("comp.wasm"), &targets_components()[0].1.to_bytes());
        put(&d.join("one.wit"), WIT_ONE.as_bytes());
        let r = run_wac(&d, &["targets".into(), "comp.wasm".into(), "one.wit".into()]);
        p.notes.insert("readme_targets_positional_form".into(), json!({"argv": "wac targets comp.wasm one.wit", "exit": r.code, "stderr": first_line(&r.stderr), "note": "README documents a positional WIT path, --help documents --wit <WIT_PATH>; the check follows --help, no verdict"}));
    }
    let _ = std::fs::remove_dir_all(&root);
    p
}

pub fn run(args: &[String]) {
    if args.first().map(|s| s.as_str()) == Some("--half") {
        let thorough = args.get(1).map(|s| s == "thorough").unwrap_or(false);
        let out = args.get(2).unwrap_or_else(|| mc_core::machinery_error("--half <tier> <out>"));
        half(thorough).write(out);
        return;
    }
    let mut ctx = Ctx::new("C19", "exploration", args);
    if let Some(case) = ctx.replay_case().cloned() {
        if case["features"].as_str() != Some(FEATURES) {
            common::delegate_replay("C19", args);
        }
        let unit: Unit = serde_json::from_value(case["unit"].clone()).unwrap_or_else(|e| mc_core::machinery_error(&format!("bad C19 case: {e}")));
        let root = common::tmp_root("C19-replay");
        let o = run_unit(&unit, &root.join("u0"));
        let _ = std::fs::remove_dir_all(&root);
        for (h, k) in &o.hist {
            println!("{h}: {k}");
        }
        for (fp, what) in o.violations {
            ctx.violation(fp, what, case.clone());
        }
        ctx.finish(Map::new(), vec![]);
    }
    let tier = ctx.tier();
    let thorough = tier == mc_core::Tier::Thorough;
    let mine = half(thorough);
    let mut parts = vec![mine];
    if thorough {
        let other = common::run_other_half("C19", tier.as_str());
        if HAS_WAT {
            parts.insert(0, other);
        } else {
            parts.push(other);
        }
    }
    let mut hist = BTreeMap::new();
    let mut cov = Map::new();
    let mut samples: Vec<Value> = Vec::new();
    let mut per_build = Map::new();
    let mut notes = Map::new();
    let (mut evals, mut nontrivial) = (0u64, 0u64);
    for part in &parts {
        evals += part.evaluations;
        nontrivial += part.nontrivial;
        common::merge_hist(&mut hist, &part.hist);
        if samples.is_empty() {
            samples.extend(part.samples.iter().cloned());
        }
        per_build.insert(part.features.clone(), json!({"invocations": part.evaluations, "units": part.hist.get("units_per_command").cloned().unwrap_or_default(), "violating_units": part.violations.iter().map(|v| v.count).sum::<usize>()}));
        for (k, v) in &part.notes {
            notes.insert(format!("{k} [{}]", part.features), v.clone());
        }
        ctx.merge(part.violations.iter().map(|v| mc_core::Violation { fingerprint: v.fingerprint.clone(), what: v.what.clone(), case: v.case.clone(), count: v.count }).collect());
    }
    let counters = hist.get("counters").cloned().unwrap_or_default();
    cov.insert("evaluations".into(), json!(evals));
    cov.insert("distinct_nontrivial".into(), json!(nontrivial));
    cov.insert("exhaustive".into(), json!(true));
    cov.insert("samples".into(), json!(samples));
    cov.insert("per_cli_build".into(), Value::Object(per_build));
    cov.insert("invocations_per_command".into(), json!(hist.get("invocations_per_command").cloned().unwrap_or_default()));
    cov.insert("units_per_command".into(), json!(hist.get("units_per_command").cloned().unwrap_or_default()));
    cov.insert("compose_inputs".into(), json!(compose_inputs().iter().map(|i| json!({"id": i.id, "intended_failure_stage": i.stage})).collect::<Vec<_>>()));
    cov.insert("library_outcome_by_input".into(), json!(hist.get("library_outcome_by_input").cloned().unwrap_or_default()));
    cov.insert("plug_library_outcome".into(), json!(hist.get("plug_library_outcome").cloned().unwrap_or_default()));
    cov.insert("targets_classes".into(), json!(hist.get("targets_classes").cloned().unwrap_or_default()));
    cov.insert("parse_classes".into(), json!(hist.get("parse_classes").cloned().unwrap_or_default()));
    cov.insert("cli_outcomes".into(), json!(hist.get("cli_outcome").cloned().unwrap_or_default()));
    cov.insert("distinct_outcomes".into(), json!(hist.get("cli_outcome").map(|m| m.len()).unwrap_or(0)));
    cov.insert("unspecified_cases".into(), json!(counters.get("unspecified_vectors").copied().unwrap_or(0)));
    cov.insert("comparison_counters".into(), json!(counters));
    cov.insert("no_validate_polarity_observed".into(), json!(counters.get("no_validate_polarity_observable_groups").copied().unwrap_or(0) > 0));
    cov.insert("notes".into(), Value::Object(notes));
    cov.insert(
        "rule".into(),
        json!("every invocation of the built `wac` binary in the product: compose = inputs (6 succeeding shapes incl. a versioned + WIT-directory dependency and a .wat dependency; failing at parse, discovery, unknown package, resolution, encoding (merge conflict), not-a-component; one validation-dependent) x {--deps-dir, default deps/, --dep k=v} x {--import-dependencies} x {-t} x {--no-validate} x {-o, stdout} (thorough: x {short, long spellings} x {path first, last} x both CLI builds); plug = 3 sockets x ordered lists of 1-3 distinct plug files (two share a file stem, two contest an import) x {-t} x {-o, stdout}; targets = 7 components x {one-world file, two-world file, WIT directory} x --world {omitted, w1, w2, unknown}; parse = accepted and rejected documents + a missing file. evaluations = process invocations; a unit (the vectors that must agree with each other) is non-trivial when the library pipeline succeeds on it; distinct_nontrivial counts those units"),
    );
    ctx.finish(
        cov,
        vec![
            "the in-process pipeline reproduces src/lib.rs + src/commands/*.rs with the registry feature off (the CLI is built with --no-default-features: no network)".into(),
            "README says `wac targets comp.wasm my.wit`, --help says `--wit <WIT_PATH>`: the check follows --help; the positional form is run once and recorded without verdict".into(),
            "plug: outputs are compared on the order-free E2 reading (interface + wiring); the instantiation order of differently named plugs is not fixed by the statement".into(),
            "--no-validate: its polarity is only observable through an encoder defect (validation-dependent input); otherwise the flag must change neither bytes nor exit status".into(),
            "quick runs the `wit` CLI build only; thorough also the `wit,wat` build, each compared with the in-process pipeline linked with the same resolver features".into(),
        ],
    );
}
