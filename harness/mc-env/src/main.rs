mod c18;
mod c19;
mod common;
mod lib_spec;

fn main() {
    let args: Vec<String> = std::env::args().skip(1).collect();
    let Some(prop) = args.first().cloned() else {
        mc_core::machinery_error("usage: mc-env <Cxx> quick|thorough|--replay <file>");
    };
    mc_core::quiet_panics();
    let rest = &args[1..];
    match prop.as_str() {
        "C18" => c18::run(rest),
        "C19" => c19::run(rest),
        "C20" => mc_core::machinery_error("C20 is not served by this build of mc-env (the registry check lives in another crate)"),
        _ => mc_core::machinery_error(&format!("mc-env does not serve {prop}")),
    }
}
