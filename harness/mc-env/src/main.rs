fn main() {}
