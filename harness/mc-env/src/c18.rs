//! C18 — file-system dependency lookup follows the documented layout and precedence.
//!
//! The full product key x {absent,file,dir}^3 (P, P.wasm, P.wat) x override x mode x resolver
//! build is materialised under the target directory and `FileSystemPackageResolver::resolve`
//! is compared with the decision table of DESIGN.md A.5 (written from README.md and the
//! property statement). Pairs of keys in one call check that keys are decided one by one.

use crate::common::{self, Partial, FEATURES, HAS_WAT};
use crate::lib_spec::{PkgSpec, Ty};
use indexmap::IndexMap;
use mc_core::{catch, panic_site, Ctx};
use rayon::prelude::*;
use serde::{Deserialize, Serialize};
use serde_json::{json, Map, Value};
use std::collections::{BTreeMap, HashMap};
use std::path::{Path, PathBuf};
use std::sync::OnceLock;
use wac_resolver::FileSystemPackageResolver;
use wac_types::BorrowedPackageKey;

#[derive(Clone, Copy, PartialEq, Eq, Debug, Serialize, Deserialize)]
#[serde(rename_all = "lowercase")]
enum St {
    Absent,
    File,
    Dir,
}
const STATES: [St; 3] = [St::Absent, St::File, St::Dir];

#[derive(Clone, Copy, PartialEq, Eq, Debug, Serialize, Deserialize)]
#[serde(rename_all = "kebab-case")]
enum Ov {
    None,
    Wasm,
    Wat,
    Wit,
    Dangling,
    /// the override path is an existing directory (holding a WIT package): sources silent
    Dir,
    /// an override registered for a different package name
    OtherName,
}
const OVERRIDES: [Ov; 7] = [Ov::None, Ov::Wasm, Ov::Wat, Ov::Wit, Ov::Dangling, Ov::Dir, Ov::OtherName];

#[derive(Clone, Debug, Serialize, Deserialize)]
struct KeyLayout {
    name: String,
    version: Option<String>,
    #[serde(rename = "P")]
    p: St,
    #[serde(rename = "P.wasm")]
    p_wasm: St,
    #[serde(rename = "P.wat")]
    p_wat: St,
    #[serde(rename = "override")]
    ov: Ov,
}

#[derive(Clone, Debug, Serialize, Deserialize)]
struct Case {
    features: String,
    error_on_unknown: bool,
    keys: Vec<KeyLayout>,
}

// ------------------------------------------------------------------ distinct contents

const ROLES: [&str; 13] = [
    "P-file",
    "P.wasm-file",
    "P.wat-file",
    "P-dir",
    "P.wasm-dir",
    "P.wat-dir",
    "decoy.wasm",
    "decoy.wat",
    "override-wasm",
    "override-wat",
    "override-wit",
    "override-dir",
    "other-override",
];

fn is_text_role(role: &str) -> bool {
    matches!(role, "P.wat-file" | "decoy.wat" | "override-wat")
}
fn is_wit_role(role: &str) -> bool {
    matches!(role, "P-dir" | "P.wasm-dir" | "P.wat-dir" | "override-wit" | "override-dir")
}

struct Content {
    /// what is written to the file (component bytes, WAT text or WIT text)
    file: Vec<u8>,
    /// for component / WAT roles: the bytes the resolver must return
    component: Option<Vec<u8>>,
}

fn marker(k: usize, role: &str) -> String {
    format!("k{k}-{}", role.to_lowercase().replace('.', "-"))
}

fn contents() -> &'static BTreeMap<(usize, &'static str), Content> {
    static C: OnceLock<BTreeMap<(usize, &'static str), Content>> = OnceLock::new();
    C.get_or_init(|| {
        let mut m = BTreeMap::new();
        for k in 0..2usize {
            for role in ROLES {
                let mk = marker(k, role);
                let c = if is_wit_role(role) {
                    let text = format!("package t:{mk};\n\ninterface marker {{\n  {mk}: func();\n}}\n\nworld w {{\n  import marker;\n}}\n");
                    Content { file: text.into_bytes(), component: None }
                } else {
                    let spec = PkgSpec::new("c:c", &[], &[(mk.as_str(), Ty::func0())]);
                    let bytes = spec.to_bytes();
                    if is_text_role(role) {
                        Content { file: spec.to_wat().into_bytes(), component: Some(bytes) }
                    } else {
                        Content { file: bytes.clone(), component: Some(bytes) }
                    }
                };
                m.insert((k, role), c);
            }
        }
        m
    })
}

// ------------------------------------------------------------------ materialisation

struct Mat {
    deps: PathBuf,
    overrides: HashMap<String, PathBuf>,
    /// (key index, role) -> path of what was materialised
    paths: BTreeMap<(usize, &'static str), PathBuf>,
}

fn append_ext(p: &Path, ext: &str) -> PathBuf {
    PathBuf::from(format!("{}.{ext}", p.display()))
}

fn put_file(path: &Path, bytes: &[u8]) -> Result<(), String> {
    if let Some(parent) = path.parent() {
        std::fs::create_dir_all(parent).map_err(|e| format!("{}: {e}", parent.display()))?;
    }
    if path.symlink_metadata().is_ok() {
        return Err(format!("{} already exists", path.display()));
    }
    std::fs::write(path, bytes).map_err(|e| format!("{}: {e}", path.display()))
}

fn put_wit_dir(path: &Path, text: &[u8]) -> Result<(), String> {
    if path.is_file() {
        return Err(format!("{} already exists as a file", path.display()));
    }
    std::fs::create_dir_all(path).map_err(|e| format!("{}: {e}", path.display()))?;
    put_file(&path.join("pkg.wit"), text)
}

fn key_path(deps: &Path, k: &KeyLayout) -> PathBuf {
    let mut p = deps.to_path_buf();
    for seg in k.name.split(':') {
        p.push(seg);
    }
    if let Some(v) = &k.version {
        p.push(v);
    }
    p
}

/// Err = the layouts of the keys cannot coexist in one tree (unrealisable combination).
fn materialise(case: &Case, root: &Path) -> Result<Mat, String> {
    let c = contents();
    let deps = root.join("deps");
    let ovdir = root.join("ov");
    std::fs::create_dir_all(&deps).map_err(|e| e.to_string())?;
    std::fs::create_dir_all(&ovdir).map_err(|e| e.to_string())?;
    let mut m = Mat { deps: deps.clone(), overrides: HashMap::new(), paths: BTreeMap::new() };
    // directories first so that a later file cannot be blocked by ordering alone
    for pass in 0..2 {
        for (k, key) in case.keys.iter().enumerate() {
            let p = key_path(&deps, key);
            let spots: [(&'static str, &'static str, St, PathBuf); 3] =
                [("P-file", "P-dir", key.p, p.clone()), ("P.wasm-file", "P.wasm-dir", key.p_wasm, append_ext(&p, "wasm")), ("P.wat-file", "P.wat-dir", key.p_wat, append_ext(&p, "wat"))];
            for (frole, drole, st, path) in spots {
                match (st, pass) {
                    (St::Dir, 0) => {
                        put_wit_dir(&path, &c[&(k, drole)].file)?;
                        m.paths.insert((k, drole), path);
                    }
                    (St::File, 1) => {
                        put_file(&path, &c[&(k, frole)].file)?;
                        m.paths.insert((k, frole), path);
                    }
                    _ => {}
                }
            }
            if pass == 1 {
                if key.version.is_some() {
                    // what `Path::set_extension` would name instead of appending
                    for (role, ext) in [("decoy.wasm", "wasm"), ("decoy.wat", "wat")] {
                        let d = p.with_extension(ext);
                        if d.symlink_metadata().is_err() {
                            put_file(&d, &c[&(k, role)].file)?;
                            m.paths.insert((k, role), d);
                        }
                    }
                }
                let (role, file, exists): (&'static str, String, bool) = match key.ov {
                    Ov::None => continue,
                    Ov::Wasm => ("override-wasm", format!("k{k}.wasm"), true),
                    Ov::Wat => ("override-wat", format!("k{k}.wat"), true),
                    Ov::Wit => ("override-wit", format!("k{k}.wit"), true),
                    Ov::Dangling => ("override-wasm", format!("k{k}-missing.wasm"), false),
                    Ov::Dir => ("override-dir", format!("k{k}-dir"), true),
                    Ov::OtherName => ("other-override", format!("k{k}-other.wasm"), true),
                };
                let path = ovdir.join(file);
                if exists {
                    if role == "override-dir" {
                        put_wit_dir(&path, &c[&(k, role)].file)?;
                    } else {
                        put_file(&path, &c[&(k, role)].file)?;
                    }
                    m.paths.insert((k, role), path.clone());
                }
                let name = if key.ov == Ov::OtherName { format!("other:pkg{k}") } else { key.name.clone() };
                if let Some(prev) = m.overrides.insert(name, path) {
                    return Err(format!("two overrides for one name ({})", prev.display()));
                }
            }
        }
    }
    Ok(m)
}

// ------------------------------------------------------------------ the decision table (A.5)

#[derive(Clone, Debug, PartialEq, Eq)]
enum Exp {
    Load(&'static str),
    /// override given for an unversioned key but nothing exists there [stmt "must exist"]
    OverrideError,
    Missing,
    Unspecified(&'static str),
}

fn decide(k: &KeyLayout, wat: bool) -> Exp {
    if k.version.is_none() {
        // [stmt] "an explicit --dep name=path override applies to unversioned references only
        // and must exist"
        match k.ov {
            Ov::Wasm => return Exp::Load("override-wasm"),
            Ov::Wat => {
                // [readme] "By default, dependencies must be binary-encoded WebAssembly
                // components; to enable support for WAT files, use the `wat` build-time
                // feature": what a text file does without the feature is not said
                return if wat { Exp::Load("override-wat") } else { Exp::Unspecified("override-is-a-wat-file-without-text-support") };
            }
            Ov::Wit => return Exp::Load("override-wit"), // [readme] "may also be a WIT file"
            Ov::Dangling => return Exp::OverrideError,
            Ov::Dir => return Exp::Unspecified("override-is-a-directory"),
            Ov::None | Ov::OtherName => {}
        }
    }
    // [stmt] "a directory there is read as a WIT package"
    if k.p == St::Dir {
        return Exp::Load("P-dir");
    }
    // [stmt] "a `.wat` file is preferred over `.wasm` when text support is enabled, otherwise
    // the `.wasm` file is used" — files; a directory named P.wat / P.wasm is neither, and P
    // itself as a plain file is not a documented form (the extension is appended)
    if wat && k.p_wat == St::File {
        return Exp::Load("P.wat-file");
    }
    if k.p_wasm == St::File {
        return Exp::Load("P.wasm-file");
    }
    Exp::Missing
}

fn exp_class(e: &Exp) -> String {
    match e {
        Exp::Load(r) => (*r).to_string(),
        Exp::OverrideError => "override-error".into(),
        Exp::Missing => "missing".into(),
        Exp::Unspecified(c) => format!("unspecified:{c}"),
    }
}

/// Reference bytes of what was materialised for (k, role).
fn reference_bytes(m: &Mat, k: usize, role: &'static str) -> Result<Vec<u8>, String> {
    let c = &contents()[&(k, role)];
    if let Some(b) = &c.component {
        return Ok(b.clone());
    }
    let path = m.paths.get(&(k, role)).ok_or_else(|| format!("role {role} of key {k} was not materialised"))?;
    let mut resolve = wit_parser::Resolve::new();
    let pkg = if path.is_dir() {
        resolve.push_dir(path).map_err(|e| format!("reference WIT toolchain rejects {}: {e:#}", path.display()))?.0
    } else {
        resolve.push_file(path).map_err(|e| format!("reference WIT toolchain rejects {}: {e:#}", path.display()))?
    };
    wit_component::encode(&resolve, pkg).map_err(|e| format!("reference WIT encoding failed: {e:#}"))
}

fn label_bytes(m: &Mat, k: usize, bytes: &[u8]) -> String {
    for (kk, role) in m.paths.keys() {
        if let Ok(r) = reference_bytes(m, *kk, role) {
            if r == bytes {
                return if *kk == k { format!("loaded:{role}") } else { format!("loaded:{role}-of-other-key") };
            }
        }
        if is_text_role(role) && contents()[&(*kk, *role)].file == bytes {
            return format!("loaded-raw-text:{role}");
        }
    }
    "loaded:unknown-bytes".into()
}

// ------------------------------------------------------------------ one case

#[derive(Default)]
struct Outcome {
    violations: Vec<(String, String)>,
    unspecified: Option<String>,
    unrealisable: bool,
    expected: String,
    observed: String,
    nontrivial: bool,
}

fn named_fingerprint(exp: &str, obs: &str) -> String {
    match (exp, obs) {
        ("P.wasm-file", "loaded:P.wat-dir") => "C18/wat-directory-shadows-wasm-file".into(),
        ("missing", "loaded:P.wat-dir") => "C18/wat-directory-read-as-wit-package".into(),
        ("missing", "loaded:P.wasm-dir") | ("P.wat-file", "loaded:P.wasm-dir") => "C18/wasm-directory-read-as-wit-package".into(),
        _ => format!("C18/expected-{exp}/got-{obs}"),
    }
}

fn describe(case: &Case) -> String {
    let keys: Vec<String> = case
        .keys
        .iter()
        .map(|k| {
            format!(
                "{}{} [P={:?} P.wasm={:?} P.wat={:?} override={:?}]",
                k.name,
                k.version.as_ref().map(|v| format!("@{v}")).unwrap_or_default(),
                k.p,
                k.p_wasm,
                k.p_wat,
                k.ov
            )
        })
        .collect();
    format!("resolver build `{}`, error_on_unknown={}, keys: {}", case.features, case.error_on_unknown, keys.join(" ; "))
}

fn run_case(case: &Case, root: &Path) -> Outcome {
    let mut out = Outcome::default();
    let _ = std::fs::remove_dir_all(root);
    let m = match materialise(case, root) {
        Ok(m) => m,
        Err(e) => {
            out.unrealisable = true;
            out.expected = format!("unrealisable: {e}");
            let _ = std::fs::remove_dir_all(root);
            return out;
        }
    };
    out.nontrivial = case.keys.iter().any(|k| k.p != St::Absent || k.p_wasm != St::Absent || k.p_wat != St::Absent || k.ov != Ov::None);
    // The decision is taken on the tree as it is: with two keys, the tree of one key can put a
    // directory at P of the other (`ns:name` vs `ns:name:sub` / `ns:name@1.2.3`). Such a
    // container directory "is read as a WIT package" [stmt], but what reading a directory
    // without WIT files yields is not stated: no verdict.
    let stat = |p: &Path| {
        if p.is_dir() {
            St::Dir
        } else if p.is_file() {
            St::File
        } else {
            St::Absent
        }
    };
    let exps: Vec<Exp> = case
        .keys
        .iter()
        .map(|k| {
            let p = key_path(&m.deps, k);
            let eff = KeyLayout { p: stat(&p), p_wasm: stat(&append_ext(&p, "wasm")), p_wat: stat(&append_ext(&p, "wat")), ..k.clone() };
            if eff.p_wasm != k.p_wasm || eff.p_wat != k.p_wat || (eff.p != k.p && !(eff.p == St::Dir && k.p == St::Absent)) {
                mc_core::machinery_error(&format!("materialised tree differs from the layout: {}", describe(case)));
            }
            match decide(&eff, HAS_WAT) {
                Exp::Load("P-dir") if k.p != St::Dir => Exp::Unspecified("P-is-a-directory-holding-other-packages-but-no-wit"),
                e => e,
            }
        })
        .collect();
    out.expected = exps.iter().map(exp_class).collect::<Vec<_>>().join(" + ");
    if let Some(Exp::Unspecified(c)) = exps.iter().find(|e| matches!(e, Exp::Unspecified(_))) {
        out.unspecified = Some((*c).to_string());
    }

    // ---- the real resolver
    let versions: Vec<Option<semver::Version>> =
        case.keys.iter().map(|k| k.version.as_ref().map(|v| semver::Version::parse(v).unwrap_or_else(|e| mc_core::machinery_error(&format!("bad version {v}: {e}"))))).collect();
    let mut keys: IndexMap<BorrowedPackageKey<'_>, miette::SourceSpan> = IndexMap::new();
    for (i, k) in case.keys.iter().enumerate() {
        keys.insert(BorrowedPackageKey::from_name_and_version(&k.name, versions[i].as_ref()), (10 * i, 3).into());
    }
    if keys.len() != case.keys.len() {
        mc_core::machinery_error("duplicate key in a C18 case");
    }
    let resolver = FileSystemPackageResolver::new(m.deps.clone(), m.overrides.clone(), case.error_on_unknown);
    let res = catch(|| resolver.resolve(&keys));
    let res = match res {
        Err(p) => {
            out.observed = format!("panic:{}", panic_site(&p));
            out.violations.push((format!("C18/panic/{}", panic_site(&p)), format!("resolve panicked: {p}; {}", describe(case))));
            let _ = std::fs::remove_dir_all(root);
            return out;
        }
        Ok(r) => r,
    };
    // observed classes per key, or the error
    let mut obs_keys: Vec<String> = Vec::new();
    let mut obs_err: Option<(String, String, String)> = None;
    match &res {
        Ok(map) => {
            for (i, (key, _)) in keys.iter().enumerate() {
                obs_keys.push(match map.get(key) {
                    None => "skipped".to_string(),
                    Some(bytes) => match &exps[i] {
                        Exp::Load(role) if reference_bytes(&m, i, role).map(|r| r == *bytes).unwrap_or(false) => format!("loaded:{role}"),
                        _ => label_bytes(&m, i, bytes),
                    },
                });
            }
            if map.len() != map.keys().filter(|k| keys.contains_key(*k)).count() {
                out.violations.push(("C18/result-has-unrequested-key".into(), format!("the result holds a key that was not requested; {}", describe(case))));
            }
            out.observed = obs_keys.join(" + ");
        }
        Err(e) => {
            let (variant, name) = match e {
                wac_resolver::Error::UnknownPackage { name, .. } => ("UnknownPackage", name.clone()),
                wac_resolver::Error::PackageResolutionFailure { name, .. } => ("PackageResolutionFailure", name.clone()),
                wac_resolver::Error::InvalidPackageName { name, .. } => ("InvalidPackageName", name.clone()),
                _ => ("other-error", String::new()),
            };
            let mut msg = e.to_string();
            let mut src = std::error::Error::source(e);
            while let Some(x) = src {
                msg.push_str(&format!(": {x}"));
                src = x.source();
            }
            out.observed = format!("err:{variant}({name})");
            obs_err = Some((variant.to_string(), name, msg));
        }
    }
    if out.unspecified.is_some() {
        let _ = std::fs::remove_dir_all(root);
        return out;
    }

    // ---- compare
    // keys whose decision is an error under this mode
    let erring: Vec<(usize, &'static str)> = exps
        .iter()
        .enumerate()
        .filter_map(|(i, e)| match e {
            Exp::OverrideError => Some((i, "PackageResolutionFailure")),
            Exp::Missing if case.error_on_unknown => Some((i, "UnknownPackage")),
            _ => None,
        })
        .collect();
    let mode = |e: &Exp| match e {
        Exp::Missing => format!("missing ({})", if case.error_on_unknown { "error_on_unknown: expect UnknownPackage" } else { "lenient: expect the key to be skipped" }),
        other => exp_class(other),
    };
    match (&obs_err, erring.is_empty()) {
        (None, true) => {
            for (i, e) in exps.iter().enumerate() {
                let want = match e {
                    Exp::Load(r) => format!("loaded:{r}"),
                    Exp::Missing => "skipped".to_string(),
                    _ => unreachable!(),
                };
                if obs_keys[i] != want {
                    out.violations.push((
                        named_fingerprint(&exp_class(e), &obs_keys[i]),
                        format!("key #{i}: the decision table says {}; the resolver returned `{}`; {}", mode(e), obs_keys[i], describe(case)),
                    ));
                    break;
                }
            }
        }
        (None, false) => {
            let (i, v) = erring[0];
            out.violations.push((
                named_fingerprint(&exp_class(&exps[i]), &obs_keys[i]),
                format!("key #{i}: the decision table says {} (Err {v}); the resolver returned Ok with `{}`; {}", mode(&exps[i]), obs_keys.join(" + "), describe(case)),
            ));
        }
        (Some((variant, name, msg)), false) => {
            // any of the erring keys may be the one reported (order among errors is not stated)
            if !erring.iter().any(|(i, v)| v == variant && case.keys[*i].name == *name) {
                let (i, v) = erring[0];
                out.violations.push((
                    format!("C18/expected-{}/got-err:{variant}", exp_class(&exps[i])),
                    format!("key #{i}: expected Err {v} naming `{}`; got {variant} naming `{name}` ({msg}); {}", case.keys[i].name, describe(case)),
                ));
            }
        }
        (Some((variant, name, msg)), true) => {
            let i = case.keys.iter().position(|k| k.name == *name).unwrap_or(0);
            let fp = match (exp_class(&exps[i]).as_str(), variant.as_str(), HAS_WAT && case.keys[i].p_wat == St::Dir) {
                ("P.wasm-file", "PackageResolutionFailure", true) => "C18/wat-directory-shadows-wasm-file".to_string(),
                (e, v, _) => format!("C18/expected-{e}/got-err:{v}"),
            };
            out.violations.push((fp, format!("key #{i}: the decision table says {}; the resolver failed with {variant} naming `{name}` ({msg}); {}", mode(&exps[i]), describe(case))));
        }
    }
    let _ = std::fs::remove_dir_all(root);
    out
}


// ------------------------------------------------------------------ WIT directories with dependencies
//
// Keys are decided one by one: what a key resolves to in a call with several keys is what it
// resolves to alone. The layouts of the main enumeration hold independent packages; here the
// WIT directory of one key depends on (and optionally vendors a copy of) the package of
// another key, so any state shared between the keys of one call shows.

const WD_KEYS: [&str; 3] = ["ns:types", "ns:app", "ns:other"];

fn wd_materialise(root: &Path, vendored: bool) -> PathBuf {
    let deps = root.join("deps");
    let w = |rel: &str, text: &str| {
        let p = deps.join(rel);
        std::fs::create_dir_all(p.parent().unwrap()).and_then(|_| std::fs::write(&p, text)).unwrap_or_else(|e| mc_core::machinery_error(&format!("cannot write {}: {e}", p.display())));
    };
    w("ns/types/types.wit", "package ns:types;\ninterface t { type id = u32; }\n");
    w("ns/app/app.wit", "package ns:app;\nworld w { import ns:types/t; }\n");
    if vendored {
        // the vendored copy differs from the package served under its own key
        w("ns/app/deps/types/types.wit", "package ns:types;\ninterface t { type id = u64; }\n");
    }
    w("ns/other/other.wit", "package ns:other;\ninterface o { f: func(); }\n");
    deps
}

fn wd_reference(deps: &Path, key: &str) -> Result<Vec<u8>, String> {
    let mut dir = deps.to_path_buf();
    for seg in key.split(':') {
        dir.push(seg);
    }
    let mut resolve = wit_parser::Resolve::new();
    let (pkg, _) = resolve.push_dir(&dir).map_err(|e| format!("{e:#}"))?;
    wit_component::encode(&resolve, pkg).map_err(|e| format!("{e:#}"))
}

fn wd_run(root: &Path, vendored: bool, list: &[usize], error_on_unknown: bool) -> Vec<(String, String)> {
    let _ = std::fs::remove_dir_all(root);
    let deps = wd_materialise(root, vendored);
    let mut v = Vec::new();
    // expected: key by key, each on its own
    let mut expected: Result<Vec<(usize, Vec<u8>)>, String> = Ok(Vec::new());
    for k in list {
        match wd_reference(&deps, WD_KEYS[*k]) {
            Ok(b) => {
                if let Ok(m) = expected.as_mut() {
                    m.push((*k, b));
                }
            }
            Err(_) => {
                if expected.is_ok() {
                    expected = Err(WD_KEYS[*k].to_string());
                }
            }
        }
    }
    let mut keys: IndexMap<BorrowedPackageKey<'_>, miette::SourceSpan> = IndexMap::new();
    for (i, k) in list.iter().enumerate() {
        keys.insert(BorrowedPackageKey::from_name_and_version(WD_KEYS[*k], None), (10 * i, 3).into());
    }
    let resolver = FileSystemPackageResolver::new(deps.clone(), HashMap::new(), error_on_unknown);
    let names: Vec<&str> = list.iter().map(|k| WD_KEYS[*k]).collect();
    let ctxt = format!("keys {names:?} in one call, app {} its dependency, error_on_unknown={error_on_unknown}, resolver build `{FEATURES}`", if vendored { "vendors" } else { "does not vendor" });
    match (catch(|| resolver.resolve(&keys)), expected) {
        (Err(p), _) => v.push((format!("C18/wit-dependencies/panic/{}", panic_site(&p)), format!("resolve panicked: {p}; {ctxt}"))),
        (Ok(Ok(map)), Ok(exp)) => {
            for (k, want) in exp {
                match map.get(&BorrowedPackageKey::from_name_and_version(WD_KEYS[k], None)) {
                    None => v.push(("C18/wit-dependencies/key-missing-from-result".into(), format!("`{}` is not in the result; {ctxt}", WD_KEYS[k]))),
                    Some(b) if *b != want => v.push((
                        "C18/wit-dependencies/bytes-differ-from-the-key-resolved-alone".into(),
                        format!("`{}` resolves to other bytes than its directory alone encodes to; {ctxt}", WD_KEYS[k]),
                    )),
                    Some(_) => {}
                }
            }
        }
        (Ok(Ok(_)), Err(name)) => v.push((
            "C18/wit-dependencies/invalid-directory-accepted".into(),
            format!("the directory of `{name}` is not a valid WIT package on its own (missing dependency) but the call succeeded; {ctxt}"),
        )),
        (Ok(Err(e)), Ok(_)) => v.push((
            "C18/wit-dependencies/valid-directories-rejected".into(),
            format!("every key's directory is a valid WIT package on its own but the call failed: {e}: {}; {ctxt}", std::error::Error::source(&e).map(|s| format!("{s:#}")).unwrap_or_default()),
        )),
        (Ok(Err(e)), Err(name)) => {
            let got = match &e {
                wac_resolver::Error::PackageResolutionFailure { name, .. } => name.clone(),
                other => format!("{other}"),
            };
            if got != name {
                v.push(("C18/wit-dependencies/wrong-key-reported".into(), format!("expected PackageResolutionFailure for `{name}`, got {e}; {ctxt}")));
            }
        }
    }
    let _ = std::fs::remove_dir_all(root);
    v
}

fn wd_cases() -> Vec<(bool, Vec<usize>, bool)> {
    let mut lists: Vec<Vec<usize>> = Vec::new();
    for a in 0..3 {
        lists.push(vec![a]);
        for b in 0..3 {
            if b != a {
                lists.push(vec![a, b]);
                for c in 0..3 {
                    if c != a && c != b {
                        lists.push(vec![a, b, c]);
                    }
                }
            }
        }
    }
    let mut v = Vec::new();
    for vendored in [true, false] {
        for l in &lists {
            for eou in [false, true] {
                v.push((vendored, l.clone(), eou));
            }
        }
    }
    v
}

// ------------------------------------------------------------------ enumeration

const VERSIONS: [Option<&str>; 4] = [None, Some("1.2.3"), Some("1.2.3-rc.1"), Some("0.1.0+b.7")];

fn key_universe(thorough: bool) -> Vec<(String, Option<String>)> {
    let mut v = Vec::new();
    if thorough {
        for name in ["ns:name", "ns:name:sub", "solo"] {
            for ver in VERSIONS {
                v.push((name.to_string(), ver.map(String::from)));
            }
        }
    } else {
        v.push(("ns:name".to_string(), None));
        v.push(("ns:name:sub".to_string(), None));
        v.push(("ns:name".to_string(), Some("1.2.3".to_string())));
    }
    v
}

fn enumerate(thorough: bool) -> Vec<Case> {
    let keys = key_universe(thorough);
    let mut cases = Vec::new();
    // singles: the full product
    for (name, version) in &keys {
        for p in STATES {
            for p_wasm in STATES {
                for p_wat in STATES {
                    for ov in OVERRIDES {
                        for error_on_unknown in [false, true] {
                            cases.push(Case {
                                features: FEATURES.to_string(),
                                error_on_unknown,
                                keys: vec![KeyLayout { name: name.clone(), version: version.clone(), p, p_wasm, p_wat, ov }],
                            });
                        }
                    }
                }
            }
        }
    }
    // ordered pairs of distinct keys over representative layouts: keys are decided one by one
    let reps: [(St, St, St, Ov); 6] = [
        (St::Absent, St::Absent, St::Absent, Ov::None),
        (St::Absent, St::File, St::Absent, Ov::None),
        (St::Absent, St::File, St::File, Ov::None),
        (St::Dir, St::Absent, St::Absent, Ov::None),
        (St::Absent, St::Absent, St::Absent, Ov::Wasm),
        (St::Absent, St::File, St::Absent, Ov::Dangling),
    ];
    for (i, (n1, v1)) in keys.iter().enumerate() {
        for (j, (n2, v2)) in keys.iter().enumerate() {
            if i == j {
                continue;
            }
            for a in reps {
                for b in reps {
                    // an override is per name: pairs sharing a name carry none (singles cover override x version)
                    if n1 == n2 && (a.3 != Ov::None || b.3 != Ov::None) {
                        continue;
                    }
                    for error_on_unknown in [false, true] {
                        cases.push(Case {
                            features: FEATURES.to_string(),
                            error_on_unknown,
                            keys: vec![
                                KeyLayout { name: n1.clone(), version: v1.clone(), p: a.0, p_wasm: a.1, p_wat: a.2, ov: a.3 },
                                KeyLayout { name: n2.clone(), version: v2.clone(), p: b.0, p_wasm: b.1, p_wat: b.2, ov: b.3 },
                            ],
                        });
                    }
                }
            }
        }
    }
    cases
}

fn half(thorough: bool) -> Partial {
    let _ = contents();
    let root = common::tmp_root("C18");
    let cases = enumerate(thorough);
    let outs: Vec<Outcome> = cases.par_iter().enumerate().map(|(i, c)| run_case(c, &root.join(format!("c{i}")))).collect();
    let mut p = Partial::new();
    for (case, o) in cases.iter().zip(outs) {
        if o.unrealisable {
            if case.keys.len() == 1 {
                mc_core::machinery_error(&format!("a single-key layout could not be materialised: {} ({})", o.expected, describe(case)));
            }
            p.unrealisable += 1;
            continue;
        }
        p.evaluations += 1;
        p.bump("keys_per_call", case.keys.len().to_string());
        for k in &case.keys {
            p.bump("per_key", format!("{}{}", k.name, k.version.as_ref().map(|v| format!("@{v}")).unwrap_or_default()));
        }
        if o.nontrivial {
            p.nontrivial += 1;
        }
        if let Some(c) = &o.unspecified {
            p.bump("unspecified", c.clone());
        } else {
            p.bump("decision_rows", format!("{} => {}", o.expected, o.observed));
        }
        p.bump("observed", o.observed.split('(').next().unwrap_or("").to_string());
        let n = p.evaluations;
        if o.unspecified.is_none() && o.nontrivial && (n % 97 == 5) {
            p.sample(3, || json!({"case": case, "expected": o.expected, "observed": o.observed}));
        }
        for (fp, what) in o.violations {
            p.violation(fp, what, serde_json::to_value(case).unwrap());
        }
    }
    // WIT directories that depend on each other, all ordered key lists
    let wd = wd_cases();
    let wd_out: Vec<Vec<(String, String)>> = wd.par_iter().enumerate().map(|(i, (ven, l, eou))| wd_run(&root.join(format!("wd{i}")), *ven, l, *eou)).collect();
    for ((ven, l, eou), vs) in wd.iter().zip(wd_out) {
        p.evaluations += 1;
        p.nontrivial += 1;
        p.bump("keys_per_call", l.len().to_string());
        p.bump("wit_dependency_family", format!("{} keys, {}", l.len(), if *ven { "vendored" } else { "not vendored" }));
        for (fp, what) in vs {
            p.violation(fp, what, json!({"family": "wit-dependencies", "features": FEATURES, "vendored": ven, "keys": l, "error_on_unknown": eou}));
        }
    }
    let _ = std::fs::remove_dir_all(&root);
    p
}

pub fn run(args: &[String]) {
    if args.first().map(|s| s.as_str()) == Some("--half") {
        let thorough = args.get(1).map(|s| s == "thorough").unwrap_or(false);
        let out = args.get(2).unwrap_or_else(|| mc_core::machinery_error("--half <tier> <out>"));
        half(thorough).write(out);
        return;
    }
    let mut ctx = Ctx::new("C18", "exploration", args);
    if let Some(case) = ctx.replay_case().cloned() {
        if case["family"] == "wit-dependencies" {
            if case["features"] != FEATURES {
                common::delegate_replay("C18", args);
            }
            let root = common::tmp_root("C18-replay");
            let list: Vec<usize> = serde_json::from_value(case["keys"].clone()).unwrap_or_default();
            let vs = wd_run(&root.join("wd0"), case["vendored"].as_bool().unwrap_or(true), &list, case["error_on_unknown"].as_bool().unwrap_or(true));
            let _ = std::fs::remove_dir_all(&root);
            for (fp, what) in vs {
                ctx.violation(fp, what, case.clone());
            }
            ctx.finish(Map::new(), vec![]);
        }
        let case: Case = serde_json::from_value(case).unwrap_or_else(|e| mc_core::machinery_error(&format!("bad C18 case: {e}")));
        if case.features != FEATURES {
            common::delegate_replay("C18", args);
        }
        let root = common::tmp_root("C18-replay");
        let o = run_case(&case, &root.join("c0"));
        let _ = std::fs::remove_dir_all(&root);
        if o.unrealisable {
            mc_core::machinery_error(&format!("the recorded layout cannot be materialised: {}", o.expected));
        }
        println!("expected: {}\nobserved: {}", o.expected, o.observed);
        for (fp, what) in o.violations {
            ctx.violation(fp, what, serde_json::to_value(&case).unwrap());
        }
        ctx.finish(Map::new(), vec![]);
    }
    let tier = ctx.tier();
    let thorough = tier == mc_core::Tier::Thorough;
    let mine = half(thorough);
    let other = common::run_other_half("C18", tier.as_str());
    // merge in a fixed order: `wit` first
    let (first, second) = if HAS_WAT { (other, mine) } else { (mine, other) };
    let mut hist = BTreeMap::new();
    let mut cov = Map::new();
    let mut samples: Vec<Value> = Vec::new();
    let mut per_build = Map::new();
    let (mut evals, mut nontrivial, mut unreal) = (0u64, 0u64, 0u64);
    for part in [&first, &second] {
        evals += part.evaluations;
        nontrivial += part.nontrivial;
        unreal += part.unrealisable;
        common::merge_hist(&mut hist, &part.hist);
        samples.extend(part.samples.iter().take(2).cloned());
        per_build.insert(
            part.features.clone(),
            json!({"evaluations": part.evaluations, "decision_rows": part.hist.get("decision_rows").map(|m| m.len()).unwrap_or(0), "violating_cases": part.violations.iter().map(|v| v.count).sum::<usize>()}),
        );
        ctx.merge(part.violations.iter().map(|v| mc_core::Violation { fingerprint: v.fingerprint.clone(), what: v.what.clone(), case: v.case.clone(), count: v.count }).collect());
    }
    let unspecified: u64 = hist.get("unspecified").map(|m| m.values().sum()).unwrap_or(0);
    cov.insert("evaluations".into(), json!(evals));
    cov.insert("distinct_nontrivial".into(), json!(nontrivial));
    cov.insert("exhaustive".into(), json!(true));
    cov.insert("samples".into(), json!(samples));
    cov.insert("per_resolver_build".into(), Value::Object(per_build));
    cov.insert("unrealisable_pair_layouts_skipped".into(), json!(unreal));
    cov.insert("unspecified_cases".into(), json!(unspecified));
    cov.insert("unspecified_classes".into(), json!(hist.get("unspecified").cloned().unwrap_or_default()));
    cov.insert("distinct_outcomes".into(), json!(hist.get("decision_rows").map(|m| m.len()).unwrap_or(0)));
    cov.insert("decision_rows_expected_to_observed".into(), json!(hist.get("decision_rows").cloned().unwrap_or_default()));
    cov.insert("observed_outcomes".into(), json!(hist.get("observed").cloned().unwrap_or_default()));
    cov.insert("cases_per_key".into(), json!(hist.get("per_key").cloned().unwrap_or_default()));
    cov.insert("keys_per_call".into(), json!(hist.get("keys_per_call").cloned().unwrap_or_default()));
    cov.insert(
        "rule".into(),
        json!("full product: package key (names of 1-3 segments x {unversioned, 1.2.3, 1.2.3-rc.1, 0.1.0+b.7}; quick: ns:name, ns:name:sub, ns:name@1.2.3) x P,P.wasm,P.wat each in {absent,file,directory} x override in {none,.wasm,.wat,.wit,dangling,directory,other-name} x error_on_unknown x resolver build {wit; wit,wat}, plus all ordered pairs of distinct keys over 6 representative layouts in one resolve call, plus all ordered lists of 1-3 keys over three WIT directories of which one depends on (and optionally vendors a differing copy of) another (each key must resolve to what its directory alone encodes to); every file holds a distinct component / every directory a distinct WIT package (also at the paths Path::set_extension would produce), so the loaded source is identified from the returned bytes; each layout is materialised in its own directory and FileSystemPackageResolver::resolve is compared with the decision table of DESIGN A.5; non-trivial = at least one candidate path or an override is present (every enumerated case is distinct by construction)"),
    );
    ctx.finish(
        cov,
        vec![
            "reference bytes: the file's bytes (.wasm), wat::parse_str of the text (.wat), wit_component::encode of wit_parser::Resolve::push_dir/push_file (WIT) - the same reference crates wac links, called from the harness".into(),
            "the `wit,wat` resolver build runs in a second build of this binary (cargo feature `wat`); both builds run the same enumeration".into(),
            "override pointing at a directory, and a .wat override without text support: no verdict (sources silent), executed for panics only".into(),
            "when several keys of one call are in error, any of them may be the one reported".into(),
        ],
    );
}
