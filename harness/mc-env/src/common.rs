//! Shared by C18 and C19: which resolver build this binary is, where the sibling build
//! lives, temp-tree root, and the partial results exchanged between the two builds.
//!
//! The two builds of `wac-resolver` (`wit` and `wit,wat`) cannot be linked into one binary
//! (cargo unifies features), so `mc-env` is built twice: the default build into
//! `$CARGO_TARGET_DIR`, the `--features wat` build into `$CARGO_TARGET_DIR/alt-wat` (by
//! /verif/pre-C18.sh, /verif/pre-C19.sh). Each build enumerates its own half; the build that
//! was invoked drives the other one (`<prop> --half <tier> <out.json>`) and merges.

use serde::{Deserialize, Serialize};
use serde_json::Value;
use std::collections::BTreeMap;
use std::path::{Path, PathBuf};

pub const FEATURES: &str = if cfg!(feature = "wat") { "wit,wat" } else { "wit" };
pub const OTHER_FEATURES: &str = if cfg!(feature = "wat") { "wit" } else { "wit,wat" };
pub const HAS_WAT: bool = cfg!(feature = "wat");

/// The cargo target directory this binary was built into (`…/<target>/release/mc-env`).
pub fn target_dir() -> PathBuf {
    let exe = std::env::current_exe().unwrap_or_else(|e| mc_core::machinery_error(&format!("current_exe: {e}")));
    match exe.parent().and_then(Path::parent) {
        Some(p) => p.to_path_buf(),
        None => mc_core::verif_root().join("harness/target"),
    }
}

/// The target directory of the default (`wit`) build; the `wit,wat` build lives in
/// `<base>/alt-wat`, the CLI builds in `<base>/wac-wit` and `<base>/wac-wat` (all made by
/// /verif/pre-C19.sh, all inside the one ignored target directory).
pub fn base_target_dir() -> PathBuf {
    let t = target_dir();
    if HAS_WAT && t.file_name().map(|n| n == "alt-wat").unwrap_or(false) {
        t.parent().map(Path::to_path_buf).unwrap_or(t)
    } else {
        t
    }
}

/// Path of the sibling build of this binary (`MC_ENV_OTHER_BIN` overrides).
pub fn other_bin() -> PathBuf {
    if let Some(p) = std::env::var_os("MC_ENV_OTHER_BIN") {
        return PathBuf::from(p);
    }
    let base = base_target_dir();
    let dir = if HAS_WAT { base } else { base.join("alt-wat") };
    dir.join("release").join("mc-env")
}

/// The `wac` CLI built with the same resolver features as this binary (`WAC_BIN` overrides).
pub fn wac_bin() -> PathBuf {
    if let Some(p) = std::env::var_os("WAC_BIN") {
        return PathBuf::from(p);
    }
    base_target_dir().join(if HAS_WAT { "wac-wat" } else { "wac-wit" }).join("release").join("wac")
}

/// Root for temp trees of this process (inside the target directory, never /tmp).
pub fn tmp_root(prop: &str) -> PathBuf {
    let p = base_target_dir().join("tmp").join(format!("mc-env-{prop}-{}-{}", FEATURES.replace(',', "+"), std::process::id()));
    let _ = std::fs::remove_dir_all(&p);
    std::fs::create_dir_all(&p).unwrap_or_else(|e| mc_core::machinery_error(&format!("cannot create {}: {e}", p.display())));
    p
}

#[derive(Serialize, Deserialize, Clone, Debug)]
pub struct PViolation {
    pub fingerprint: String,
    pub what: String,
    pub case: Value,
    pub count: usize,
}

/// What one build contributes to a run.
#[derive(Serialize, Deserialize, Default, Clone, Debug)]
pub struct Partial {
    pub features: String,
    pub evaluations: u64,
    pub nontrivial: u64,
    pub unrealisable: u64,
    /// named histograms
    pub hist: BTreeMap<String, BTreeMap<String, u64>>,
    pub violations: Vec<PViolation>,
    pub samples: Vec<Value>,
    pub notes: BTreeMap<String, Value>,
}

impl Partial {
    pub fn new() -> Partial {
        Partial { features: FEATURES.to_string(), ..Default::default() }
    }
    pub fn bump(&mut self, hist: &str, key: impl Into<String>) {
        *self.hist.entry(hist.to_string()).or_default().entry(key.into()).or_default() += 1;
    }
    pub fn violation(&mut self, fingerprint: String, what: String, case: Value) {
        // diagnostics may quote raw output bytes: keep the report printable and bounded
        let what: String = what.chars().map(|c| if c.is_control() && c != '\n' && c != '\t' { '?' } else { c }).take(4000).collect();
        match self.violations.iter_mut().find(|v| v.fingerprint == fingerprint) {
            Some(v) => v.count += 1,
            None => self.violations.push(PViolation { fingerprint, what, case, count: 1 }),
        }
    }
    pub fn sample(&mut self, max: usize, f: impl FnOnce() -> Value) {
        if self.samples.len() < max {
            self.samples.push(f());
        }
    }
    pub fn write(&self, path: &str) {
        std::fs::write(path, serde_json::to_string(self).unwrap()).unwrap_or_else(|e| mc_core::machinery_error(&format!("cannot write {path}: {e}")));
    }
}

/// Runs the sibling build for its half of the enumeration.
pub fn run_other_half(prop: &str, tier: &str) -> Partial {
    let bin = other_bin();
    if !bin.is_file() {
        mc_core::machinery_error(&format!(
            "the `{OTHER_FEATURES}` build of mc-env is missing at {} (built by /verif/pre-{prop}.sh; or set MC_ENV_OTHER_BIN)",
            bin.display()
        ));
    }
    let out = tmp_root(&format!("{prop}-half")).join("half.json");
    let status = std::process::Command::new(&bin)
        .arg(prop)
        .arg("--half")
        .arg(tier)
        .arg(&out)
        .status()
        .unwrap_or_else(|e| mc_core::machinery_error(&format!("cannot run {}: {e}", bin.display())));
    if !status.success() {
        mc_core::machinery_error(&format!("{} {prop} --half {tier} failed: {status}", bin.display()));
    }
    let text = std::fs::read_to_string(&out).unwrap_or_else(|e| mc_core::machinery_error(&format!("cannot read {}: {e}", out.display())));
    let p: Partial = serde_json::from_str(&text).unwrap_or_else(|e| mc_core::machinery_error(&format!("bad half result: {e}")));
    if p.features != OTHER_FEATURES {
        mc_core::machinery_error(&format!("{} was built with features `{}`, expected `{OTHER_FEATURES}`", bin.display(), p.features));
    }
    let _ = std::fs::remove_dir_all(out.parent().unwrap());
    p
}

/// Replays a case recorded for the other build by running the sibling binary on the file.
pub fn delegate_replay(prop: &str, args: &[String]) -> ! {
    let bin = other_bin();
    if !bin.is_file() {
        mc_core::machinery_error(&format!("replay needs the `{OTHER_FEATURES}` build of mc-env at {} (run /verif/pre-{prop}.sh)", bin.display()));
    }
    let status = std::process::Command::new(&bin)
        .arg(prop)
        .args(args)
        .status()
        .unwrap_or_else(|e| mc_core::machinery_error(&format!("cannot run {}: {e}", bin.display())));
    std::process::exit(status.code().unwrap_or(2))
}

pub fn merge_hist(into: &mut BTreeMap<String, BTreeMap<String, u64>>, from: &BTreeMap<String, BTreeMap<String, u64>>) {
    for (h, m) in from {
        let e = into.entry(h.clone()).or_default();
        for (k, v) in m {
            *e.entry(k.clone()).or_default() += v;
        }
    }
}
