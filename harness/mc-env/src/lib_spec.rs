//! Small components described as data (trimmed copy of mc-graph/src/lib_spec.rs): the WAT of
//! each package is generated from the description.

use std::fmt::Write;

#[derive(Clone, Debug, PartialEq, Eq, PartialOrd, Ord, Hash, serde::Serialize)]
pub enum Ty {
    /// function over primitive parameter types ("u32" | "bool" | "s64" | "f32"), optional result
    Func(Vec<(String, String)>, Option<String>),
    /// instance with exports
    Inst(Vec<(String, Ty)>),
}

impl Ty {
    pub fn func0() -> Ty {
        Ty::Func(vec![], None)
    }
    pub fn func(params: &[(&str, &str)], result: Option<&str>) -> Ty {
        Ty::Func(
            params.iter().map(|(a, b)| (a.to_string(), b.to_string())).collect(),
            result.map(|s| s.to_string()),
        )
    }
    pub fn inst(exports: &[(&str, Ty)]) -> Ty {
        Ty::Inst(exports.iter().map(|(n, t)| (n.to_string(), t.clone())).collect())
    }
    fn wat_type(&self) -> String {
        match self {
            Ty::Func(params, result) => {
                let mut s = String::from("(func");
                for (n, t) in params {
                    write!(s, " (param \"{n}\" {t})").unwrap();
                }
                if let Some(r) = result {
                    write!(s, " (result {r})").unwrap();
                }
                s.push(')');
                s
            }
            Ty::Inst(exports) => {
                let mut s = String::from("(instance");
                for (n, t) in exports {
                    write!(s, " (export \"{n}\" {})", t.wat_type()).unwrap();
                }
                s.push(')');
                s
            }
        }
    }
}

fn core_ty(p: &str) -> &'static str {
    match p {
        "u32" | "bool" | "s32" | "u8" | "char" => "i32",
        "s64" | "u64" => "i64",
        "f32" => "f32",
        "f64" => "f64",
        other => panic!("unsupported primitive {other}"),
    }
}

#[derive(Clone, Debug)]
pub struct PkgSpec {
    #[allow(dead_code)]
    pub name: String,
    pub imports: Vec<(String, Ty)>,
    pub exports: Vec<(String, Ty)>,
}

impl PkgSpec {
    pub fn new(name: &str, imports: &[(&str, Ty)], exports: &[(&str, Ty)]) -> PkgSpec {
        PkgSpec {
            name: name.to_string(),
            imports: imports.iter().map(|(n, t)| (n.to_string(), t.clone())).collect(),
            exports: exports.iter().map(|(n, t)| (n.to_string(), t.clone())).collect(),
        }
    }

    /// Generates a self-contained component: every exported function is lifted from a
    /// core function of an embedded module, exported instances are built from those.
    pub fn to_wat(&self) -> String {
        let mut core_funcs = String::new();
        let mut lifts = String::new();
        let mut defs = String::new();
        let mut n = 0usize;
        let mut inst_n = 0usize;

        fn build(
            ty: &Ty,
            n: &mut usize,
            inst_n: &mut usize,
            core_funcs: &mut String,
            lifts: &mut String,
            defs: &mut String,
        ) -> String {
            match ty {
                Ty::Func(params, result) => {
                    let id = *n;
                    *n += 1;
                    let mut sig = String::new();
                    for (_, t) in params {
                        write!(sig, " (param {})", core_ty(t)).unwrap();
                    }
                    let body = match result {
                        Some(r) => {
                            write!(sig, " (result {})", core_ty(r)).unwrap();
                            format!(" {}.const 0", core_ty(r))
                        }
                        None => String::new(),
                    };
                    writeln!(core_funcs, "    (func (export \"f{id}\"){sig}{body})").unwrap();
                    let mut fty = String::new();
                    for (pn, t) in params {
                        write!(fty, " (param \"{pn}\" {t})").unwrap();
                    }
                    if let Some(r) = result {
                        write!(fty, " (result {r})").unwrap();
                    }
                    writeln!(lifts, "  (func $f{id}{fty} (canon lift (core func $ci \"f{id}\")))").unwrap();
                    format!("(func $f{id})")
                }
                Ty::Inst(exports) => {
                    let mut items = Vec::new();
                    for (en, et) in exports {
                        let r = build(et, n, inst_n, core_funcs, lifts, defs);
                        items.push(format!("(export \"{en}\" {r})"));
                    }
                    let id = *inst_n;
                    *inst_n += 1;
                    writeln!(defs, "  (instance $i{id} {})", items.join(" ")).unwrap();
                    format!("(instance $i{id})")
                }
            }
        }

        let mut exports = String::new();
        for (name, ty) in &self.exports {
            let r = build(ty, &mut n, &mut inst_n, &mut core_funcs, &mut lifts, &mut defs);
            writeln!(exports, "  (export \"{name}\" {r})").unwrap();
        }
        let mut s = String::from("(component\n");
        for (name, ty) in &self.imports {
            writeln!(s, "  (import \"{name}\" {})", ty.wat_type()).unwrap();
        }
        writeln!(s, "  (core module $m\n{core_funcs}  )").unwrap();
        writeln!(s, "  (core instance $ci (instantiate $m))").unwrap();
        s.push_str(&lifts);
        s.push_str(&defs);
        s.push_str(&exports);
        s.push_str(")\n");
        s
    }

    pub fn to_bytes(&self) -> Vec<u8> {
        let wat = self.to_wat();
        let bytes = wat::parse_str(&wat).unwrap_or_else(|e| panic!("library WAT does not parse: {e}\n{wat}"));
        wasmparser::Validator::new_with_features(wasmparser::WasmFeatures::all())
            .validate_all(&bytes)
            .unwrap_or_else(|e| panic!("library component is invalid: {e}\n{wat}"));
        bytes
    }
}
