//! mc-lang — checks of the language front end: C12 (grammar), C13 (printer round trip),
//! C14 (robustness, text half). Invoked as `mc-lang <Cxx> quick|thorough|--replay <file>`.
mod c12;
mod c13;
mod c14;
mod c14_bytes;
mod corpus;
mod grammar;
mod real;
mod reference;

fn main() {
    let args: Vec<String> = std::env::args().skip(1).collect();
    let Some(prop) = args.first().cloned() else {
        mc_core::machinery_error("usage: mc-lang <Cxx> quick|thorough|--replay <file>");
    };
    mc_core::quiet_panics();
    let rest = &args[1..];
    match prop.as_str() {
        "C12" => c12::run(rest),
        "C13" => c13::run(rest),
        "C14" => c14::run(rest),
        // hidden: supervised worker of C14's nesting families
        "__c14-worker" => c14::worker(rest),
        "__c14-bytes-worker" => c14_bytes::worker(rest),
        // hidden: the real lexer's and the reference tokenizer's reading of one text (diagnosis aid)
        "__lex" => {
            for text in rest {
                println!("text {text:?}");
                for (t, o, l) in real::lex(text) {
                    println!("  real      {o:3}+{l:<2} {:?} {t:?}", text.get(o..o + l).unwrap_or("<bad span>"));
                }
                let mut toks = Vec::new();
                let (u, e) = reference::tokenize_partial(text, &mut toks);
                for t in &toks {
                    println!("  reference {:3}+{:<2} {:?} {:?}", t.start, t.end - t.start, &text[t.start..t.end], t.kind);
                }
                println!("  reference unspecified {u:?} error {:?}", e.map(|e| (e.what, e.offset)));
                println!("  parser accepts: {}", wac_parser::Document::parse(text).is_ok());
            }
            std::process::exit(0)
        }
        _ => mc_core::machinery_error(&format!("mc-lang does not serve {prop}")),
    }
}
