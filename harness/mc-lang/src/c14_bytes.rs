//! C14, byte half: package byte strings (valid components, modules, every prefix, single-bit
//! flip and single-byte substitution of valid components, degenerate headers) decoded with
//! `Package::from_bytes`, and pairings of documents with missing, wrong or corrupted packages.
//!
//! Cases come from `mc_graph::c14_bytes` (deterministic list). They run in supervised worker
//! subprocesses by chunk, so a case that aborts the process (stack overflow, allocation
//! failure) is found by bisection and reported instead of killing the check.

use indexmap::IndexMap;
use mc_core::{catch, panic_site, Tier};
use mc_graph::c14_bytes::{apply, case_count, nth_case, run_case, seeds, Seed};
use rayon::prelude::*;
use serde_json::{json, Value};
use std::collections::BTreeMap;
use wac_graph::types::BorrowedPackageKey;
use wac_graph::EncodeOptions;
use wac_parser::Document;

const CHUNK: usize = 4000;

fn tier_of(s: &str) -> Tier {
    if s == "thorough" {
        Tier::Thorough
    } else {
        Tier::Quick
    }
}

/// Hidden subcommand `__c14-bytes-worker <tier> <seed> <start> <end>`; prints one JSON line.
pub fn worker(args: &[String]) -> ! {
    let tier = tier_of(&args[0]);
    let (si, start, end): (usize, usize, usize) = (args[1].parse().unwrap(), args[2].parse().unwrap(), args[3].parse().unwrap());
    let all = seeds(tier);
    let seed = &all[si];
    let mut decoded = 0u64;
    let mut encoded = 0u64;
    let mut viols: Vec<Value> = Vec::new();
    for k in start..end {
        let m = nth_case(seed, tier, k);
        let bytes = apply(&seed.bytes, &m);
        let r = run_case(&bytes, &format!("{} {m:?}", seed.name));
        decoded += r.decoded as u64;
        encoded += r.encoded as u64;
        if let Some((fp, what)) = r.violation {
            viols.push(json!([fp, what, {"seed": si, "seed_name": seed.name, "case": k, "mutation": m, "tier": tier.as_str()}]));
        }
    }
    println!("{}", json!({"decoded": decoded, "encoded": encoded, "violations": viols}));
    std::process::exit(0)
}

fn spawn(tier: Tier, si: usize, start: usize, end: usize) -> Result<Value, String> {
    let out = std::process::Command::new(std::env::current_exe().map_err(|e| e.to_string())?)
        .args(["__c14-bytes-worker", tier.as_str(), &si.to_string(), &start.to_string(), &end.to_string()])
        .env("RUST_BACKTRACE", "0")
        .output()
        .map_err(|e| e.to_string())?;
    if !out.status.success() {
        return Err(format!("{} {}", out.status, String::from_utf8_lossy(&out.stderr).lines().last().unwrap_or("")));
    }
    serde_json::from_slice(&out.stdout).map_err(|e| format!("bad worker output: {e}"))
}

pub struct Sweep {
    pub cases: u64,
    pub decoded: u64,
    pub encoded: u64,
    pub by_seed: BTreeMap<String, u64>,
    pub violations: Vec<(String, String, Value)>,
}

fn run_range(tier: Tier, seed: &Seed, si: usize, start: usize, end: usize, acc: &mut (u64, u64, Vec<(String, String, Value)>)) {
    match spawn(tier, si, start, end) {
        Ok(v) => {
            acc.0 += v["decoded"].as_u64().unwrap_or(0);
            acc.1 += v["encoded"].as_u64().unwrap_or(0);
            for x in v["violations"].as_array().cloned().unwrap_or_default() {
                acc.2.push((x[0].as_str().unwrap().to_string(), x[1].as_str().unwrap().to_string(), x[2].clone()));
            }
        }
        Err(e) => {
            if end - start <= 1 {
                let m = nth_case(seed, tier, start);
                acc.2.push((
                    "C14/bytes/process-aborted".to_string(),
                    format!("decoding/encoding {} {m:?} killed the process: {e}", seed.name),
                    json!({"seed": si, "seed_name": seed.name, "case": start, "mutation": m, "tier": tier.as_str()}),
                ));
            } else {
                let mid = (start + end) / 2;
                run_range(tier, seed, si, start, mid, acc);
                run_range(tier, seed, si, mid, end, acc);
            }
        }
    }
}

pub fn sweep(tier: Tier) -> Sweep {
    let all = seeds(tier);
    let mut chunks: Vec<(usize, usize, usize)> = Vec::new();
    let mut by_seed = BTreeMap::new();
    let mut total = 0u64;
    for (si, s) in all.iter().enumerate() {
        let n = case_count(s, tier);
        by_seed.insert(s.name.clone(), n as u64);
        total += n as u64;
        let mut a = 0;
        while a < n {
            chunks.push((si, a, (a + CHUNK).min(n)));
            a += CHUNK;
        }
    }
    let parts: Vec<(u64, u64, Vec<(String, String, Value)>)> = chunks
        .par_iter()
        .map(|(si, a, b)| {
            let mut acc = (0u64, 0u64, Vec::new());
            run_range(tier, &all[*si], *si, *a, *b, &mut acc);
            acc
        })
        .collect();
    let mut sw = Sweep { cases: total, decoded: 0, encoded: 0, by_seed, violations: Vec::new() };
    for (d, e, v) in parts {
        sw.decoded += d;
        sw.encoded += e;
        sw.violations.extend(v);
    }
    sw
}

pub fn replay(case: &Value) -> Vec<(String, String)> {
    let tier = tier_of(case["tier"].as_str().unwrap_or("quick"));
    let all = seeds(tier);
    let si = case["seed"].as_u64().unwrap() as usize;
    let k = case["case"].as_u64().unwrap() as usize;
    let mut acc = (0, 0, Vec::new());
    run_range(tier, &all[si], si, k, k + 1, &mut acc);
    acc.2.into_iter().map(|(f, w, _)| (f, w)).collect()
}

// ---------------------------------------------------------------- pairings

/// Documents over the C06 library (t:p imports f, i / exports g, j; t:q@1.0.0 exports f, i).
fn documents() -> Vec<(&'static str, &'static str)> {
    vec![
        ("wire", "package t:doc;\nlet q = new t:q@1.0.0 { ... };\nlet p = new t:p { f: q.f, i: q.i };\nexport p.g;\n"),
        ("implicit", "package t:doc;\nlet p = new t:p { ... };\nexport p...;\n"),
        ("spread", "package t:doc;\nlet q = new t:q@1.0.0 { ... };\nlet p = new t:p { ...q };\nexport p.j;\n"),
        ("import-and-use", "package t:doc;\nimport f: func();\nlet p = new t:p { f, ... };\nlet q = new t:q@1.0.0 { h: f, ... };\nexport q.i as out;\n"),
        ("targets-not-a-world", "package t:doc targets t:p/g;\nlet p = new t:p { ... };\nexport p.g;\n"),
    ]
}

pub struct Pairings {
    pub cases: u64,
    pub resolved: u64,
    pub violations: Vec<(String, String, Value)>,
}

pub fn pairings(tier: Tier) -> Pairings {
    let lib = mc_graph::c06::library();
    let pk: Vec<(String, Option<semver::Version>, Vec<u8>)> =
        lib.iter().map(|p| (p.name.clone(), p.version.as_ref().map(|v| semver::Version::parse(v).unwrap()), p.to_bytes())).collect();
    let nmut = tier.pick(50, 400);
    // variants of one package: missing, each other package, nmut evenly spaced byte mutants
    let mut jobs: Vec<(usize, usize, String, Option<Vec<u8>>)> = Vec::new(); // (doc, package, label, replacement)
    for (di, _) in documents().iter().enumerate() {
        for (pi, (name, _, bytes)) in pk.iter().enumerate() {
            jobs.push((di, pi, format!("{name} missing"), None));
            for (oj, (oname, _, obytes)) in pk.iter().enumerate() {
                if oj != pi {
                    jobs.push((di, pi, format!("{name} replaced by {oname}"), Some(obytes.clone())));
                }
            }
            let seed = Seed { name: name.clone(), bytes: bytes.clone() };
            let n = case_count(&seed, Tier::Quick);
            for j in 0..nmut {
                let k = 1 + j * (n - 1) / nmut;
                let m = nth_case(&seed, Tier::Quick, k);
                jobs.push((di, pi, format!("{name} {m:?}"), Some(apply(bytes, &m))));
            }
        }
    }
    let docs = documents();
    let outs: Vec<(bool, Vec<(String, String, Value)>)> = jobs
        .par_iter()
        .map(|(di, pi, label, repl)| {
            let (dname, text) = docs[*di];
            let mut v = Vec::new();
            let doc = Document::parse(text).unwrap_or_else(|e| mc_core::machinery_error(&format!("pairing document {dname}: {e}")));
            let mut map: IndexMap<BorrowedPackageKey, Vec<u8>> = IndexMap::new();
            for (i, (n, ver, b)) in pk.iter().enumerate() {
                let bytes = if i == *pi {
                    match repl {
                        None => continue,
                        Some(r) => r.clone(),
                    }
                } else {
                    b.clone()
                };
                map.insert(BorrowedPackageKey::from_name_and_version(n, ver.as_ref()), bytes);
            }
            let case = json!({"kind": "pairing", "document": dname, "text": text, "variant": label});
            let r = catch(|| {
                let mut diags: Vec<(String, String)> = Vec::new();
                let ok = match doc.resolve(map) {
                    Err(e) => {
                        crate::c14::check_diagnostic("resolve", &e, text, &mut diags);
                        false
                    }
                    Ok(res) => {
                        for define in [true, false] {
                            if let Err(e) = res.encode(EncodeOptions { define_components: define, validate: false, processor: None }) {
                                crate::c14::check_diagnostic("encode", &e, text, &mut diags);
                            }
                        }
                        true
                    }
                };
                (ok, diags)
            });
            match r {
                Ok((ok, diags)) => {
                    for (fp, what) in diags {
                        v.push((fp, format!("{dname} with {label}: {what}"), case.clone()));
                    }
                    (ok, v)
                }
                Err(p) => {
                    v.push((format!("C14/pairing/panic/{}", panic_site(&p)), format!("document `{dname}` with {label}: {p}"), case));
                    (false, v)
                }
            }
        })
        .collect();
    let mut out = Pairings { cases: jobs.len() as u64, resolved: 0, violations: Vec::new() };
    for (ok, v) in outs {
        out.resolved += ok as u64;
        out.violations.extend(v);
    }
    let (n, r, v) = version_lists(tier);
    out.cases += n;
    out.resolved += r;
    out.violations.extend(v);
    out
}

/// Documents that instantiate every ordered list of 1..k packages of the versioned-import
/// library (one interface required unversioned, at compatible, incompatible, pre-release,
/// multi-digit and conflicting versions; one provider) with all arguments implicit, once as
/// written and once with the first instance's export wired nowhere but exported: resolving and
/// encoding must return (a component or a diagnostic), never panic.
fn version_lists(tier: Tier) -> (u64, u64, Vec<(String, String, Value)>) {
    let lib = mc_graph::c03::library();
    let pk: Vec<(String, Vec<u8>)> = lib.iter().map(|p| (p.name.clone(), p.to_bytes())).collect();
    let k = tier.pick(3, 4);
    let mut lists: Vec<Vec<usize>> = Vec::new();
    let mut cur: Vec<Vec<usize>> = vec![vec![]];
    for _ in 0..k {
        let mut next = Vec::new();
        for l in &cur {
            for i in 0..pk.len() {
                let mut m = l.clone();
                m.push(i);
                next.push(m);
            }
        }
        lists.extend(next.iter().cloned());
        cur = next;
    }
    // an explicit import statement under a versioned interface name, of a type that merges
    // with / conflicts with what the instantiated packages require (lists of up to k-1)
    let mut jobs: Vec<(String, Vec<usize>)> = lists.iter().map(|l| (String::new(), l.clone())).collect();
    for name in ["a:b/i", "a:b/i@0.2.1", "a:b/i@0.2.5", "a:b/i@1.0.0", "a:b/i@1.1.0", "a:b/i@0.0.1"] {
        for ty in ["f: func();", "f: func(x: u32);"] {
            let prefix = format!("import x as \"{name}\": interface {{ {ty} }};\n");
            for l in lists.iter().filter(|l| l.len() < k) {
                jobs.push((prefix.clone(), l.clone()));
            }
        }
    }
    let outs: Vec<(bool, Vec<(String, String, Value)>)> = jobs
        .par_iter()
        .map(|(prefix, l)| {
            let mut text = format!("package t:doc;\n{prefix}");
            for (n, i) in l.iter().enumerate() {
                text.push_str(&format!("let c{n} = new {} {{ ... }};\n", pk[*i].0));
            }
            let case = json!({"kind": "version-list", "text": text});
            let doc = Document::parse(&text).unwrap_or_else(|e| mc_core::machinery_error(&format!("version-list document: {e}")));
            let mut map: IndexMap<BorrowedPackageKey, Vec<u8>> = IndexMap::new();
            for (n, b) in &pk {
                map.insert(BorrowedPackageKey::from_name_and_version(n, None), b.clone());
            }
            let mut v = Vec::new();
            let r = catch(|| {
                let mut diags: Vec<(String, String)> = Vec::new();
                let ok = match doc.resolve(map) {
                    Err(e) => {
                        crate::c14::check_diagnostic("resolve", &e, &text, &mut diags);
                        false
                    }
                    Ok(res) => {
                        let mut all = true;
                        for define in [true, false] {
                            if let Err(e) = res.encode(EncodeOptions { define_components: define, validate: false, processor: None }) {
                                crate::c14::check_diagnostic("encode", &e, &text, &mut diags);
                                all = false;
                            }
                        }
                        all
                    }
                };
                (ok, diags)
            });
            match r {
                Ok((ok, diags)) => {
                    for (fp, what) in diags {
                        v.push((fp, format!("version list: {what}"), case.clone()));
                    }
                    (ok, v)
                }
                Err(p) => {
                    v.push((format!("C14/pairing/panic/{}", panic_site(&p)), format!("instantiating {:?} with implicit arguments: {p}", l.iter().map(|i| pk[*i].0.as_str()).collect::<Vec<_>>()), case));
                    (false, v)
                }
            }
        })
        .collect();
    let mut n = 0u64;
    let mut ok = 0u64;
    let mut viol = Vec::new();
    for (o, v) in outs {
        n += 1;
        ok += o as u64;
        viol.extend(v);
    }
    (n, ok, viol)
}
