//! C12 — the parser accepts exactly the documented grammar and builds the intended tree.
//!
//! Every text of the E4 corpus is given to the reference recogniser (reference.rs, written
//! from LANGUAGE.md) and to `Document::parse`. Oracle: accepted ⇔ derivable; for accepted
//! texts the span-stripped serialised AST equals the reference derivation tree; a rejected
//! text carries at least one label and every label lies inside the source. Disagreements
//! are keyed by cause: the production in which the two derivations part and the class of
//! the token found there — not by text.

use crate::corpus::{self, Base, Tight, TightScope, TightStats};
use crate::real::{self, Docs};
use crate::reference;
use mc_core::{catch, panic_site, Ctx, Tier};
use rayon::prelude::*;
use serde_json::{json, Map, Value};
use std::collections::BTreeMap;
use wac_parser::Document;

#[derive(Default, Clone)]
pub struct Judged {
    pub ref_accepts: bool,
    pub real_accepts: bool,
    pub unspecified: Option<String>,
    /// (fingerprint, what)
    pub violation: Option<(String, String)>,
}

/// Path of the first difference between two JSON trees, array indexes dropped.
fn first_diff(a: &Value, b: &Value, path: &mut Vec<String>) -> bool {
    match (a, b) {
        (Value::Object(x), Value::Object(y)) => {
            for k in x.keys().chain(y.keys().filter(|k| !x.contains_key(*k))) {
                match (x.get(k), y.get(k)) {
                    (Some(p), Some(q)) => {
                        path.push(k.clone());
                        if first_diff(p, q, path) {
                            return true;
                        }
                        path.pop();
                    }
                    _ => {
                        path.push(k.clone());
                        return true;
                    }
                }
            }
            false
        }
        (Value::Array(x), Value::Array(y)) => {
            if x.len() != y.len() {
                path.push("#length".into());
                return true;
            }
            x.iter().zip(y).any(|(p, q)| first_diff(p, q, path))
        }
        _ => a != b,
    }
}

/// Coarse class of a reference token for the lexical causes (every keyword is `keyword`).
fn lexical_class(k: reference::Kind) -> String {
    match k {
        reference::Kind::Kw(_) => "keyword".into(),
        k => reference::class_of(Some(k)),
    }
}

/// Diagnosis of a disagreement: if the real lexer reads the text differently from the
/// reference tokenizer at a token the reference has, the cause is lexical and this names it
/// by token class (not by text, production or keyword): the first token, in reading order,
/// that the real lexer gives another class or another extent.
///   `<class>-read-as-<class>-before-<next>`   same extent, another class
///   `<class>-absorbs-following-<c>`           the real token also takes the character(s) after it
///   `<class>-split` / `token-start-differs`   otherwise
pub fn lexical_cause(text: &str) -> Option<String> {
    let mut toks = Vec::new();
    let _ = reference::tokenize_partial(text, &mut toks);
    let real = real::lex(text);
    for (t, r) in toks.iter().zip(real.iter()) {
        let (Ok(name), o, l) = (&r.0, r.1, r.2) else { return None };
        let real_class = if name.ends_with(" keyword") { "keyword".to_string() } else { name.replace(' ', "-").replace("-literal", "") };
        let same_kind = match t.kind {
            reference::Kind::Kw(k) => *name == format!("`{k}` keyword"),
            reference::Kind::Sym(s) => *name == format!("`{s}`"),
            reference::Kind::Id => name == "identifier",
            reference::Kind::Str => name == "string literal",
            reference::Kind::PkgName => name == "package name",
            reference::Kind::PkgPath => name == "package path",
        };
        if o == t.start && o + l == t.end && same_kind {
            continue;
        }
        let class = lexical_class(t.kind);
        let next = |at: usize| match text[at..].chars().next() {
            None => "end-of-input".to_string(),
            Some(c) if c.is_whitespace() => "white-space".to_string(),
            Some(c) if c.is_ascii_lowercase() || c.is_ascii_digit() => "word-character".to_string(),
            Some(c) => format!("`{c}`"),
        };
        return Some(if o != t.start {
            "token-start-differs".to_string()
        } else if o + l == t.end {
            format!("{class}-read-as-{real_class}-before-{}", next(t.end))
        } else if o + l > t.end {
            let what = format!("{class}-absorbs-following-{}", next(t.end));
            if real_class == class { what } else { format!("{what}-read-as-{real_class}") }
        } else {
            format!("{class}-split")
        });
    }
    None
}

/// Runs both sides on `text` and applies the C12 oracle.
pub fn judge(text: &str) -> Judged {
    let r = reference::parse(text);
    let real = catch(|| match Document::parse(text) {
        Ok(d) => Ok(real::to_json(&d)),
        Err(e) => Err(real::err_info(&e)),
    });
    let mut j = Judged { ref_accepts: r.is_ok(), ..Default::default() };
    let real = match real {
        Err(p) => {
            j.violation = Some((format!("C12/panic/{}", panic_site(&p)), format!("Document::parse panicked: {p}")));
            return j;
        }
        Ok(x) => x,
    };
    j.real_accepts = real.is_ok();
    // a rejected text must carry a location inside the source
    if let Err(e) = &real {
        if e.spans.is_empty() {
            j.violation = Some(("C12/error-without-location".into(), format!("error `{}` has no label", e.message)));
            return j;
        }
        if let Some(&(o, l)) = e.spans.iter().find(|&&(o, l)| o.checked_add(l).map_or(true, |e| e > text.len())) {
            j.violation = Some((
                format!("C12/error-span-outside-source/{}", e.kind),
                format!("label {o}+{l} of `{}` is outside the {}-byte source", e.message, text.len()),
            ));
            return j;
        }
    }
    let unspecified = match &r {
        Ok(t) => t.unspecified.map(String::from),
        Err(e) if e.unspecified => Some("lexical-boundary".to_string()),
        _ => None,
    };
    if unspecified.is_some() {
        j.unspecified = unspecified;
        return j;
    }
    match (r, real) {
        (Ok(t), Ok(mut ast)) => {
            real::strip(&mut ast, Docs::Drop);
            if ast != t.json {
                let mut path = Vec::new();
                first_diff(&t.json, &ast, &mut path);
                j.violation = Some(match lexical_cause(text) {
                    Some(c) => (format!("C12/tree-differs/token/{c}"), format!("the lexer's reading differs ({c}); reference tree {} but parser tree {}", t.json, ast)),
                    None => (format!("C12/tree-differs/{}", path.join(".")), format!("reference tree {} but parser tree {}", t.json, ast)),
                });
            }
        }
        (Err(_), Err(_)) => {}
        (Ok(t), Err(e)) => {
            let off = e.spans[0].0;
            let found = t.toks.iter().find(|k| off < k.end).map(|k| k.kind);
            let what = match e.kind {
                "unexpected" => format!("unexpected-{}", reference::class_of(found)),
                k => k.to_string(),
            };
            j.violation = Some(match lexical_cause(text) {
                Some(c) => (format!("C12/rejects-grammar/token/{c}"), format!("derivable from the EBNF but the lexer's reading differs ({c}) and the text is rejected: {}", e.message)),
                None => (
                    format!("C12/rejects-grammar/{}/{what}", reference::production_at(&t, off)),
                    format!("derivable from the EBNF but rejected: {}", e.message),
                ),
            });
        }
        (Err(e), Ok(_)) => {
            j.violation = Some(match lexical_cause(text) {
                Some(c) => (
                    format!("C12/accepts-non-grammar/token/{c}"),
                    format!("not derivable (reference stops in `{}`, {} at byte {}) but accepted: the lexer's reading differs ({c})", e.production, e.what, e.offset),
                ),
                None => (
                    format!("C12/accepts-non-grammar/{}/{}", e.production, e.what),
                    format!("not derivable (reference stops in `{}`, {} at byte {}) but accepted", e.production, e.what, e.offset),
                ),
            });
        }
    }
    j
}

#[derive(Default)]
pub struct Stats {
    pub evaluations: u64,
    pub both_accept: u64,
    pub both_reject: u64,
    pub unspecified: BTreeMap<String, u64>,
    pub by_kind: BTreeMap<&'static str, [u64; 2]>, // kind -> [texts, accepted by the parser]
    pub hashes: Vec<u64>,
    pub accepted_hashes: Vec<u64>,
    /// fingerprint -> (what, first text, count)
    pub violations: BTreeMap<String, (String, String, usize)>,
    pub tight: TightStats,
}

impl Stats {
    pub fn record(&mut self, kind: &'static str, text: &str, j: &Judged) {
        self.evaluations += 1;
        let h = corpus::text_hash(text);
        self.hashes.push(h);
        let e = self.by_kind.entry(kind).or_default();
        e[0] += 1;
        if j.real_accepts {
            e[1] += 1;
            self.accepted_hashes.push(h);
        }
        if let Some(u) = &j.unspecified {
            *self.unspecified.entry(u.clone()).or_default() += 1;
        } else if j.violation.is_none() {
            if j.real_accepts {
                self.both_accept += 1;
            } else {
                self.both_reject += 1;
            }
        }
        if let Some((fp, what)) = &j.violation {
            let v = self.violations.entry(fp.clone()).or_insert_with(|| (what.clone(), text.to_string(), 0));
            v.2 += 1;
            if text.len() < v.1.len() {
                v.0 = what.clone();
                v.1 = text.to_string();
            }
        }
    }
    pub fn merge(&mut self, o: Stats) {
        self.tight.merge(&o.tight);
        self.evaluations += o.evaluations;
        self.both_accept += o.both_accept;
        self.both_reject += o.both_reject;
        for (k, v) in o.unspecified {
            *self.unspecified.entry(k).or_default() += v;
        }
        for (k, v) in o.by_kind {
            let e = self.by_kind.entry(k).or_default();
            e[0] += v[0];
            e[1] += v[1];
        }
        self.hashes.extend(o.hashes);
        self.accepted_hashes.extend(o.accepted_hashes);
        for (k, v) in o.violations {
            match self.violations.get_mut(&k) {
                None => {
                    self.violations.insert(k, v);
                }
                Some(e) => {
                    e.2 += v.2;
                    if v.1.len() < e.1.len() {
                        e.0 = v.0;
                        e.1 = v.1;
                    }
                }
            }
        }
    }
}

/// Bounds of a tier: (depth with the full substitute set, total depth, R, statement-pair depth).
pub fn bounds(tier: Tier) -> (usize, usize, usize, Option<usize>) {
    match tier {
        Tier::Quick => (3, 4, 2, None),
        Tier::Thorough => (5, 6, 2, Some(4)),
    }
}

/// Depth up to which the thorough tier also takes every two-gap layout deviation.
pub const TWO_GAP_DEPTH: usize = 3;

/// The family of one base document: itself, its mutants (each in the one-space and, as far as
/// `scope` says, in the tight rendering) and its layout deviations.
pub fn family(
    b: &Base,
    subs: &[String],
    two_gap: bool,
    scope: TightScope,
    tight: &mut Tight,
    mut f: impl FnMut(&'static str, String),
) {
    let spaced = corpus::join(&b.toks);
    let pieces: Vec<&str> = b.toks.iter().map(|s| s.as_str()).collect();
    let t = tight.render(&pieces, &spaced);
    f("base", spaced);
    if let Some(t) = t {
        f("base-tight", t);
    }
    corpus::for_each_mutant(&b.toks, subs, scope, tight, |k, t| f(k, t));
    // token ranges of the productions of the reference derivation (token i of the joined
    // text is token i of the list: every default terminal is one token)
    if let Ok(t) = reference::parse(&corpus::join(&b.toks)) {
        if t.toks.len() == b.toks.len() {
            let ranges: Vec<(usize, usize)> = t.nodes.iter().map(|n| (n.1, n.2)).collect();
            corpus::for_each_subtree_deletion(&b.toks, &ranges, scope, tight, |k, t| f(k, t));
        }
    }
    corpus::for_each_layout(&b.toks, &corpus::SEPARATORS, |t| f("layout", t));
    if two_gap {
        corpus::for_each_layout2(&b.toks, &corpus::SEPARATORS, |t| f("layout-two-gaps", t));
    }
}

/// Which texts of a document's family get the tight rendering: in the thorough tier all of
/// them; in the quick tier (for time) all of them for the documents of the shallow layer (the
/// one that gets the full substitute set), the base document alone for the deeper ones.
pub fn tight_scope(tier: Tier, shallow_layer: bool) -> TightScope {
    if tier == Tier::Thorough || shallow_layer {
        TightScope::All
    } else {
        TightScope::BaseOnly
    }
}

/// The sentence of the evidence rule about the tight rendering; `all_depth` = Some(d): only
/// the documents of E(X,d) get it for their mutants (quick tier), None: every document does.
pub fn tight_rule(all_depth: Option<usize>) -> String {
    let which = match all_depth {
        None => "every base document, every single-token mutant (deletion, duplication, swap, substitution, with the same substitute sets) and every subtree deletion".to_string(),
        Some(d) => format!(
            "every base document and, for the documents of E(X,{d}) (restricted to these in the quick tier to keep it short; the thorough tier takes the mutants of every document), \
             every single-token mutant (deletion, duplication, swap, substitution with the full substitute set) and every subtree deletion"
        ),
    };
    format!(
        "tight layout: {which} is also rendered with every separator dropped that the reference tokenizer does not need \
         (greedy left to right; a separator stays where the concatenation would tokenize differently, e.g. `u8 u8`, `a : b`; \
         the tight text tokenizes per the reference to exactly the token sequence of the one-space text, checked on every text)"
    )
}

/// The texts of the documents that also get every two-gap layout deviation (thorough tier).
pub fn two_gap_set(tier: Tier, reps: usize) -> std::collections::HashSet<String> {
    if tier == Tier::Thorough {
        corpus::base_docs(TWO_GAP_DEPTH, reps, None).docs.iter().map(|b| corpus::join(&b.toks)).collect()
    } else {
        Default::default()
    }
}

pub fn run(args: &[String]) -> ! {
    let mut ctx = Ctx::new("C12", "exploration", args);
    if let Some(case) = ctx.replay_case() {
        let text = case["text"].as_str().unwrap_or_else(|| mc_core::machinery_error("replay case needs `text`")).to_string();
        let j = judge(&text);
        println!("reference accepts: {}, parser accepts: {}, unspecified: {:?}", j.ref_accepts, j.real_accepts, j.unspecified);
        if let Some((fp, what)) = j.violation {
            ctx.violation(fp, what, json!({"text": text}));
        }
        ctx.finish(Map::new(), vec![]);
    }
    let tier = ctx.tier();
    let (full_depth, depth, reps, pairs) = bounds(tier);
    // the shallow layer gets every substitute, the deepest layer one per class
    let shallow = corpus::base_docs(full_depth, reps, pairs);
    let deep = corpus::base_docs(depth, reps, None);
    let shallow_texts: std::collections::HashSet<String> = shallow.docs.iter().map(|b| corpus::join(&b.toks)).collect();
    let deep_only: Vec<&Base> = deep.docs.iter().filter(|b| !shallow_texts.contains(&corpus::join(&b.toks))).collect();
    let subs_full = corpus::substitutes();
    let subs_small = corpus::substitutes_small();

    // self-check of the machinery: the reference derives every enumerated derivation
    for b in shallow.docs.iter().chain(deep.docs.iter()) {
        let t = corpus::join(&b.toks);
        if let Err(e) = reference::parse(&t) {
            mc_core::machinery_error(&format!("reference rejects its own derivation `{t}`: {e:?}"));
        }
    }

    let work: Vec<(&Base, &[String], TightScope)> = shallow
        .docs
        .iter()
        .map(|b| (b, &subs_full[..], tight_scope(tier, true)))
        .chain(deep_only.iter().map(|b| (*b, &subs_small[..], tight_scope(tier, false))))
        .collect();
    let two_gap = two_gap_set(tier, reps);
    let parts: Vec<Stats> = work
        .par_chunks(16)
        .map(|chunk| {
            let mut st = Stats::default();
            let mut tight = Tight::default();
            for (b, subs, scope) in chunk {
                family(b, subs, two_gap.contains(&corpus::join(&b.toks)), *scope, &mut tight, |kind, text| {
                    let j = judge(&text);
                    st.record(kind, &text, &j);
                });
            }
            st.tight = tight.stats;
            st
        })
        .collect();
    let mut st = Stats::default();
    for p in parts {
        st.merge(p);
    }
    // per-production hit counts over the base documents (how often each production was derived)
    let mut production_hits: BTreeMap<&'static str, u64> = BTreeMap::new();
    for b in shallow.docs.iter().chain(deep_only.iter().copied()) {
        if let Ok(t) = reference::parse(&corpus::join(&b.toks)) {
            for (name, _, _) in t.nodes {
                *production_hits.entry(name).or_default() += 1;
            }
        }
    }
    let never: Vec<&str> =
        crate::grammar::rules().iter().map(|r| r.0).filter(|n| !production_hits.contains_key(n) && !lexical_only(n)).collect();

    // code-point sweep and repository files
    let sweep = corpus::codepoint_sweep();
    let mut sweep_rejected_forbidden = 0u64;
    for (label, text) in &sweep {
        let j = judge(text);
        if !j.real_accepts && !j.ref_accepts {
            sweep_rejected_forbidden += 1;
        }
        let _ = label;
        st.record("code-point", text, &j);
    }
    let files = corpus::repo_files();
    for (_, text) in &files {
        let j = judge(text);
        st.record("repo-file", text, &j);
    }
    // degenerate texts: nothing to point at, or only whitespace/comments
    for text in ["", " ", "\n", "// c", "/* c */", "/* c", "\"", ";"] {
        let j = judge(text);
        st.record("degenerate", text, &j);
    }

    let mut samples = mc_core::Samples::new(5);
    for b in [shallow.docs.first(), shallow.docs.get(shallow.docs.len() / 2), deep_only.last().copied()].into_iter().flatten() {
        let t = corpus::join(&b.toks);
        let j = judge(&t);
        samples.offer(|| json!({"kind": "base", "exercises": b.origin, "text": t, "reference_accepts": j.ref_accepts, "parser_accepts": j.real_accepts}));
    }
    if let Some(b) = shallow.docs.get(shallow.docs.len() / 3) {
        let mut first = None;
        let mut first_tight = None;
        corpus::for_each_mutant(&b.toks, &subs_full, TightScope::All, &mut Tight::default(), |k, t| {
            if first.is_none() && k == "swap" {
                first = Some(t);
            } else if first_tight.is_none() && k == "substitute-tight" {
                first_tight = Some(t);
            }
        });
        if let Some(t) = first_tight {
            let j = judge(&t);
            samples.offer(|| json!({"kind": "substitute-tight-mutant", "text": t, "reference_accepts": j.ref_accepts, "parser_accepts": j.real_accepts}));
        }
        if let Some(t) = first {
            let j = judge(&t);
            samples.offer(|| json!({"kind": "swap-mutant", "text": t, "reference_accepts": j.ref_accepts, "parser_accepts": j.real_accepts}));
        }
    }

    for (fp, (what, text, count)) in &st.violations {
        ctx.merge(vec![mc_core::Violation {
            fingerprint: fp.clone(),
            what: format!("{what} — minimal text: {text:?}"),
            case: json!({"text": text}),
            count: *count,
        }]);
    }
    let mut all = std::mem::take(&mut st.hashes);
    all.sort_unstable();
    all.dedup();
    let mut acc = std::mem::take(&mut st.accepted_hashes);
    acc.sort_unstable();
    acc.dedup();

    let mut cov = Map::new();
    cov.insert("evaluations".into(), json!(st.evaluations));
    cov.insert("distinct_nontrivial".into(), json!(all.len()));
    cov.insert("distinct_texts_accepted_by_parser".into(), json!(acc.len()));
    cov.insert(
        "rule".into(),
        json!(format!(
            "spine-exhaustive grammar enumeration (grammar.rs): for every non-terminal X of the EBNF every derivation of E(X,{depth}) \
             (every shape of every production on every chain of <= {depth} nested productions, repetitions 0..={reps}, siblings minimal) \
             in X's shortest document context{}; from each document all single-token deletions, duplications, adjacent swaps and \
             substitutions ({} substitutes for documents of E(X,{full_depth}), {} for the deeper ones), all deletions of the token range of one \
             derived production, and all one-gap layout deviations of the document ({} separators at every gap incl. leading/trailing){}; {}; plus the code-point sweep and the repository .wac files. \
             distinct_nontrivial = number of distinct texts (64-bit SipHash, fixed key) — every text is a derivation or exactly one \
             token / gap / code point away from one, in the one-space or the tight rendering",
            match pairs {
                Some(k) => format!(", plus all ordered pairs of statements of E(statement,{k})"),
                None => String::new(),
            },
            subs_full.len(),
            subs_small.len(),
            corpus::SEPARATORS.len(),
            if tier == Tier::Thorough { format!(", all two-gap layout deviations of the documents of E(X,{TWO_GAP_DEPTH})") } else { String::new() },
            tight_rule(if tier == Tier::Quick { Some(full_depth) } else { None })
        )),
    );
    cov.insert("exhaustive".into(), json!(true));
    cov.insert("cap_hit".into(), json!(false));
    cov.insert(
        "bound_completed".into(),
        json!({"depth": depth, "depth_with_full_substitute_set": full_depth, "max_repetitions": reps, "statement_pair_depth": pairs}),
    );
    cov.insert("base_documents".into(), json!(shallow.docs.len() + deep_only.len()));
    cov.insert("statement_pair_documents".into(), json!(shallow.pair_docs));
    cov.insert("derivations_per_nonterminal".into(), json!(deep.per_nonterminal));
    cov.insert("per_production_hits_in_base_documents".into(), json!(production_hits));
    cov.insert("productions_never_derived".into(), json!(never));
    cov.insert("texts_by_kind_total_and_parser_accepted".into(), json!(st.by_kind));
    cov.insert("tight_layout_texts".into(), json!(st.tight.texts));
    cov.insert("tight_layout_texts_by_kind_total_and_parser_accepted".into(), json!(tight_by_kind(&st.by_kind)));
    cov.insert("tight_layout".into(), st.tight.json());
    cov.insert("agree_accept".into(), json!(st.both_accept));
    cov.insert("agree_reject".into(), json!(st.both_reject));
    cov.insert("distinct_outcomes".into(), json!(2 + st.violations.len() + st.unspecified.len()));
    cov.insert("unspecified_cases".into(), json!(st.unspecified));
    cov.insert("code_point_sweep_texts".into(), json!(sweep.len()));
    cov.insert("code_point_sweep_rejected_by_both".into(), json!(sweep_rejected_forbidden));
    cov.insert("repo_wac_files".into(), json!(files.len()));
    cov.insert("disagreement_classes".into(), json!(st.violations.iter().map(|(k, v)| json!({"fingerprint": k, "texts": v.2, "minimal": v.1})).collect::<Vec<_>>()));
    cov.insert("samples".into(), json!(samples.items));
    ctx.finish(
        cov,
        vec![
            "the reference recogniser (reference.rs) transcribes the EBNF and whitespace rules of LANGUAGE.md; clarifications (only widening): `new` arguments may be empty / `...` alone / `...` anywhere; package names, paths and versions are single maximal-munch tokens; `param-list` = '(' params? ')'".into(),
            "doc comments are outside the grammar; they are dropped from the parser's tree before comparison (C13 covers them)".into(),
            "no verdict (counted as unspecified) where LANGUAGE.md is silent: U+17B4/U+17B5, a version directly followed by a version character, a lone CR inside a line comment".into(),
        ],
    )
}

/// The `<kind>-tight` entries of a by-kind table.
pub fn tight_by_kind<V: Clone>(by_kind: &BTreeMap<&'static str, V>) -> BTreeMap<&'static str, V> {
    by_kind.iter().filter(|(k, _)| corpus::TIGHT_KINDS.contains(k)).map(|(k, v)| (*k, v.clone())).collect()
}

fn lexical_only(n: &str) -> bool {
    matches!(n, "id" | "string" | "package-name" | "package-path" | "version")
}
