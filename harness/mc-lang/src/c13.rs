//! C13 — printing a parsed document and re-parsing it gives the same document.
//!
//! Every text of the C12 corpus that `Document::parse` accepts (grammar derivations, the
//! accepted single-token mutants, every one-gap layout deviation, every doc-comment form
//! at every gap) and every repository `.wac` file: t1 = parse(s); p1 = print(t1);
//! t2 = parse(p1) must succeed; strip(t1) == strip(t2) (spans removed, doc comments
//! flattened to their non-empty trimmed lines); print(t2) == p1 byte for byte.
//! Fingerprints name the symptom and the construct (the production in which the reference
//! recogniser stops on the printed text / the tree path that differs), not the text.

use crate::c12;
use crate::corpus::{self, Base, Tight};
use crate::real::{self, Docs};
use crate::reference;
use mc_core::{catch, panic_site, Ctx};
use rayon::prelude::*;
use serde_json::{json, Map, Value};
use std::collections::BTreeMap;
use wac_parser::Document;

pub enum Trip {
    Rejected,
    /// round trip fine; the stripped tree
    Fine(Value),
    Violation(String, String),
}

fn diff_path(a: &Value, b: &Value, path: &mut Vec<String>) -> bool {
    match (a, b) {
        (Value::Object(x), Value::Object(y)) => {
            for k in x.keys().chain(y.keys().filter(|k| !x.contains_key(*k))) {
                path.push(k.clone());
                match (x.get(k), y.get(k)) {
                    (Some(p), Some(q)) => {
                        if diff_path(p, q, path) {
                            return true;
                        }
                    }
                    _ => return true,
                }
                path.pop();
            }
            false
        }
        (Value::Array(x), Value::Array(y)) => {
            if x.len() != y.len() {
                path.push("#length".into());
                return true;
            }
            x.iter().zip(y).any(|(p, q)| diff_path(p, q, path))
        }
        _ => a != b,
    }
}

/// The construct responsible for a defect at `offset` of the printed text `p`.
fn construct_at(p: &str, offset: usize) -> String {
    let line_start = p[..offset.min(p.len())].rfind('\n').map_or(0, |i| i + 1);
    if p[line_start..].trim_start().starts_with("///") {
        return "doc-comment".into();
    }
    // upper-case identifier words are a known C12 disagreement; they must not mask the construct
    let lower = p.to_ascii_lowercase();
    match reference::parse(&lower) {
        Err(e) if e.offset.abs_diff(offset) <= 1 => e.production,
        Ok(t) => reference::production_at(&t, offset).to_string(),
        // the reference stops elsewhere (another C12 leniency in the same text): name the
        // top-level statement instead (the printer starts every statement in column 0)
        Err(_) => {
            let mut start = line_start;
            while start > 0 && p[start..].starts_with([' ', '}', '\n']) {
                start = p[..start - 1].rfind('\n').map_or(0, |i| i + 1);
            }
            let word: String = p[start..].chars().take_while(|c| c.is_ascii_alphabetic()).collect();
            format!("{word}-statement")
        }
    }
}

pub fn round_trip(s: &str) -> Trip {
    let r = catch(|| -> Result<Trip, (String, String)> {
        let Ok(t1) = Document::parse(s) else { return Ok(Trip::Rejected) };
        let mut j1 = real::to_json(&t1);
        real::strip(&mut j1, Docs::Flatten);
        let p1 = catch(|| real::print(&t1, s)).map_err(|p| (format!("C13/print-panics/{}", panic_site(&p)), format!("printer panicked: {p}")))?;
        let t2 = match Document::parse(&p1) {
            Ok(t) => t,
            Err(e) => {
                let off = real::labels(&e).first().map_or(0, |x| x.0);
                return Err((
                    format!("C13/reparse-fails/{}", construct_at(&p1, off)),
                    format!("printed text does not parse ({e}); printed: {p1:?}"),
                ));
            }
        };
        let mut j2 = real::to_json(&t2);
        real::strip(&mut j2, Docs::Flatten);
        if j1 != j2 {
            let mut path = Vec::new();
            diff_path(&j1, &j2, &mut path);
            let named: Vec<&String> = path.iter().filter(|p| p.as_str() != "#length").collect();
            let tail = named[named.len().saturating_sub(2)..].iter().map(|s| s.as_str()).collect::<Vec<_>>().join(".");
            return Err((
                format!("C13/tree-differs/{tail}"),
                format!("tree changes at {}; printed: {p1:?}", path.join(".")),
            ));
        }
        let p2 = catch(|| real::print(&t2, &p1)).map_err(|p| (format!("C13/print-panics/{}", panic_site(&p)), format!("printer panicked on the reparsed tree: {p}")))?;
        if p2 != p1 {
            let off = p1.bytes().zip(p2.bytes()).position(|(a, b)| a != b).unwrap_or(p1.len().min(p2.len()));
            return Err((
                format!("C13/not-idempotent/{}", construct_at(&p1, off)),
                format!("second print differs at byte {off}: first {p1:?}, second {p2:?}"),
            ));
        }
        Ok(Trip::Fine(j1))
    });
    match r {
        Ok(Ok(t)) => t,
        Ok(Err((fp, what))) => Trip::Violation(fp, what),
        Err(p) => Trip::Violation(format!("C13/parse-panics/{}", panic_site(&p)), format!("parser panicked: {p}")),
    }
}

const CONSTRUCTS: [&str; 34] = [
    "targets", "Import", "Let", "Export", "interface", "world", "variant", "record", "flags", "enum", "alias", "resource",
    "constructor", "method", "use", "include", "named", "spread", "fill", "inferred", "nested", "access", "namedAccess",
    "rename", "tuple", "list", "option", "result", "borrow", "package", "func", "asId", "isStatic", "docs",
];

fn count_constructs(v: &Value, hits: &mut BTreeMap<&'static str, u64>) {
    match v {
        Value::Array(a) => a.iter().for_each(|x| count_constructs(x, hits)),
        Value::Object(o) => {
            for (k, x) in o {
                if let Some(c) = CONSTRUCTS.iter().find(|c| **c == k) {
                    let present = match (k.as_str(), x) {
                        ("docs", Value::Array(a)) => !a.is_empty(),
                        ("asId", Value::Null) => false,
                        ("isStatic", Value::Bool(b)) => *b,
                        _ => true,
                    };
                    if present {
                        *hits.entry(c).or_default() += 1;
                    }
                }
                count_constructs(x, hits);
            }
        }
        _ => {}
    }
}

#[derive(Default)]
struct Stats {
    texts: u64,
    round_trips: u64,
    by_kind: BTreeMap<&'static str, [u64; 2]>,
    hashes: Vec<u64>,
    nontrivial_hashes: Vec<u64>,
    constructs: BTreeMap<&'static str, u64>,
    violations: BTreeMap<String, (String, String, usize)>,
}

impl Stats {
    fn record(&mut self, kind: &'static str, text: &str) {
        self.texts += 1;
        let e = self.by_kind.entry(kind).or_default();
        e[0] += 1;
        match round_trip(text) {
            Trip::Rejected => return,
            Trip::Fine(j) => {
                let h = corpus::text_hash(text);
                self.hashes.push(h);
                if j["statements"].as_array().map_or(false, |a| !a.is_empty()) || j["directive"].get("targets").is_some() {
                    self.nontrivial_hashes.push(h);
                }
                count_constructs(&j, &mut self.constructs);
            }
            Trip::Violation(fp, what) => {
                self.hashes.push(corpus::text_hash(text));
                let v = self.violations.entry(fp).or_insert_with(|| (what.clone(), text.to_string(), 0));
                v.2 += 1;
                if text.len() < v.1.len() {
                    v.0 = what;
                    v.1 = text.to_string();
                }
            }
        }
        self.round_trips += 1;
        self.by_kind.get_mut(kind).unwrap()[1] += 1;
    }
    fn merge(&mut self, o: Stats) {
        self.texts += o.texts;
        self.round_trips += o.round_trips;
        for (k, v) in o.by_kind {
            let e = self.by_kind.entry(k).or_default();
            e[0] += v[0];
            e[1] += v[1];
        }
        self.hashes.extend(o.hashes);
        self.nontrivial_hashes.extend(o.nontrivial_hashes);
        for (k, v) in o.constructs {
            *self.constructs.entry(k).or_default() += v;
        }
        for (k, v) in o.violations {
            match self.violations.get_mut(&k) {
                None => {
                    self.violations.insert(k, v);
                }
                Some(e) => {
                    e.2 += v.2;
                    if v.1.len() < e.1.len() {
                        e.0 = v.0;
                        e.1 = v.1;
                    }
                }
            }
        }
    }
}

pub fn run(args: &[String]) -> ! {
    let mut ctx = Ctx::new("C13", "exploration", args);
    if let Some(case) = ctx.replay_case() {
        let text = case["text"].as_str().unwrap_or_else(|| mc_core::machinery_error("replay case needs `text`")).to_string();
        match round_trip(&text) {
            Trip::Rejected => println!("the parser rejects the text: nothing to round-trip"),
            Trip::Fine(_) => println!("round trip fine"),
            Trip::Violation(fp, what) => ctx.violation(fp, what, json!({"text": text})),
        }
        ctx.finish(Map::new(), vec![]);
    }
    let tier = ctx.tier();
    let (full_depth, depth, reps, pairs) = c12::bounds(tier);
    let shallow = corpus::base_docs(full_depth, reps, pairs);
    let deep = corpus::base_docs(depth, reps, None);
    let shallow_texts: std::collections::HashSet<String> = shallow.docs.iter().map(|b| corpus::join(&b.toks)).collect();
    let deep_only: Vec<&Base> = deep.docs.iter().filter(|b| !shallow_texts.contains(&corpus::join(&b.toks))).collect();
    let subs_full = corpus::substitutes();
    let subs_small = corpus::substitutes_small();
    let work: Vec<(&Base, &[String], corpus::TightScope)> = shallow
        .docs
        .iter()
        .map(|b| (b, &subs_full[..], c12::tight_scope(tier, true)))
        .chain(deep_only.iter().map(|b| (*b, &subs_small[..], c12::tight_scope(tier, false))))
        .collect();
    let two_gap = c12::two_gap_set(tier, reps);
    let parts: Vec<Stats> = work
        .par_chunks(16)
        .map(|chunk| {
            let mut st = Stats::default();
            let mut tight = Tight::default();
            for (b, subs, scope) in chunk {
                c12::family(b, subs, two_gap.contains(&corpus::join(&b.toks)), *scope, &mut tight, |kind, text| st.record(kind, &text));
                corpus::for_each_layout(&b.toks, &corpus::DOC_SEPARATORS, |t| st.record("doc-comment-layout", &t));
            }
            st
        })
        .collect();
    let mut st = Stats::default();
    for p in parts {
        st.merge(p);
    }
    let files = corpus::repo_files();
    for (_, text) in &files {
        st.record("repo-file", text);
    }

    let mut samples = mc_core::Samples::new(3);
    for b in [shallow.docs.get(shallow.docs.len() / 2), deep_only.last().copied()].into_iter().flatten() {
        let t = corpus::join(&b.toks);
        if let Ok(d) = Document::parse(&t) {
            let p = real::print(&d, &t);
            samples.offer(|| json!({"kind": "base", "text": t, "printed": p}));
        }
    }
    if let Some(b) = shallow.docs.get(shallow.docs.len() / 2) {
        let mut texts = Vec::new();
        corpus::for_each_layout(&b.toks, &corpus::DOC_SEPARATORS, |t| texts.push(t));
        if let Some(t) = texts.into_iter().find(|t| matches!(round_trip(t), Trip::Fine(j) if j.to_string().contains("\"docs\":[\""))) {
            let p = Document::parse(&t).map(|d| real::print(&d, &t)).unwrap_or_default();
            samples.offer(|| json!({"kind": "doc-comment-layout", "text": t, "printed": p}));
        }
    }

    for (fp, (what, text, count)) in &st.violations {
        ctx.merge(vec![mc_core::Violation {
            fingerprint: fp.clone(),
            what: format!("{what} — minimal input: {text:?}"),
            case: json!({"text": text}),
            count: *count,
        }]);
    }
    let mut all = std::mem::take(&mut st.hashes);
    all.sort_unstable();
    all.dedup();
    let mut nt = std::mem::take(&mut st.nontrivial_hashes);
    nt.sort_unstable();
    nt.dedup();
    let unprinted: Vec<&str> = CONSTRUCTS.iter().copied().filter(|c| !st.constructs.contains_key(c)).collect();

    let mut cov = Map::new();
    cov.insert("evaluations".into(), json!(st.round_trips));
    cov.insert("distinct_nontrivial".into(), json!(nt.len()));
    cov.insert("distinct_accepted_texts".into(), json!(all.len()));
    cov.insert("texts_offered_to_the_parser".into(), json!(st.texts));
    cov.insert(
        "rule".into(),
        json!(format!(
            "the C12 corpus at the same bound (spine-exhaustive E(X,{depth}) for every non-terminal, all single-token mutants, \
             subtree deletions, one-gap layout deviations{}; full substitute set to depth {full_depth}{}; {}), plus every one of {} doc-comment \
             forms at every gap of every base document, plus every .wac file under /repo/crates/*/tests and /repo/examples; \
             an evaluation = one text the parser accepts, round-tripped (parse, print, parse, compare, print, compare); \
             distinct_nontrivial = distinct accepted texts (64-bit SipHash) whose tree has at least one statement or a targets clause \
             and whose round trip held",
            if tier == mc_core::Tier::Thorough { format!(" and two-gap layout deviations of E(X,{})", c12::TWO_GAP_DEPTH) } else { String::new() },
            match pairs {
                Some(k) => format!(", ordered statement pairs of E(statement,{k})"),
                None => String::new(),
            },
            c12::tight_rule(if tier == mc_core::Tier::Quick { Some(full_depth) } else { None }),
            corpus::DOC_SEPARATORS.len()
        )),
    );
    cov.insert("exhaustive".into(), json!(true));
    cov.insert("cap_hit".into(), json!(false));
    cov.insert("bound_completed".into(), json!({"depth": depth, "depth_with_full_substitute_set": full_depth, "max_repetitions": reps, "statement_pair_depth": pairs}));
    cov.insert("base_documents".into(), json!(shallow.docs.len() + deep_only.len()));
    cov.insert("texts_by_kind_total_and_round_tripped".into(), json!(st.by_kind));
    let tight = c12::tight_by_kind(&st.by_kind);
    cov.insert("tight_layout_texts".into(), json!(tight.values().map(|v| v[0]).sum::<u64>()));
    cov.insert("tight_layout_texts_round_tripped".into(), json!(tight.values().map(|v| v[1]).sum::<u64>()));
    cov.insert("tight_layout_texts_by_kind_total_and_round_tripped".into(), json!(tight));
    cov.insert("per_construct_hits_in_round_tripped_trees".into(), json!(st.constructs));
    cov.insert("constructs_never_printed".into(), json!(unprinted));
    cov.insert("distinct_outcomes".into(), json!(1 + st.violations.len()));
    cov.insert("unspecified_cases".into(), json!(0));
    cov.insert("repo_wac_files".into(), json!(files.len()));
    cov.insert(
        "defect_classes".into(),
        json!(st.violations.iter().map(|(k, v)| json!({"fingerprint": k, "texts": v.2, "minimal": v.1})).collect::<Vec<_>>()),
    );
    cov.insert("samples".into(), json!(samples.items));
    ctx.finish(
        cov,
        vec![
            "tree identity is identity of the serde-serialised AST with span members removed and doc comments flattened to their non-empty trimmed lines (the statement's `up to source positions and doc-comment line splitting`)".into(),
            "only texts the parser accepts are round-tripped; whether it should accept them is C12's question".into(),
        ],
    )
}
