//! C14 (text half) — no input crashes the front end; locations are inside the source.
//!
//! Fault enumeration (E6 c) around the C12 corpus and the repository's `.wac` files:
//! every single-token mutant / subtree deletion / layout deviation, every prefix, every
//! single-character substitution by {NUL, `"`, `/`, DEL}, every insertion of one of 12
//! multi-byte scalars at every token boundary and at the end; and parametric nesting
//! families at depths 2^k (k = 1..17) executed in supervised worker processes (a worker
//! killed by a signal — stack overflow — or silent for 5 s is a violation).
//! Oracle: `Document::parse`, then for accepted texts `Document::resolve` with an empty
//! package set and `Resolution::encode`, return Ok or Err without panicking; every span of
//! the returned tree and every label of a returned error satisfies offset+len <= len with
//! both ends on character boundaries; every error renders with miette's graphical handler.

use crate::c12;
use crate::corpus::{self, Base, Tight};
use crate::real;
use crate::reference;
use indexmap::IndexMap;
use mc_core::{catch, panic_site, Ctx, Tier};
use miette::Diagnostic;
use rayon::prelude::*;
use serde_json::{json, Map, Value};
use std::collections::BTreeMap;
use std::io::Read;
use std::process::{Command, Stdio};
use wac_parser::Document;

/// What happened to one text (for the outcome statistics).
#[derive(Clone, Copy, PartialEq, Eq, PartialOrd, Ord, Debug)]
pub enum Outcome {
    ParseError,
    ResolveError,
    EncodeError,
    Encoded,
}

pub fn check_diagnostic<E: Diagnostic>(stage: &str, e: &E, src: &str, out: &mut Vec<(String, String)>) {
    check_diag(stage, e, src, out)
}

fn check_diag<E: Diagnostic>(stage: &str, e: &E, src: &str, out: &mut Vec<(String, String)>) {
    for sp in real::labels(e) {
        if let Some(d) = real::span_defect(src, sp) {
            out.push((format!("C14/{stage}-error/{d}"), format!("label {}+{} of `{e}` in a {}-byte source", sp.0, sp.1, src.len())));
        }
    }
    match catch(|| real::render_with_source(e, src)) {
        Err(p) => out.push((format!("C14/{stage}-error/render-panics/{}", panic_site(&p)), format!("rendering `{e}` panicked: {p}"))),
        Ok(r) if r.is_empty() => out.push((format!("C14/{stage}-error/render-empty"), format!("rendering `{e}` produced nothing"))),
        Ok(_) => {}
    }
}

/// Runs the front end on one text and applies the oracle.
pub fn probe(src: &str, deep: bool) -> (Option<Outcome>, Vec<(String, String)>) {
    // the supervised workers announce each stage so that the supervisor can tell where a worker died
    let stage = |s: &str| {
        if deep {
            use std::io::Write;
            println!("stage:{s}");
            let _ = std::io::stdout().flush();
        }
    };
    let mut v = Vec::new();
    stage("parse");
    let doc = match catch(|| Document::parse(src)) {
        Err(p) => {
            v.push((format!("C14/parse/panic/{}", panic_site(&p)), format!("Document::parse panicked: {p}")));
            return (None, v);
        }
        Ok(Err(e)) => {
            check_diag("parse", &e, src, &mut v);
            return (Some(Outcome::ParseError), v);
        }
        Ok(Ok(d)) => d,
    };
    if !deep {
        // (the deep families skip the recursive JSON walk: their trees would overflow the harness' own stack)
        let mut spans = Vec::new();
        real::collect_spans(&real::to_json(&doc), &mut spans);
        for sp in spans {
            if let Some(d) = real::span_defect(src, sp) {
                v.push((format!("C14/parse-tree/{d}"), format!("tree span {}+{} in a {}-byte source", sp.0, sp.1, src.len())));
                break;
            }
        }
    }
    stage("resolve");
    let res = match catch(|| doc.resolve(IndexMap::new())) {
        Err(p) => {
            v.push((format!("C14/resolve/panic/{}", panic_site(&p)), format!("Document::resolve (no packages) panicked: {p}")));
            return (None, v);
        }
        Ok(Err(e)) => {
            check_diag("resolve", &e, src, &mut v);
            return (Some(Outcome::ResolveError), v);
        }
        Ok(Ok(r)) => r,
    };
    stage("encode");
    match catch(|| res.encode(wac_graph::EncodeOptions::default())) {
        Err(p) => {
            v.push((format!("C14/encode/panic/{}", panic_site(&p)), format!("Resolution::encode panicked: {p}")));
            (None, v)
        }
        Ok(Err(e)) => {
            check_diag("encode", &e, src, &mut v);
            (Some(Outcome::EncodeError), v)
        }
        Ok(Ok(_)) => (Some(Outcome::Encoded), v),
    }
}

// ---------------------------------------------------------------- byte-level faults

const SUBST: [char; 4] = ['\0', '"', '/', '\u{7f}'];
/// additional substitutes of the thorough tier
const SUBST_MORE: [char; 5] = ['*', '\n', '%', '@', 'é'];
const INSERT: [char; 12] =
    ['é', '€', '😀', '\u{202e}', '\u{feff}', '\u{85}', '\u{a0}', '\u{2028}', '\u{149}', '\u{fffd}', '\u{10ffff}', '\u{301}'];

/// All prefixes, all single-character substitutions, all insertions at token boundaries.
fn for_each_byte_fault(src: &str, more: bool, mut f: impl FnMut(&'static str, String)) {
    // every proper prefix, the empty one included
    for (i, _) in src.char_indices() {
        f("prefix", src[..i].to_string());
    }
    for (i, c) in src.char_indices() {
        for s in SUBST.iter().copied().chain(SUBST_MORE.iter().copied().filter(|_| more)) {
            if s != c {
                let mut t = String::with_capacity(src.len());
                t.push_str(&src[..i]);
                t.push(s);
                t.push_str(&src[i + c.len_utf8()..]);
                f("substitute-character", t);
            }
        }
    }
    // token boundaries per the reference tokenizer (all char boundaries if it cannot tokenize)
    let mut cuts: Vec<usize> = match reference::tokenize(src) {
        Ok((toks, _)) => toks.iter().flat_map(|t| [t.start, t.end]).collect(),
        Err(_) => src.char_indices().map(|x| x.0).collect(),
    };
    cuts.push(0);
    cuts.push(src.len());
    cuts.sort_unstable();
    cuts.dedup();
    for i in cuts {
        for c in INSERT {
            let mut t = String::with_capacity(src.len() + 4);
            t.push_str(&src[..i]);
            t.push(c);
            t.push_str(&src[i..]);
            f("insert-scalar", t);
            // the input cut here and ending in a line comment whose last character is the scalar
            f("truncate-into-comment", format!("{}// {c}", &src[..i]));
        }
    }
}

/// Two more single faults around a base document:
/// * `same-identifier`: every identifier of the document becomes the same identifier (every
///   pair of names collides: duplicate definitions of every mix of kinds);
/// * `insert-scalar-after-non-ascii`: the scalar insertions again, in the document preceded by
///   a comment of multi-byte characters (offsets counted in characters and in bytes then differ).
fn for_each_collision_fault(src: &str, mut f: impl FnMut(&'static str, String)) {
    if let Ok((toks, _)) = reference::tokenize(src) {
        for name in ["x", "%use"] {
            let mut t = String::with_capacity(src.len());
            let mut last = 0;
            let mut ids = 0;
            for tok in &toks {
                if tok.kind == reference::Kind::Id {
                    t.push_str(&src[last..tok.start]);
                    t.push_str(name);
                    last = tok.end;
                    ids += 1;
                }
            }
            t.push_str(&src[last..]);
            if ids >= 2 {
                f("same-identifier", t);
            }
        }
    }
    let prefixed = format!("// \u{e9}\u{20ac}\u{1f600}\n{src}");
    let mut cuts: Vec<usize> = match reference::tokenize(&prefixed) {
        Ok((toks, _)) => toks.iter().flat_map(|t| [t.start, t.end]).collect(),
        Err(_) => vec![],
    };
    cuts.push(prefixed.len());
    cuts.sort_unstable();
    cuts.dedup();
    for i in cuts {
        for c in INSERT {
            let mut t = String::with_capacity(prefixed.len() + 4);
            t.push_str(&prefixed[..i]);
            t.push(c);
            t.push_str(&prefixed[i..]);
            f("insert-scalar-after-non-ascii", t);
        }
    }
}

/// Every ordered pair of items that define the SAME name `x`, in an interface, in a world and
/// at the top level, and every kind of let-bound item in every top-level position that takes a
/// name: each mix of kinds must be accepted or rejected with a diagnostic.
pub fn name_collision_documents() -> Vec<String> {
    let pre = "package a:b;\ninterface i0 { type x = u8; }\n";
    let iface_items = [
        "x: func();", "type x = u32;", "record x { a: u8 }", "variant x { a }", "enum x { a }", "flags x { a }", "resource x;",
        "resource x { constructor(); x: func(); }", "use i0.{x};", "use i0.{x as y}; y: func();",
    ];
    let world_items = [
        "import x: func();", "export x: func();", "type x = u32;", "record x { a: u8 }", "resource x;", "use i0.{x};",
        "import x: interface { x: func(); };", "export x: interface { type x = u8; };", "import i0;", "include w0;",
    ];
    let top_items = [
        "import x: func();", "type x = u32;", "record x { a: u8 }", "resource x;", "interface x { x: func(); }", "world x { import x: func(); }",
        "let x = new c:d { ... };", "export x;", "import y as x: func();", "import x: i0;",
    ];
    let mut out = Vec::new();
    // every kind of item reached through an instance import and bound with `let`, used in every
    // top-level position that takes a name
    let bound = [("r", "resource r;"), ("t", "record t { a: u8 }"), ("e", "enum e { a }"), ("f", "f: func();"), ("n", "type n = u32;")];
    let uses = [
        "type x = {N};", "record x { a: {N} }", "variant x { a({N}) }", "type x = list<{N}>;", "type x = option<{N}>;", "type x = borrow<{N}>;",
        "type x = func(a: {N});", "type x = func() -> {N};", "import g: func(a: {N});", "import g: {N};", "export {N} as q;", "export {N};",
        "interface j { use {N}.{a}; }", "world v { import g: func(a: {N}); }", "let y = {N}.a;", "let y = new c:d { a: {N} };",
    ];
    for (name, decl) in bound {
        for u in uses {
            out.push(format!("package a:b;\nimport i: interface {{ {decl} }};\nlet {name} = i.{name};\n{}\n", u.replace("{N}", name)));
        }
    }
    // package paths of one to three segments into the document's own package, landing on every
    // kind of item (interface, world, function, type, resource, inline interface of a world,
    // nothing), in every position that takes a package path
    let decls = "interface i0 { type x = u8; f: func(); resource r; }\nworld w0 { import f: func(); export x: interface { f: func(); }; import i0; export g: func(); import y: interface { type t = u8; }; }\n";
    let paths = [
        "a:b/i0", "a:b/w0", "a:b/w0/x", "a:b/w0/y", "a:b/w0/f", "a:b/w0/g", "a:b/w0/i0", "a:b/i0/x", "a:b/i0/f", "a:b/i0/r", "a:b/nope", "a:b/w0/nope",
        "a:b/i0/x/y", "a:b/w0/x/f", "a:b/w0/y/t",
    ];
    let positions = [
        "import z: {P};", "world v { import {P}; }", "world v { export {P}; }", "interface j { use {P}.{x}; }", "interface j { use {P}.{t}; }",
        "world v { include {P}; }", "world v { use {P}.{x}; }", "import z: interface { use {P}.{x}; };",
    ];
    for path in paths {
        for pos in positions {
            out.push(format!("package a:b;\n{decls}{}\n", pos.replace("{P}", path)));
        }
        out.push(format!("package a:b targets {path};\n{decls}"));
    }
    for a in iface_items {
        for b in iface_items {
            out.push(format!("{pre}interface i {{ {a} {b} }}\n"));
        }
    }
    for a in world_items {
        for b in world_items {
            out.push(format!("{pre}world w0 {{ import x: func(); }}\nworld w {{ {a} {b} }}\n"));
        }
    }
    for a in top_items {
        for b in top_items {
            out.push(format!("{pre}{a}\n{b}\n"));
        }
    }
    out
}

// ---------------------------------------------------------------- nesting families (supervised)

pub const FAMILIES: [&str; 11] = [
    "paren", "list", "option-tuple", "block-comment", "access-chain", "named-access-chain", "new", "open-paren", "open-angle",
    "long-line", "many-statements",
];

/// The recursion a family drives (fingerprints name the cause, not the family).
fn recursion_of(family: &str) -> &str {
    match family {
        "paren" | "new" | "open-paren" => "expr-recursion",
        "list" | "option-tuple" | "open-angle" => "type-recursion",
        f => f,
    }
}

pub fn family_text(family: &str, n: usize) -> String {
    match family {
        "paren" => format!("package a:b; import x: func(); let y = {}x{};", "(".repeat(n), ")".repeat(n)),
        "list" => format!("package a:b; type t = {}u8{};", "list<".repeat(n), ">".repeat(n)),
        "option-tuple" => format!("package a:b; type t = {}u8{};", "option<tuple<".repeat(n), ">>".repeat(n)),
        "block-comment" => format!("package a:b; {} c {} type t = u8;", "/*".repeat(n), "*/".repeat(n)),
        "access-chain" => format!("package a:b; import x: func(); let y = x{};", ".b".repeat(n)),
        "named-access-chain" => format!("package a:b; import x: func(); let y = x{};", "[\"b\"]".repeat(n)),
        "new" => format!("package a:b; let y = {}z{};", "new p:q { x: ".repeat(n), " }".repeat(n)),
        "open-paren" => format!("package a:b; let y = {}", "(".repeat(n)),
        "open-angle" => format!("package a:b; type t = {}", "list<".repeat(n)),
        // not nesting but size: an error at column n of one line, and n statements
        "long-line" => format!("package a:b; let y = {});", " ".repeat(n)),
        "many-statements" => {
            let mut s = String::from("package a:b;");
            for i in 0..n {
                s.push_str(&format!(" type t{i} = u8;"));
            }
            s
        }
        _ => mc_core::machinery_error(&format!("unknown nesting family {family}")),
    }
}

/// Hidden subcommand `__c14-worker <family> <depth>`: runs the oracle on one family member
/// on a thread with the default 8 MiB main-thread stack and reports on stdout.
pub fn worker(args: &[String]) -> ! {
    let family = args.first().cloned().unwrap_or_default();
    let n: usize = args.get(1).and_then(|s| s.parse().ok()).unwrap_or(1);
    let h = std::thread::Builder::new()
        .stack_size(8 << 20)
        .spawn(move || {
            let text = family_text(&family, n);
            let (outcome, v) = probe(&text, true);
            // (dropping a deep tree recurses as well: it happens inside `probe`, i.e. before the report)
            println!("{}", json!({"outcome": format!("{outcome:?}"), "violations": v}));
        })
        .expect("spawn");
    let _ = h.join();
    std::process::exit(0)
}

/// Runs one family member in a supervised child. Ok(json line) or Err(how it died).
fn supervise(family: &str, n: usize) -> Result<Value, String> {
    let exe = std::env::current_exe().unwrap_or_else(|e| mc_core::machinery_error(&format!("current_exe: {e}")));
    let mut child = Command::new(exe)
        .args(["__c14-worker", family, &n.to_string()])
        .stdout(Stdio::piped())
        .stderr(Stdio::null())
        .spawn()
        .unwrap_or_else(|e| mc_core::machinery_error(&format!("cannot spawn worker: {e}")));
    // 5 s horizon, measured in CPU time of the worker (utime+stime from /proc/<pid>/stat, USER_HZ = 100) so that the
    // verdict does not depend on machine load; 120 s of wall clock without that much CPU is a machinery error
    let start = std::time::Instant::now();
    let pid = child.id();
    let cpu_seconds = || -> f64 {
        let stat = std::fs::read_to_string(format!("/proc/{pid}/stat")).unwrap_or_default();
        let rest = stat.rsplit_once(") ").map_or("", |x| x.1);
        let f: Vec<&str> = rest.split_whitespace().collect();
        let t = |i: usize| f.get(i).and_then(|x| x.parse::<f64>().ok()).unwrap_or(0.0);
        (t(11) + t(12)) / 100.0
    };
    // drain stdout on a thread so that a chatty worker cannot block on a full pipe
    let mut stdout = child.stdout.take();
    let reader = std::thread::spawn(move || {
        let mut out = String::new();
        if let Some(o) = stdout.as_mut() {
            let _ = o.read_to_string(&mut out);
        }
        out
    });
    let status = loop {
        match child.try_wait() {
            Ok(Some(s)) => break s,
            Ok(None) if cpu_seconds() > 5.0 => {
                let _ = child.kill();
                let _ = child.wait();
                let out = reader.join().unwrap_or_default();
                let last = out.lines().filter_map(|l| l.strip_prefix("stage:")).last().unwrap_or("start").to_string();
                return Err(format!("{last}/no-answer-within-5s-of-cpu-time"));
            }
            Ok(None) if start.elapsed().as_secs() > 120 => {
                let _ = child.kill();
                mc_core::machinery_error(&format!("worker {family}/{n} used < 5 s of CPU in 120 s of wall clock"));
            }
            Ok(None) => std::thread::sleep(std::time::Duration::from_millis(5)),
            Err(e) => mc_core::machinery_error(&format!("wait: {e}")),
        }
    };
    let out = reader.join().unwrap_or_default();
    let last_stage = out.lines().filter_map(|l| l.strip_prefix("stage:")).last().unwrap_or("start").to_string();
    if !status.success() {
        use std::os::unix::process::ExitStatusExt;
        return Err(match status.signal() {
            Some(6) => format!("{last_stage}/aborted-SIGABRT(stack-overflow)"),
            Some(11) => format!("{last_stage}/killed-SIGSEGV"),
            Some(s) => format!("{last_stage}/killed-by-signal-{s}"),
            None => format!("{last_stage}/exit-code-{}", status.code().unwrap_or(-1)),
        });
    }
    let report = out.lines().filter(|l| !l.starts_with("stage:")).last().unwrap_or("");
    serde_json::from_str(report).map_err(|_| format!("{last_stage}/worker-exited-without-report"))
}

fn nesting_violations(family: &str, n: usize) -> (String, Vec<(String, String)>) {
    match supervise(family, n) {
        Err(how) => (
            how.clone(),
            vec![(
                format!("C14/nesting/{}/{how}", recursion_of(family)),
                format!("front end on the `{family}` family at depth {n}: worker {how}"),
            )],
        ),
        Ok(v) => {
            let vs = v["violations"]
                .as_array()
                .cloned()
                .unwrap_or_default()
                .iter()
                .map(|x| (x[0].as_str().unwrap_or("").to_string(), format!("`{family}` family at depth {n}: {}", x[1].as_str().unwrap_or(""))))
                .collect();
            (v["outcome"].as_str().unwrap_or("?").to_string(), vs)
        }
    }
}

// ---------------------------------------------------------------- run

#[derive(Default)]
struct Stats {
    evaluations: u64,
    by_kind: BTreeMap<&'static str, u64>,
    outcomes: BTreeMap<String, u64>,
    hashes: Vec<u64>,
    violations: BTreeMap<String, (String, String, usize)>,
}

impl Stats {
    fn record(&mut self, kind: &'static str, text: &str) {
        self.evaluations += 1;
        *self.by_kind.entry(kind).or_default() += 1;
        self.hashes.push(corpus::text_hash(text));
        let (outcome, vs) = probe(text, false);
        *self.outcomes.entry(outcome.map_or("crashed".to_string(), |o| format!("{o:?}"))).or_default() += 1;
        for (fp, what) in vs {
            let v = self.violations.entry(fp).or_insert_with(|| (what.clone(), text.to_string(), 0));
            v.2 += 1;
            if text.len() < v.1.len() {
                v.0 = what;
                v.1 = text.to_string();
            }
        }
    }
    fn merge(&mut self, o: Stats) {
        self.evaluations += o.evaluations;
        for (k, v) in o.by_kind {
            *self.by_kind.entry(k).or_default() += v;
        }
        for (k, v) in o.outcomes {
            *self.outcomes.entry(k).or_default() += v;
        }
        self.hashes.extend(o.hashes);
        for (k, v) in o.violations {
            match self.violations.get_mut(&k) {
                None => {
                    self.violations.insert(k, v);
                }
                Some(e) => {
                    e.2 += v.2;
                    if v.1.len() < e.1.len() {
                        e.0 = v.0;
                        e.1 = v.1;
                    }
                }
            }
        }
    }
}

pub fn run(args: &[String]) -> ! {
    let mut ctx = Ctx::new("C14", "fault_enumeration", args);
    if let Some(case) = ctx.replay_case() {
        let case = case.clone();
        let vs = if case.get("seed").is_some() {
            crate::c14_bytes::replay(&case)
        } else if case["kind"] == "pairing" {
            let p = crate::c14_bytes::pairings(if case["tier"] == "thorough" { Tier::Thorough } else { Tier::Quick });
            p.violations.into_iter().filter(|(_, _, c)| c["document"] == case["document"] && c["variant"] == case["variant"]).map(|(f, w, _)| (f, w)).collect()
        } else if case["kind"] == "version-list" {
            let p = crate::c14_bytes::pairings(Tier::Thorough);
            p.violations.into_iter().filter(|(_, _, c)| c["kind"] == "version-list" && c["text"] == case["text"]).map(|(f, w, _)| (f, w)).collect()
        } else if let Some(fam) = case["family"].as_str() {
            nesting_violations(fam, case["depth"].as_u64().unwrap_or(1) as usize).1
        } else {
            let text = case["text"].as_str().unwrap_or_else(|| mc_core::machinery_error("replay case needs `text` or `family`+`depth`"));
            probe(text, false).1
        };
        for (fp, what) in vs {
            ctx.violation(fp, what, case.clone());
        }
        ctx.finish(Map::new(), vec![]);
    }
    let tier = ctx.tier();
    // token-level faults: the C12 families one level shallower than C12's own tier; byte-level faults on their base documents
    let (depth, reps, pairs) = match tier {
        Tier::Quick => (3, 2, None),
        Tier::Thorough => (5, 2, Some(3)),
    };
    let more = tier == Tier::Thorough;
    let set = corpus::base_docs(depth, reps, pairs);
    let subs = corpus::substitutes();
    // (every document of this check's corpus gets the full substitute set, hence the full tight rendering, in both tiers)
    let scope = c12::tight_scope(tier, true);
    let parts: Vec<Stats> = set
        .docs
        .par_chunks(32)
        .map(|chunk: &[Base]| {
            let mut st = Stats::default();
            let mut tight = Tight::default();
            for b in chunk {
                c12::family(b, &subs, false, scope, &mut tight, |kind, text| st.record(kind, &text));
                for_each_byte_fault(&corpus::join(&b.toks), more, |kind, text| st.record(kind, &text));
                for_each_collision_fault(&corpus::join(&b.toks), |kind, text| st.record(kind, &text));
            }
            st
        })
        .collect();
    let mut st = Stats::default();
    for p in parts {
        st.merge(p);
    }
    let files = corpus::repo_files();
    let parts: Vec<Stats> = files
        .par_iter()
        .map(|(_, text)| {
            let mut st = Stats::default();
            st.record("repo-file", text);
            for_each_byte_fault(text, more, |kind, t| {
                st.record(match kind {
                    "prefix" => "repo-file-prefix",
                    "substitute-character" => "repo-file-substitute-character",
                    "truncate-into-comment" => "repo-file-truncate-into-comment",
                    _ => "repo-file-insert-scalar",
                }, &t)
            });
            st
        })
        .collect();
    for p in parts {
        st.merge(p);
    }
    for (_, text) in corpus::codepoint_sweep() {
        st.record("code-point", &text);
    }
    for text in name_collision_documents() {
        st.record("name-collision-pair", &text);
    }

    // nesting families, supervised (run in parallel, merged in (family, depth) order)
    // (`many-statements` is a size family, not a nesting family: resolution is quadratic in the number of type
    // definitions — slow, but not "forever" — so it stops at 2^10 statements, ~0.3 s of CPU, far from the horizon)
    let cases: Vec<(&str, usize)> = FAMILIES
        .iter()
        .flat_map(|f| (1..=if *f == "many-statements" { 10 } else { 17 }).map(move |k| (*f, 1usize << k)))
        .collect();
    let results: Vec<(String, Vec<(String, String)>)> = cases.par_iter().map(|(f, n)| nesting_violations(f, *n)).collect();
    let mut nesting: BTreeMap<&str, Vec<Value>> = BTreeMap::new();
    let mut nesting_violation_list = Vec::new();
    for ((f, n), (outcome, vs)) in cases.iter().zip(results) {
        nesting.entry(f).or_default().push(json!([n, outcome]));
        st.evaluations += 1;
        *st.by_kind.entry("nesting-family-member").or_default() += 1;
        *st.outcomes.entry(format!("nesting:{outcome}")).or_default() += 1;
        st.hashes.push(corpus::text_hash(&format!("{f}/{n}")));
        for (fp, what) in vs {
            nesting_violation_list.push((fp, what, json!({"family": f, "depth": n})));
        }
    }

    for (fp, (what, text, count)) in &st.violations {
        ctx.merge(vec![mc_core::Violation {
            fingerprint: fp.clone(),
            what: format!("{what} — minimal input: {text:?}"),
            case: json!({"text": text}),
            count: *count,
        }]);
    }
    // smallest depth first, so that the recorded case of each fingerprint is the minimal one
    nesting_violation_list.sort_by_key(|(fp, _, case)| (case["depth"].as_u64(), fp.clone()));
    for (fp, what, case) in nesting_violation_list {
        ctx.violation(fp, what, case);
    }
    let mut all = std::mem::take(&mut st.hashes);
    all.sort_unstable();
    all.dedup();

    let mut samples = mc_core::Samples::new(4);
    if let Some(b) = set.docs.get(set.docs.len() / 2) {
        let t = corpus::join(&b.toks);
        let mut faults = Vec::new();
        for_each_byte_fault(&t, more, |k, x| faults.push((k, x)));
        for k in ["prefix", "substitute-character", "insert-scalar"] {
            if let Some((_, x)) = faults.iter().filter(|f| f.0 == k).nth(7) {
                let o = probe(x, false).0;
                samples.offer(|| json!({"fault": k, "of": t, "text": x, "outcome": format!("{o:?}")}));
            }
        }
    }
    samples.offer(|| json!({"family": "new", "depth": 2, "text": family_text("new", 2)}));

    // byte half: package byte strings and document/package pairings
    let sw = crate::c14_bytes::sweep(tier);
    for (fp, what, case) in sw.violations {
        ctx.violation(fp, what, case);
    }
    let pairings = crate::c14_bytes::pairings(tier);
    let (pairings_cases, pairings_resolved) = (pairings.cases, pairings.resolved);
    for (fp, what, mut case) in pairings.violations {
        case["tier"] = json!(tier.as_str());
        ctx.violation(fp, what, case);
    }

    let mut cov = Map::new();
    cov.insert("evaluations".into(), json!(st.evaluations + sw.cases + pairings_cases));
    cov.insert("distinct_nontrivial".into(), json!(all.len() as u64 + sw.decoded + pairings_resolved));
    cov.insert("byte_half".into(), json!({"package_byte_strings": sw.cases, "decoded_as_packages": sw.decoded, "decoded_and_encoded_in_both_modes": sw.encoded, "cases_by_seed": sw.by_seed,
        "document_package_pairings": pairings_cases, "pairings_that_resolve": pairings_resolved}));
    cov.insert(
        "rule".into(),
        json!(format!(
            "fault enumeration around {} grammar-derived base documents (spine-exhaustive E(X,{depth}) for every non-terminal, R={reps}; thorough: plus ordered statement pairs) and {} \
             repository .wac files: all single-token deletions/duplications/swaps/substitutions ({} substitutes), subtree deletions and one-gap \
             layout deviations of the base documents; {}; for base documents and repository files all prefixes (character boundaries), all \
             single-character substitutions by NUL, `\"`, `/`, DEL{}, all insertions of 12 multi-byte scalars at every token boundary and at the end; \
             the code-point sweep; {} nesting families at depths 2^1..2^17 in supervised workers (8 MiB stack, 5 s horizon). \
             distinct_nontrivial = distinct inputs (64-bit SipHash); every input is exactly one fault away from a well-formed or repository text",
            set.docs.len(),
            files.len(),
            subs.len(),
            c12::tight_rule(None),
            if more { " and `*`, LF, `%`, `@`, `é`" } else { "" },
            FAMILIES.len()
        )),
    );
    cov.insert("exhaustive".into(), json!(true));
    cov.insert("cap_hit".into(), json!(false));
    cov.insert("bound_completed".into(), json!({"depth": depth, "max_repetitions": reps, "statement_pair_depth": pairs, "max_nesting": 1 << 17}));
    cov.insert("inputs_by_fault_kind".into(), json!(st.by_kind));
    let tight = c12::tight_by_kind(&st.by_kind);
    cov.insert("tight_layout_texts".into(), json!(tight.values().sum::<u64>()));
    cov.insert("tight_layout_texts_by_kind".into(), json!(tight));
    cov.insert("outcomes".into(), json!(st.outcomes));
    cov.insert("distinct_outcomes".into(), json!(st.outcomes.len()));
    cov.insert("nesting_families".into(), json!(nesting));
    cov.insert("unspecified_cases".into(), json!(0));
    cov.insert("repo_wac_files".into(), json!(files.len()));
    cov.insert("samples".into(), json!(samples.items));
    ctx.finish(
        cov,
        vec![
            "text half: every accepted text is resolved against the empty package set and, if that succeeds, encoded with default options; byte half: every prefix, single-bit flip and single-byte substitution by {00,01,7F,80,FF} of the library components and repository fixtures is decoded with Package::from_bytes (and, when it decodes, instantiated and encoded in both modes) in supervised worker processes; pairings: 5 documents x each referenced package {missing, replaced by each other package, 50/400 evenly spaced byte mutants}; version lists: every ordered list of 1..3 (thorough 4) of the 13 packages of the versioned-import library instantiated with implicit arguments".into(),
            "in-process cases are run under catch_unwind; inputs that can exhaust the stack (nesting families) run in supervised worker processes on a thread with an 8 MiB stack".into(),
            "`&str` inputs only: byte faults that would produce invalid UTF-8 are not representable and are replaced by whole-character substitutions".into(),
        ],
    )
}
