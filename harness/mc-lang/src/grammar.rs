//! E4 — the EBNF of LANGUAGE.md as data, and the derivation enumerator.
//!
//! The rules are transcribed line by line from the "WAC Grammar" chapter. Lexical rules
//! (`id`, `string`, `package-name`, `package-path`, `version`) are terminals. Two
//! adjustments (R1, both only widen the language): `instantiation-args` is the clarified
//! form of DESIGN.md §5 C12, and `param-list` (used by `constructor` but never defined in
//! the EBNF) is read as `'(' params? ')'`, the parameter list of `func-type`.
//!
//! Enumeration ("spine-exhaustive to depth d"): E(X, 1) = every *shape* of X's rule —
//! every choice of alternative, every optional present/absent, every repetition 0..=R
//! times — with every nested non-terminal replaced by its minimal derivation;
//! E(X, d) = E(X, 1) plus, for every shape and every non-terminal slot of it, every
//! derivation of E(slot, d-1) in that slot with the sibling slots minimal. So every chain
//! of up to d nested productions appears with every shape of every production on it;
//! products of independent sibling choices are not taken (they are what makes the full
//! depth-bounded set astronomically large: > 10^6 derivations of `type` alone at depth 3).
//! Each non-terminal X is embedded in the shortest context that leads from `document` to X.

use std::cell::RefCell;
use std::collections::{BTreeMap, HashMap, HashSet};
use std::rc::Rc;

#[derive(Clone, Debug, PartialEq, Eq, Hash, PartialOrd, Ord)]
pub enum T {
    L(&'static str),
    Id,
    Str,
    PkgName,
    PkgPath,
}

#[derive(Clone, Debug)]
pub enum G {
    T(T),
    N(&'static str),
    Seq(Vec<G>),
    Alt(Vec<G>),
    Opt(Box<G>),
    Star(Box<G>),
}

#[derive(Clone, Debug, PartialEq, Eq, Hash)]
pub enum Slot {
    T(T),
    N(&'static str),
}

fn l(s: &'static str) -> G {
    G::T(T::L(s))
}
fn n(s: &'static str) -> G {
    G::N(s)
}
fn seq(v: Vec<G>) -> G {
    G::Seq(v)
}
fn alt(v: Vec<G>) -> G {
    G::Alt(v)
}
fn opt(g: G) -> G {
    G::Opt(Box::new(g))
}
fn star(g: G) -> G {
    G::Star(Box::new(g))
}
const ID: G = G::T(T::Id);
const STR: G = G::T(T::Str);
const PKG_NAME: G = G::T(T::PkgName);
const PKG_PATH: G = G::T(T::PkgPath);

/// `x (',' x)* ','?`
fn comma_list(x: G) -> G {
    seq(vec![x.clone(), star(seq(vec![l(","), x])), opt(l(","))])
}

pub fn rules() -> Vec<(&'static str, G)> {
    let prims = ["u8", "s8", "u16", "s16", "u32", "s32", "u64", "s64", "f32", "f64", "char", "bool", "string"];
    let mut ty: Vec<G> = prims.iter().map(|p| l(p)).collect();
    ty.extend([n("tuple"), n("list"), n("option"), n("result"), n("borrow"), ID]);
    vec![
        ("document", seq(vec![n("package-decl"), star(n("statement"))])),
        ("statement", alt(vec![n("import-statement"), n("type-statement"), n("let-statement"), n("export-statement")])),
        ("package-decl", seq(vec![l("package"), PKG_NAME, opt(seq(vec![l("targets"), PKG_PATH])), l(";")])),
        (
            "import-statement",
            seq(vec![l("import"), ID, opt(seq(vec![l("as"), alt(vec![ID, STR])])), l(":"), n("import-type"), l(";")]),
        ),
        ("import-type", alt(vec![PKG_PATH, n("func-type"), n("inline-interface"), ID])),
        ("type-statement", alt(vec![n("interface-decl"), n("world-decl"), n("type-decl")])),
        ("interface-decl", seq(vec![l("interface"), ID, l("{"), star(n("interface-item")), l("}")])),
        ("interface-item", alt(vec![n("use-type"), n("item-type-decl"), n("interface-export")])),
        ("use-type", seq(vec![l("use"), n("use-path"), l("."), l("{"), n("use-items"), l("}"), l(";")])),
        ("use-path", alt(vec![PKG_PATH, ID])),
        ("use-items", comma_list(n("use-item"))),
        ("use-item", seq(vec![ID, opt(seq(vec![l("as"), ID]))])),
        ("interface-export", seq(vec![ID, l(":"), n("func-type-ref"), l(";")])),
        ("world-decl", seq(vec![l("world"), ID, l("{"), star(n("world-item")), l("}")])),
        (
            "world-item",
            alt(vec![n("use-type"), n("item-type-decl"), n("world-import"), n("world-export"), n("world-include")]),
        ),
        ("world-import", seq(vec![l("import"), n("world-item-path"), l(";")])),
        ("world-export", seq(vec![l("export"), n("world-item-path"), l(";")])),
        ("world-item-path", alt(vec![n("named-world-item"), PKG_PATH, ID])),
        ("named-world-item", seq(vec![ID, l(":"), n("extern-type")])),
        ("extern-type", alt(vec![n("func-type"), n("inline-interface"), ID])),
        ("inline-interface", seq(vec![l("interface"), l("{"), star(n("interface-item")), l("}")])),
        (
            "world-include",
            seq(vec![
                l("include"),
                n("world-ref"),
                opt(seq(vec![l("with"), l("{"), n("world-include-items"), l("}")])),
                l(";"),
            ]),
        ),
        ("world-include-items", comma_list(n("world-include-item"))),
        ("world-include-item", seq(vec![ID, l("as"), ID])),
        ("world-ref", alt(vec![PKG_PATH, ID])),
        ("type-decl", alt(vec![n("variant-decl"), n("record-decl"), n("flags-decl"), n("enum-decl"), n("type-alias")])),
        ("item-type-decl", alt(vec![n("resource-decl"), n("type-decl")])),
        (
            "resource-decl",
            seq(vec![l("resource"), ID, alt(vec![l(";"), seq(vec![l("{"), star(n("resource-item")), l("}")])])]),
        ),
        ("resource-item", alt(vec![n("constructor"), n("method")])),
        ("constructor", seq(vec![l("constructor"), l("("), opt(n("params")), l(")"), l(";")])),
        ("method", seq(vec![ID, l(":"), opt(l("static")), n("func-type"), l(";")])),
        ("variant-decl", seq(vec![l("variant"), ID, l("{"), n("variant-cases"), l("}")])),
        ("variant-cases", comma_list(n("variant-case"))),
        ("variant-case", seq(vec![ID, opt(seq(vec![l("("), n("type"), l(")")]))])),
        ("record-decl", seq(vec![l("record"), ID, l("{"), n("fields"), l("}")])),
        ("fields", comma_list(n("named-type"))),
        ("flags-decl", seq(vec![l("flags"), ID, l("{"), n("ids"), l("}")])),
        ("ids", comma_list(ID)),
        ("enum-decl", seq(vec![l("enum"), ID, l("{"), n("ids"), l("}")])),
        ("type-alias", seq(vec![l("type"), ID, l("="), alt(vec![n("func-type"), n("type")]), l(";")])),
        ("func-type-ref", alt(vec![n("func-type"), ID])),
        ("func-type", seq(vec![l("func"), l("("), opt(n("params")), l(")"), opt(seq(vec![l("->"), n("results")]))])),
        ("params", comma_list(n("named-type"))),
        ("results", alt(vec![n("type"), seq(vec![l("("), comma_list(n("named-type")), l(")")])])),
        ("named-type", seq(vec![ID, l(":"), n("type")])),
        ("type", alt(ty)),
        ("tuple", seq(vec![l("tuple"), l("<"), comma_list(n("type")), l(">")])),
        ("list", seq(vec![l("list"), l("<"), n("type"), l(">")])),
        ("option", seq(vec![l("option"), l("<"), n("type"), l(">")])),
        (
            "result",
            alt(vec![
                l("result"),
                seq(vec![l("result"), l("<"), n("type"), l(">")]),
                seq(vec![l("result"), l("<"), l("_"), l(","), n("type"), l(">")]),
                seq(vec![l("result"), l("<"), n("type"), l(","), n("type"), l(">")]),
            ]),
        ),
        ("borrow", seq(vec![l("borrow"), l("<"), n("type"), l(">")])),
        ("let-statement", seq(vec![l("let"), ID, l("="), n("expr"), l(";")])),
        ("expr", seq(vec![n("primary-expr"), star(n("postfix-expr"))])),
        ("primary-expr", alt(vec![n("new-expr"), n("nested-expr"), ID])),
        ("new-expr", seq(vec![l("new"), PKG_NAME, l("{"), n("instantiation-args"), l("}")])),
        ("instantiation-args", opt(comma_list(n("instantiation-arg")))),
        ("instantiation-arg", alt(vec![ID, seq(vec![l("..."), ID]), l("..."), n("named-instantiation-arg")])),
        ("named-instantiation-arg", seq(vec![alt(vec![ID, STR]), l(":"), n("expr")])),
        ("nested-expr", seq(vec![l("("), n("expr"), l(")")])),
        ("postfix-expr", alt(vec![n("access-expr"), n("named-access-expr")])),
        ("access-expr", seq(vec![l("."), ID])),
        ("named-access-expr", seq(vec![l("["), STR, l("]")])),
        ("export-statement", seq(vec![l("export"), n("expr"), opt(n("export-options")), l(";")])),
        ("export-options", alt(vec![l("..."), seq(vec![l("as"), alt(vec![ID, STR])])])),
    ]
}

pub struct Grammar {
    pub rules: Vec<(&'static str, G)>,
    shapes: HashMap<&'static str, Vec<Vec<Slot>>>,
    min: HashMap<&'static str, Vec<T>>,
    memo: RefCell<HashMap<(&'static str, usize), Rc<Vec<Vec<T>>>>>,
}

fn shapes_of(g: &G, reps: usize) -> Vec<Vec<Slot>> {
    match g {
        G::T(t) => vec![vec![Slot::T(t.clone())]],
        G::N(x) => vec![vec![Slot::N(x)]],
        G::Alt(v) => v.iter().flat_map(|g| shapes_of(g, reps)).collect(),
        G::Opt(g) => {
            let mut out = vec![vec![]];
            out.extend(shapes_of(g, reps));
            out
        }
        G::Seq(v) => {
            let mut out: Vec<Vec<Slot>> = vec![vec![]];
            for g in v {
                let part = shapes_of(g, reps);
                let mut next = Vec::new();
                for o in &out {
                    for p in &part {
                        let mut x = o.clone();
                        x.extend(p.iter().cloned());
                        next.push(x);
                    }
                }
                out = next;
            }
            out
        }
        G::Star(g) => {
            let part = shapes_of(g, reps);
            let mut out: Vec<Vec<Slot>> = vec![vec![]];
            let mut last: Vec<Vec<Slot>> = vec![vec![]];
            for _ in 0..reps {
                let mut next = Vec::new();
                for o in &last {
                    for p in &part {
                        let mut x = o.clone();
                        x.extend(p.iter().cloned());
                        next.push(x);
                    }
                }
                out.extend(next.iter().cloned());
                last = next;
            }
            out
        }
    }
}

impl Grammar {
    /// `reps` = R, the maximum repetition count of a `*` group.
    pub fn new(reps: usize) -> Grammar {
        let rules = rules();
        let mut shapes = HashMap::new();
        for (name, g) in &rules {
            let mut seen = HashSet::new();
            let s: Vec<Vec<Slot>> = shapes_of(g, reps).into_iter().filter(|s| seen.insert(s.clone())).collect();
            shapes.insert(*name, s);
        }
        // minimal derivations: least fixpoint on token count, first shape wins ties
        let mut min: HashMap<&'static str, Vec<T>> = HashMap::new();
        loop {
            let mut changed = false;
            for (name, _) in &rules {
                for shape in &shapes[name] {
                    let mut toks = Vec::new();
                    let mut ok = true;
                    for s in shape {
                        match s {
                            Slot::T(t) => toks.push(t.clone()),
                            Slot::N(x) => match min.get(x) {
                                Some(m) => toks.extend(m.iter().cloned()),
                                None => {
                                    ok = false;
                                    break;
                                }
                            },
                        }
                    }
                    if ok && min.get(name).map_or(true, |m| toks.len() < m.len()) {
                        min.insert(name, toks);
                        changed = true;
                    }
                }
            }
            if !changed {
                break;
            }
        }
        Grammar { rules, shapes, min, memo: RefCell::new(HashMap::new()) }
    }

    fn fill(&self, shape: &[Slot], special: Option<(usize, &[T])>) -> Vec<T> {
        let mut out = Vec::new();
        for (i, s) in shape.iter().enumerate() {
            match (s, special) {
                (Slot::T(t), _) => out.push(t.clone()),
                (Slot::N(_), Some((j, d))) if i == j => out.extend(d.iter().cloned()),
                (Slot::N(x), _) => out.extend(self.min[x].iter().cloned()),
            }
        }
        out
    }

    /// E(x, d) in a deterministic order (shapes in rule order, slots left to right).
    pub fn enumerate(&self, x: &'static str, d: usize) -> Rc<Vec<Vec<T>>> {
        if let Some(r) = self.memo.borrow().get(&(x, d)) {
            return r.clone();
        }
        let mut seen: HashSet<Vec<T>> = HashSet::new();
        let mut out = Vec::new();
        for shape in &self.shapes[x] {
            let base = self.fill(shape, None);
            if seen.insert(base.clone()) {
                out.push(base);
            }
        }
        if d > 1 {
            for shape in &self.shapes[x] {
                for (i, s) in shape.iter().enumerate() {
                    if let Slot::N(c) = s {
                        for der in self.enumerate(c, d - 1).iter() {
                            let t = self.fill(shape, Some((i, der)));
                            if seen.insert(t.clone()) {
                                out.push(t);
                            }
                        }
                    }
                }
            }
        }
        let r = Rc::new(out);
        self.memo.borrow_mut().insert((x, d), r.clone());
        r
    }

    /// Shortest (prefix, suffix) token context leading from `document` to each non-terminal.
    pub fn contexts(&self) -> BTreeMap<&'static str, (Vec<T>, Vec<T>)> {
        let mut ctx: BTreeMap<&'static str, (Vec<T>, Vec<T>)> = BTreeMap::new();
        ctx.insert("document", (vec![], vec![]));
        loop {
            let mut changed = false;
            for (name, _) in &self.rules {
                let Some((pre, post)) = ctx.get(name).cloned() else { continue };
                for shape in &self.shapes[name] {
                    for (i, s) in shape.iter().enumerate() {
                        if let Slot::N(c) = s {
                            let mut p = pre.clone();
                            p.extend(self.fill(&shape[..i], None));
                            let mut q = self.fill(&shape[i + 1..], None);
                            q.extend(post.iter().cloned());
                            let len = p.len() + q.len();
                            if ctx.get(c).map_or(true, |(a, b)| len < a.len() + b.len()) {
                                ctx.insert(c, (p, q));
                                changed = true;
                            }
                        }
                    }
                }
            }
            if !changed {
                return ctx;
            }
        }
    }
}

const IDS: [&str; 16] = ["a", "b", "c", "d", "e", "f", "g", "h", "i", "j", "k", "m", "n", "o", "p", "q"];
const STRS: [&str; 4] = ["\"s\"", "\"t\"", "\"u\"", "\"v\""];
const NAMES: [&str; 4] = ["a:b", "c:d", "e:f", "g:h"];
const PATHS: [&str; 4] = ["a:b/c", "d:e/f", "g:h/i", "j:k/m"];

/// Replaces terminal classes by concrete default terminals, distinct by position so that a
/// tree that confuses two positions is noticed.
pub fn concretise(toks: &[T]) -> Vec<String> {
    let (mut i, mut s, mut n, mut p) = (0, 0, 0, 0);
    toks.iter()
        .map(|t| match t {
            T::L(x) => x.to_string(),
            T::Id => {
                i += 1;
                IDS[(i - 1) % IDS.len()].to_string()
            }
            T::Str => {
                s += 1;
                STRS[(s - 1) % STRS.len()].to_string()
            }
            T::PkgName => {
                n += 1;
                NAMES[(n - 1) % NAMES.len()].to_string()
            }
            T::PkgPath => {
                p += 1;
                PATHS[(p - 1) % PATHS.len()].to_string()
            }
        })
        .collect()
}
