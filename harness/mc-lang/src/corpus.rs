//! The enumerated text corpus shared by C12, C13 and C14: grammar-derived base documents,
//! their single-token mutants, the tight rendering of both (every separator dropped that the
//! reference tokenizer does not need), the one-gap layout deviations of the base documents,
//! the code-point sweep and the repository's `.wac` files.

use crate::grammar::{concretise, Grammar, T};
use crate::reference::{self, Tok, KEYWORDS, SYMBOLS};
use std::collections::{BTreeMap, HashSet};
use std::path::PathBuf;

pub struct Base {
    pub toks: Vec<String>,
    /// non-terminal whose derivations this document exercises
    pub origin: &'static str,
}

pub fn join(toks: &[String]) -> String {
    toks.join(" ")
}

pub struct BaseSet {
    pub docs: Vec<Base>,
    /// non-terminal -> number of derivations enumerated for it
    pub per_nonterminal: BTreeMap<&'static str, usize>,
    pub pair_docs: usize,
}

/// Base documents: for every non-terminal X every derivation of E(X, depth) in X's
/// shortest context; `pairs` = Some(k): additionally every ordered pair of statements
/// from E(statement, k).
pub fn base_docs(depth: usize, reps: usize, pairs: Option<usize>) -> BaseSet {
    let g = Grammar::new(reps);
    let ctx = g.contexts();
    let mut seen: HashSet<Vec<T>> = HashSet::new();
    let mut docs = Vec::new();
    let mut per = BTreeMap::new();
    for (name, _) in &g.rules {
        let Some((pre, post)) = ctx.get(name) else {
            mc_core::machinery_error(&format!("non-terminal {name} unreachable from document"));
        };
        let ders = g.enumerate(name, depth);
        per.insert(*name, ders.len());
        for d in ders.iter() {
            let mut t = pre.clone();
            t.extend(d.iter().cloned());
            t.extend(post.iter().cloned());
            if seen.insert(t.clone()) {
                docs.push(Base { toks: concretise(&t), origin: name });
            }
        }
    }
    let mut pair_docs = 0;
    if let Some(k) = pairs {
        let pkg = g.enumerate("package-decl", 1)[0].clone();
        let stmts = g.enumerate("statement", k);
        for a in stmts.iter() {
            for b in stmts.iter() {
                let mut t = pkg.clone();
                t.extend(a.iter().cloned());
                t.extend(b.iter().cloned());
                if seen.insert(t.clone()) {
                    pair_docs += 1;
                    docs.push(Base { toks: concretise(&t), origin: "statement-pair" });
                }
            }
        }
    }
    BaseSet { docs, per_nonterminal: per, pair_docs }
}

/// Representatives of every token class, used for single-token substitution.
pub fn substitutes() -> Vec<String> {
    let mut v: Vec<String> = [
        // identifiers: plain, %-escaped keyword, kebab, upper-case words (not in the EBNF)
        "x", "%use", "a-b", "A-B",
        // strings
        "\"s\"", "\"\"", "\"a b\"",
        // package names: plain, nested namespace, version, pre-release+build, invalid semver
        "a:b", "a:b:c", "a:b@1.0.0", "a:b@1.2.3-rc.1+build.5", "a:b@1.0",
        // package paths: the same
        "a:b/c", "a:b/c/d", "a:b/c@1.0.0", "a:b/c@0.1.0-alpha.1+b", "a:b/c@01.0.0",
        // unterminated string / comment, stray comment closer, characters outside the grammar
        "\"s", "/* c", "*/", "/", "-", "%", "1",
    ]
    .iter()
    .map(|s| s.to_string())
    .collect();
    v.extend(KEYWORDS.iter().map(|s| s.to_string()));
    v.extend(SYMBOLS.iter().map(|s| s.to_string()));
    v
}

/// Reduced substitute set (one representative per class) for the deepest layer of a tier.
pub fn substitutes_small() -> Vec<String> {
    ["x", "%use", "A-B", "\"s\"", "a:b", "a:b@1.0", "a:b/c", "a:b/c@1.0.0", "\"s", "/* c", "import", "as", "u8", "static"]
        .iter()
        .map(|s| s.to_string())
        .chain(SYMBOLS.iter().map(|s| s.to_string()))
        .collect()
}

/// Which texts of a base document's family also get the tight rendering (see [`Tight`]).
#[derive(Clone, Copy, PartialEq)]
pub enum TightScope {
    /// the base document only
    BaseOnly,
    /// the base document, every mutant and every subtree deletion
    All,
}

impl TightScope {
    fn mutants(&self) -> bool {
        matches!(self, TightScope::All)
    }
}

/// Kind label of the tight rendering of a text of kind `kind`.
pub fn tight_kind(kind: &'static str) -> &'static str {
    match kind {
        "base" => "base-tight",
        "delete" => "delete-tight",
        "duplicate" => "duplicate-tight",
        "swap" => "swap-tight",
        "substitute" => "substitute-tight",
        "delete-subtree" => "delete-subtree-tight",
        _ => mc_core::machinery_error(&format!("no tight rendering for kind {kind}")),
    }
}

pub const TIGHT_KINDS: [&str; 6] =
    ["base-tight", "delete-tight", "duplicate-tight", "swap-tight", "substitute-tight", "delete-subtree-tight"];

#[derive(Default, Clone, Copy)]
pub struct TightStats {
    /// tight texts produced (they differ from the one-space rendering)
    pub texts: u64,
    /// token lists whose tight rendering is the one-space rendering (no separator can go)
    pub identical_to_spaced: u64,
    pub separators_dropped: u64,
    /// separators kept because the reference tokenizer would read the concatenation differently
    pub separators_kept: u64,
    /// of the dropped ones: in front of a piece that is itself a lexical error (same error, same place)
    pub dropped_before_lexical_error: u64,
}

impl TightStats {
    pub fn merge(&mut self, o: &TightStats) {
        self.texts += o.texts;
        self.identical_to_spaced += o.identical_to_spaced;
        self.separators_dropped += o.separators_dropped;
        self.separators_kept += o.separators_kept;
        self.dropped_before_lexical_error += o.dropped_before_lexical_error;
    }
    pub fn json(&self) -> serde_json::Value {
        serde_json::json!({
            "texts": self.texts,
            "token_lists_without_a_droppable_separator": self.identical_to_spaced,
            "separators_dropped": self.separators_dropped,
            "separators_kept_because_the_tokens_would_merge": self.separators_kept,
            "separators_dropped_in_front_of_a_lexical_error": self.dropped_before_lexical_error,
        })
    }
}

/// The tight rendering of a token list: every separator is dropped unless the REFERENCE
/// tokenizer would then read the text differently. Greedy, left to right, decided on the
/// whole run of tokens since the last kept separator (so `use : func` becomes `use: func`,
/// not `use:func`, which is one package name; `a , b` becomes `a,b`; `u8 u8` stays).
/// From the first piece that is not a token by itself (an unterminated string, a stray
/// character, an invalid version ...) onwards every separator is kept; the separator in front
/// of that piece goes if the reference reports the same lexical error at the same place.
/// Invariant (checked on every text produced, a failure is a machinery error): the tight
/// text tokenizes, per the reference, to exactly the token sequence (kinds and spellings,
/// up to the first lexical error, and that error) of the one-space rendering.
#[derive(Default)]
pub struct Tight {
    toks: Vec<Tok>,
    toks2: Vec<Tok>,
    pub stats: TightStats,
}

impl Tight {
    /// `text` tokenizes without error or unspecified boundary into exactly `pieces`.
    fn exact(&mut self, text: &str, pieces: &[&str]) -> bool {
        let (unspecified, err) = reference::tokenize_partial(text, &mut self.toks);
        if err.is_some() || unspecified.is_some() || self.toks.len() != pieces.len() {
            return false;
        }
        let mut o = 0;
        self.toks.iter().zip(pieces).all(|(t, p)| {
            let ok = t.start == o && t.end == o + p.len();
            o += p.len();
            ok
        })
    }

    /// `cluster` + `piece` (a lexical error by itself, at its first token) tokenizes into the
    /// pieces of the cluster followed by the same error at the same place of the piece.
    fn same_error(&mut self, text: &str, cluster: &[&str], piece: &str) -> bool {
        let (u1, Some(alone)) = reference::tokenize_partial(piece, &mut self.toks) else { return false };
        if u1.is_some() || !self.toks.is_empty() {
            return false;
        }
        let (u2, Some(joined)) = reference::tokenize_partial(text, &mut self.toks) else { return false };
        let at = text.len() - piece.len();
        if u2.is_some() || self.toks.len() != cluster.len() || joined.what != alone.what || joined.offset != at + alone.offset {
            return false;
        }
        let mut o = 0;
        self.toks.iter().zip(cluster).all(|(t, p)| {
            let ok = t.start == o && t.end == o + p.len();
            o += p.len();
            ok
        })
    }

    /// The tight rendering of `pieces` (`spaced` = their one-space rendering); None if no
    /// separator can be dropped.
    pub fn render(&mut self, pieces: &[&str], spaced: &str) -> Option<String> {
        let mut s = String::with_capacity(pieces.iter().map(|p| p.len() + 1).sum());
        let (mut cluster_start, mut cluster_first) = (0, 0);
        let mut broken = false; // a lexical error lies behind: keep every further separator
        let (mut dropped, mut kept, mut dropped_err) = (0u64, 0u64, 0u64);
        for (i, p) in pieces.iter().enumerate() {
            if i > 0 && !broken {
                let before = s.len();
                s.push_str(p);
                if self.exact(&s[cluster_start..], &pieces[cluster_first..=i]) {
                    dropped += 1;
                    continue;
                }
                if self.same_error(&s[cluster_start..], &pieces[cluster_first..i], p) {
                    dropped += 1;
                    dropped_err += 1;
                    broken = true;
                    continue;
                }
                s.truncate(before);
            }
            if i > 0 {
                s.push(' ');
                kept += 1;
            }
            cluster_start = s.len();
            cluster_first = i;
            s.push_str(p);
            if !broken && !self.exact(p, &pieces[i..=i]) {
                broken = true;
            }
        }
        if dropped == 0 {
            self.stats.identical_to_spaced += 1;
            return None;
        }
        self.verify(spaced, &s);
        self.stats.texts += 1;
        self.stats.separators_dropped += dropped;
        self.stats.separators_kept += kept;
        self.stats.dropped_before_lexical_error += dropped_err;
        Some(s)
    }

    /// The invariant of the tight rendering, on the whole text.
    fn verify(&mut self, spaced: &str, tight: &str) {
        let (u1, e1) = reference::tokenize_partial(spaced, &mut self.toks);
        let (u2, e2) = reference::tokenize_partial(tight, &mut self.toks2);
        let same_tokens = self.toks.len() == self.toks2.len()
            && self.toks.iter().zip(&self.toks2).all(|(a, b)| a.kind == b.kind && spaced[a.start..a.end] == tight[b.start..b.end]);
        let same_error = match (&e1, &e2) {
            (None, None) => true,
            (Some(a), Some(b)) => a.what == b.what && spaced[a.offset..] == tight[b.offset..],
            _ => false,
        };
        if !same_tokens || !same_error || u1 != u2 {
            mc_core::machinery_error(&format!(
                "tight rendering {tight:?} of {spaced:?} does not tokenize (reference) to the same token sequence"
            ));
        }
    }
}

/// All single-token deletions, duplications, substitutions and adjacent swaps; each in the
/// one-space rendering and, as far as `scope` says, in the tight rendering (kind `<kind>-tight`).
pub fn for_each_mutant(toks: &[String], subs: &[String], scope: TightScope, tight: &mut Tight, mut f: impl FnMut(&'static str, String)) {
    let n = toks.len();
    let want_tight = scope.mutants();
    let mut emit = |kind: &'static str, v: &[&str]| {
        let spaced = v.join(" ");
        let t = if want_tight { tight.render(v, &spaced) } else { None };
        f(kind, spaced);
        if let Some(t) = t {
            f(tight_kind(kind), t);
        }
    };
    let base: Vec<&str> = toks.iter().map(|s| s.as_str()).collect();
    for i in 0..n {
        let mut v = base.clone();
        v.remove(i);
        emit("delete", &v);
        let mut v = base.clone();
        v.insert(i, base[i]);
        emit("duplicate", &v);
        if i + 1 < n && base[i] != base[i + 1] {
            let mut v = base.clone();
            v.swap(i, i + 1);
            emit("swap", &v);
        }
        let mut v = base.clone();
        for s in subs {
            if s != base[i] {
                v[i] = s;
                emit("substitute", &v);
            }
        }
    }
}

/// Deletion of the whole token range of one derived production (`ranges` from the
/// reference derivation): reaches the "empty body" near misses (`with { }`, `-> ;`,
/// `record r { }`) that are several single-token deletions away.
pub fn for_each_subtree_deletion(
    toks: &[String],
    ranges: &[(usize, usize)],
    scope: TightScope,
    tight: &mut Tight,
    mut f: impl FnMut(&'static str, String),
) {
    let mut seen = HashSet::new();
    for &(s, e) in ranges {
        if e - s >= 2 && e - s < toks.len() && seen.insert((s, e)) {
            let v: Vec<&str> = toks[..s].iter().chain(toks[e..].iter()).map(|x| x.as_str()).collect();
            let spaced = v.join(" ");
            let t = if scope.mutants() { tight.render(&v, &spaced) } else { None };
            f("delete-subtree", spaced);
            if let Some(t) = t {
                f("delete-subtree-tight", t);
            }
        }
    }
}

/// The alternative separators of the layout dimension (the default gap is one space).
pub const SEPARATORS: [&str; 11] = [
    "", "\n", "\r\n", "\t", "// c\n", "/* c */", "/* a /* b */ c */", "/**/", " \n\t ",
    // comment delimiters sharing a character with their neighbour: `/*/` is an opener followed
    // by `/`, `*/*` a closer followed by `*` (a scanner with overlapping windows miscounts both)
    "/* a /*/ b */ c */", "/* /* a */* b */",
];

/// Doc-comment separators (C13): line, block, empty, multi-line, multi-line with a blank
/// line, nested block, two comments, CRLF.
pub const DOC_SEPARATORS: [&str; 14] = [
    // blanks at the end and at the start of the lines of a comment (the lexer trims the comment as
    // a whole, the printer its lines)
    "/** l1  \n l2\t\n l3 */",
    "/**   l1\n\t\tl2   */",
    "/// d  \n",
    "///   d\n",
    "/// d\n",
    "/** d */",
    "///\n",
    "/** */",
    "/** l1\n l2 */",
    "/** l1\n\n l2 */",
    "/** a /* b */ c */",
    "/// d1\n/// d2\n",
    "/// d\r\n",
    "/** d1 */ /// d2\n",
];

/// Every text obtained by replacing exactly one gap (including the leading and the
/// trailing one) by a separator.
pub fn for_each_layout(toks: &[String], seps: &[&str], mut f: impl FnMut(String)) {
    let n = toks.len();
    for gap in 0..=n {
        for sep in seps {
            let mut s = String::new();
            for (i, t) in toks.iter().enumerate() {
                if i == gap {
                    s.push_str(sep);
                } else if i > 0 {
                    s.push(' ');
                }
                s.push_str(t);
            }
            if gap == n {
                s.push_str(sep);
            }
            f(s);
        }
    }
    // a line comment that runs to the end of input without a newline
    f(format!("{} // c", join(toks)));
}

/// Every text obtained by replacing exactly two different gaps by separators (thorough tier).
pub fn for_each_layout2(toks: &[String], seps: &[&str], mut f: impl FnMut(String)) {
    let n = toks.len();
    for g1 in 0..=n {
        for g2 in g1 + 1..=n {
            for s1 in seps {
                for s2 in seps {
                    let mut s = String::new();
                    for (i, t) in toks.iter().enumerate() {
                        if i == g1 {
                            s.push_str(s1);
                        } else if i == g2 {
                            s.push_str(s2);
                        } else if i > 0 {
                            s.push(' ');
                        }
                        s.push_str(t);
                    }
                    if g2 == n {
                        s.push_str(s2);
                    }
                    f(s);
                }
            }
        }
    }
}

/// (label, text) of the code-point sweep: every listed code point at every position class
/// of two carrier documents.
pub fn codepoint_sweep() -> Vec<(String, String)> {
    let mut cps: Vec<char> = Vec::new();
    cps.extend((0u32..0x20).filter_map(char::from_u32).filter(|c| !matches!(c, '\t' | '\n' | '\r')));
    cps.push('\u{7f}');
    cps.extend((0x80u32..0xa0).filter_map(char::from_u32));
    cps.extend(('\u{202a}'..='\u{202e}').chain('\u{2066}'..='\u{2069}'));
    cps.extend(['\u{149}', '\u{673}', '\u{f77}', '\u{f79}', '\u{17a3}', '\u{17a4}', '\u{17b4}', '\u{17b5}']);
    // code points the statement does not forbid (probes: must not be rejected inside strings/comments)
    cps.extend([
        '\u{a0}', 'é', '\u{200e}', '\u{200f}', '\u{61c}', '\u{feff}', '\u{2028}', '\u{2029}', '\u{e000}', '\u{fffd}',
        '😀', '\u{10ffff}',
    ]);
    const POS: [&str; 7] =
        ["first", "inside-identifier", "between-tokens", "inside-string", "inside-line-comment", "inside-nested-block-comment", "last"];
    let carriers: [[&str; 8]; 2] = [
        ["", "package a:b;\nlet x", "y =", " new c:d { \"s", "t\": z };\n// line", " comment\n/* a /* nes", "ted */ c */\nexport xy;", ""],
        ["", "package a:b; /* a /* nes", "ted */ c */ export x", "y as", " \"s", "t\"; // line", " comment", ""],
    ];
    // carrier 1 visits the classes in another order; map piece boundary -> class
    let order: [[usize; 7]; 2] = [[0, 1, 2, 3, 4, 5, 6], [0, 5, 1, 2, 3, 4, 4]];
    let mut out = Vec::new();
    for (ci, pieces) in carriers.iter().enumerate() {
        for k in 0..7 {
            for &cp in &cps {
                let mut s = String::new();
                for (i, p) in pieces.iter().enumerate() {
                    s.push_str(p);
                    if i == k {
                        s.push(cp);
                    }
                }
                let class = if ci == 1 && k == 6 { "last-inside-line-comment" } else { POS[order[ci][k]] };
                out.push((format!("U+{:04X}@{class}", cp as u32), s));
            }
        }
    }
    out
}

/// Every `.wac` file under /repo/crates/*/tests and /repo/examples, sorted by path.
pub fn repo_files() -> Vec<(String, String)> {
    fn walk(dir: &std::path::Path, out: &mut Vec<PathBuf>) {
        let Ok(rd) = std::fs::read_dir(dir) else { return };
        for e in rd.flatten() {
            let p = e.path();
            if p.is_dir() {
                walk(&p, out);
            } else if p.extension().map_or(false, |x| x == "wac") {
                out.push(p);
            }
        }
    }
    let repo = std::env::var("WAC_REPO").unwrap_or_else(|_| "/repo".into());
    let mut files = Vec::new();
    if let Ok(rd) = std::fs::read_dir(format!("{repo}/crates")) {
        for e in rd.flatten() {
            walk(&e.path().join("tests"), &mut files);
        }
    }
    walk(std::path::Path::new(&format!("{repo}/examples")), &mut files);
    files.sort();
    files
        .into_iter()
        .filter_map(|p| std::fs::read_to_string(&p).ok().map(|s| (p.display().to_string(), s)))
        .collect()
}

/// Deterministic 64-bit hash of a text (SipHash with the fixed default key).
pub fn text_hash(s: &str) -> u64 {
    use std::hash::{Hash, Hasher};
    #[allow(deprecated)]
    let mut h = std::hash::SipHasher::new();
    s.hash(&mut h);
    h.finish()
}
