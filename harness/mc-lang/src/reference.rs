//! E4 — reference tokenizer and recogniser, written from LANGUAGE.md only (EBNF of the
//! "WAC Grammar" chapter and its whitespace rules) plus the clarifications of DESIGN.md
//! §5 C12, each of which only widens what the reference accepts:
//!   * the argument list of `new` may be empty, may be `...` alone, and `...` is an
//!     argument form at any position;
//!   * `package-name`, `package-path` (and their versions) are single tokens.
//!
//! The recogniser is predictive recursive descent (the grammar is LL(2)); on success it
//! returns the derivation as a JSON tree in the shape both sides of the C12 comparison are
//! mapped to (wac's serialised AST minus spans and doc comments), together with the list
//! of productions recognised and their token ranges; on failure it names the production
//! in which the derivation stopped and the class of the offending token.

use serde_json::{json, Value};

pub const KEYWORDS: [&str; 39] = [
    "import", "with", "type", "tuple", "list", "option", "result", "borrow", "resource", "variant", "record", "flags",
    "enum", "func", "static", "constructor", "u8", "s8", "u16", "s16", "u32", "s32", "u64", "s64", "f32", "f64",
    "char", "bool", "string", "interface", "world", "export", "new", "let", "use", "include", "as", "package",
    "targets",
];
/// Keywords that start a `type` (used only to coarsen fingerprints).
const TYPE_KEYWORDS: [&str; 18] = [
    "u8", "s8", "u16", "s16", "u32", "s32", "u64", "s64", "f32", "f64", "char", "bool", "string", "tuple", "list",
    "option", "result", "borrow",
];
/// Symbols used by the EBNF, longest first.
pub const SYMBOLS: [&str; 17] = ["...", "->", ";", "{", "}", ":", "=", "(", ")", "<", ">", "_", "[", "]", ".", ",", "@"];

#[derive(Clone, Copy, Debug, PartialEq, Eq)]
pub enum Kind {
    Kw(&'static str),
    Sym(&'static str),
    Id,
    Str,
    PkgName,
    PkgPath,
}

#[derive(Clone, Copy, Debug)]
pub struct Tok {
    pub kind: Kind,
    pub start: usize,
    pub end: usize,
}

#[derive(Clone, Debug)]
pub struct RefErr {
    /// production (or `token` for lexical failures) in which the derivation stopped
    pub production: String,
    /// class of the offending token / lexical cause
    pub what: String,
    pub offset: usize,
    /// LANGUAGE.md is silent about this text: no verdict
    pub unspecified: bool,
}

pub struct RefTree {
    pub json: Value,
    pub toks: Vec<Tok>,
    /// (production, first token, one past last token)
    pub nodes: Vec<(&'static str, usize, usize)>,
    pub unspecified: Option<&'static str>,
}

// ------------------------------------------------------------------ code points

/// The code points the property statement forbids anywhere in a source text.
/// Some(class) for forbidden ones; "discouraged" (U+17B4/5) is listed by the lexer's
/// comments but not by the statement, so the reference has no verdict on it.
pub fn forbidden_class(c: char) -> Option<&'static str> {
    match c {
        '\t' | '\n' | '\r' => None,
        '\u{202a}'..='\u{202e}' | '\u{2066}'..='\u{2069}' => Some("bidi"),
        '\u{149}' | '\u{673}' | '\u{f77}' | '\u{f79}' | '\u{17a3}' | '\u{17a4}' => Some("deprecated"),
        '\u{17b4}' | '\u{17b5}' => Some("discouraged"),
        '\u{0}'..='\u{1f}' | '\u{7f}' | '\u{80}'..='\u{9f}' => Some("control"),
        _ => None,
    }
}

// ------------------------------------------------------------------ semver (semver.org BNF)

fn numeric_id(s: &str) -> bool {
    !s.is_empty() && s.bytes().all(|b| b.is_ascii_digit()) && (s.len() == 1 || !s.starts_with('0'))
}

pub fn valid_semver(v: &str) -> bool {
    let (rest, build) = match v.find('+') {
        Some(i) => (&v[..i], Some(&v[i + 1..])),
        None => (v, None),
    };
    let ident = |s: &str| !s.is_empty() && s.bytes().all(|b| b.is_ascii_alphanumeric() || b == b'-');
    if let Some(b) = build {
        if !b.split('.').all(ident) {
            return false;
        }
    }
    let (core, pre) = match rest.find('-') {
        Some(i) => (&rest[..i], Some(&rest[i + 1..])),
        None => (rest, None),
    };
    if let Some(p) = pre {
        if !p.split('.').all(|s| ident(s) && (!s.bytes().all(|b| b.is_ascii_digit()) || numeric_id(s))) {
            return false;
        }
    }
    let parts: Vec<&str> = core.split('.').collect();
    // the numeric fields must also fit the u64 every semver implementation uses
    parts.len() == 3 && parts.iter().all(|p| numeric_id(p) && p.len() <= 19)
}

// ------------------------------------------------------------------ tokenizer

fn id_end(b: &[u8], mut p: usize) -> Option<usize> {
    // id ::= '%'?[a-z][a-z0-9]*('-'[a-z][a-z0-9]*)*
    if b.get(p) == Some(&b'%') {
        p += 1;
    }
    let word = |b: &[u8], mut p: usize| -> Option<usize> {
        if !b.get(p)?.is_ascii_lowercase() {
            return None;
        }
        p += 1;
        while b.get(p).map_or(false, |c| c.is_ascii_lowercase() || c.is_ascii_digit()) {
            p += 1;
        }
        Some(p)
    };
    let mut e = word(b, p)?;
    while b.get(e) == Some(&b'-') {
        match word(b, e + 1) {
            Some(n) => e = n,
            None => break,
        }
    }
    Some(e)
}

fn lex_err(what: &str, offset: usize) -> RefErr {
    RefErr { production: "token".into(), what: what.into(), offset, unspecified: false }
}

/// Maximal-munch tokenizer. Returns the tokens and, if some boundary decision is not
/// covered by LANGUAGE.md, the name of that decision.
pub fn tokenize(src: &str) -> Result<(Vec<Tok>, Option<&'static str>), RefErr> {
    let mut toks = Vec::new();
    let unspecified = tokenize_into(src, &mut toks)?;
    Ok((toks, unspecified))
}

/// The tokens up to the first lexical error (all of them if there is none), the
/// unspecified-boundary flag seen so far, and that error.
pub fn tokenize_partial(src: &str, toks: &mut Vec<Tok>) -> (Option<&'static str>, Option<RefErr>) {
    toks.clear();
    match tokenize_into(src, toks) {
        Ok(u) => (u, None),
        Err(e) => (None, Some(e)),
    }
}

fn tokenize_into(src: &str, toks: &mut Vec<Tok>) -> Result<Option<&'static str>, RefErr> {
    let mut unspecified = None;
    for (i, c) in src.char_indices() {
        match forbidden_class(c) {
            Some("discouraged") => unspecified = Some("discouraged-code-point"),
            Some(cl) => return Err(lex_err(&format!("forbidden-{cl}-code-point"), i)),
            None => {}
        }
    }
    let b = src.as_bytes();
    let mut p = 0;
    while p < b.len() {
        let c = b[p];
        if c == b' ' || c == b'\n' || c == b'\r' || c == b'\t' {
            p += 1;
            continue;
        }
        if b[p..].starts_with(b"//") {
            while p < b.len() && b[p] != b'\n' {
                if b[p] == b'\r' && b.get(p + 1) != Some(&b'\n') {
                    unspecified = Some("lone-cr-in-line-comment");
                }
                p += 1;
            }
            continue;
        }
        if b[p..].starts_with(b"/*") {
            let start = p;
            let mut depth = 1;
            p += 2;
            while depth > 0 {
                if p >= b.len() {
                    return Err(lex_err("unterminated-comment", start));
                }
                if b[p..].starts_with(b"/*") {
                    depth += 1;
                    p += 2;
                } else if b[p..].starts_with(b"*/") {
                    depth -= 1;
                    p += 2;
                } else {
                    p += 1;
                }
            }
            continue;
        }
        if c == b'"' {
            match b[p + 1..].iter().position(|&x| x == b'"') {
                Some(n) => {
                    toks.push(Tok { kind: Kind::Str, start: p, end: p + n + 2 });
                    p += n + 2;
                }
                None => return Err(lex_err("unterminated-string", p)),
            }
            continue;
        }
        if c == b'%' || c.is_ascii_lowercase() {
            let Some(mut e) = id_end(b, p) else {
                return Err(lex_err("stray-character", p));
            };
            // package-name ::= id (':' id)+ ('@' version)?   package-path ::= id (':' id)+ ('/' id)+ ('@' version)?
            let mut colons = 0;
            while b.get(e) == Some(&b':') {
                match id_end(b, e + 1) {
                    Some(n) => {
                        e = n;
                        colons += 1;
                    }
                    None => break,
                }
            }
            let mut kind = Kind::Id;
            if colons > 0 {
                kind = Kind::PkgName;
                while b.get(e) == Some(&b'/') {
                    match id_end(b, e + 1) {
                        Some(n) => {
                            e = n;
                            kind = Kind::PkgPath;
                        }
                        None => break,
                    }
                }
                if b.get(e) == Some(&b'@') {
                    // version ::= <SEMVER>: the longest prefix that is a valid semver
                    let vs = e + 1;
                    let mut ve = vs;
                    while b.get(ve).map_or(false, |c| c.is_ascii_alphanumeric() || matches!(c, b'.' | b'+' | b'-')) {
                        ve += 1;
                    }
                    let mut best = None;
                    for end in (vs + 1..=ve).rev() {
                        if valid_semver(&src[vs..end]) {
                            best = Some(end);
                            break;
                        }
                    }
                    match best {
                        Some(end) => {
                            if b.get(end).map_or(false, |c| c.is_ascii_alphanumeric() || matches!(c, b'+' | b'-')) {
                                unspecified = Some("version-followed-by-version-character");
                            }
                            e = end;
                        }
                        None => return Err(lex_err("invalid-version", vs)),
                    }
                }
            } else if c != b'%' {
                if let Some(k) = KEYWORDS.iter().find(|k| **k == &src[p..e]) {
                    kind = Kind::Kw(k);
                }
            }
            toks.push(Tok { kind, start: p, end: e });
            p = e;
            continue;
        }
        if let Some(s) = SYMBOLS.iter().find(|s| b[p..].starts_with(s.as_bytes())) {
            if *s == "@" {
                return Err(lex_err("stray-character", p));
            }
            toks.push(Tok { kind: Kind::Sym(s), start: p, end: p + s.len() });
            p += s.len();
            continue;
        }
        return Err(lex_err(if c.is_ascii_uppercase() { "uppercase-identifier-word" } else { "stray-character" }, p));
    }
    Ok(unspecified)
}

/// Coarse class of a token, for fingerprints.
pub fn class_of(kind: Option<Kind>) -> String {
    match kind {
        None => "end-of-input".into(),
        Some(Kind::Id) => "identifier".into(),
        Some(Kind::Str) => "string".into(),
        Some(Kind::PkgName) => "package-name".into(),
        Some(Kind::PkgPath) => "package-path".into(),
        Some(Kind::Kw(k)) if TYPE_KEYWORDS.contains(&k) => "type-keyword".into(),
        Some(Kind::Kw(k)) => format!("keyword-{k}"),
        Some(Kind::Sym(s)) => format!("`{s}`"),
    }
}

// ------------------------------------------------------------------ recogniser

struct P<'a> {
    src: &'a str,
    toks: Vec<Tok>,
    pos: usize,
    stack: Vec<(&'static str, usize)>,
    nodes: Vec<(&'static str, usize, usize)>,
}

type R<T> = Result<T, RefErr>;

impl<'a> P<'a> {
    fn kind(&self, ahead: usize) -> Option<Kind> {
        self.toks.get(self.pos + ahead).map(|t| t.kind)
    }
    fn text(&self, i: usize) -> &'a str {
        &self.src[self.toks[i].start..self.toks[i].end]
    }
    fn fail<T>(&self) -> R<T> {
        // the production that had already consumed input when the derivation stopped, and
        // (after `>`) the outermost non-terminal it expected to start at the offending token
        let parent = self.stack.iter().rev().find(|(_, s)| *s < self.pos).map_or("document", |x| x.0);
        let child = self.stack.iter().find(|(_, s)| *s == self.pos && self.pos > 0).map(|x| x.0);
        Err(RefErr {
            production: match child {
                Some(c) => format!("{parent}>{c}"),
                None => parent.to_string(),
            },
            what: format!("found-{}", class_of(self.kind(0))),
            offset: self.toks.get(self.pos).map_or(self.src.len(), |t| t.start),
            unspecified: false,
        })
    }
    fn prod<T>(&mut self, name: &'static str, f: impl FnOnce(&mut Self) -> R<T>) -> R<T> {
        let start = self.pos;
        self.stack.push((name, start));
        let r = f(self)?;
        self.stack.pop();
        self.nodes.push((name, start, self.pos));
        Ok(r)
    }
    fn is_sym(&self, ahead: usize, s: &str) -> bool {
        matches!(self.kind(ahead), Some(Kind::Sym(x)) if x == s)
    }
    fn is_kw(&self, ahead: usize, s: &str) -> bool {
        matches!(self.kind(ahead), Some(Kind::Kw(x)) if x == s)
    }
    fn sym(&mut self, s: &str) -> R<()> {
        if self.is_sym(0, s) {
            self.pos += 1;
            Ok(())
        } else {
            self.fail()
        }
    }
    fn kw(&mut self, s: &str) -> R<()> {
        if self.is_kw(0, s) {
            self.pos += 1;
            Ok(())
        } else {
            self.fail()
        }
    }
    fn id(&mut self) -> R<Value> {
        if self.kind(0) == Some(Kind::Id) {
            let t = self.text(self.pos);
            self.pos += 1;
            Ok(json!({"string": t.strip_prefix('%').unwrap_or(t)}))
        } else {
            self.fail()
        }
    }
    fn string(&mut self) -> R<Value> {
        if self.kind(0) == Some(Kind::Str) {
            let t = self.text(self.pos);
            self.pos += 1;
            Ok(json!({"value": &t[1..t.len() - 1]}))
        } else {
            self.fail()
        }
    }
    fn id_or_string(&mut self) -> R<Value> {
        match self.kind(0) {
            Some(Kind::Id) => Ok(json!({"ident": self.id()?})),
            Some(Kind::Str) => Ok(json!({"string": self.string()?})),
            _ => self.fail(),
        }
    }
    fn package_name(&mut self) -> R<Value> {
        if self.kind(0) != Some(Kind::PkgName) {
            return self.fail();
        }
        let t = self.text(self.pos);
        self.pos += 1;
        let (name, version) = match t.find('@') {
            Some(i) => (&t[..i], Some(&t[i + 1..])),
            None => (t, None),
        };
        Ok(json!({"string": t, "name": name, "version": version}))
    }
    fn package_path(&mut self) -> R<Value> {
        if self.kind(0) != Some(Kind::PkgPath) {
            return self.fail();
        }
        let t = self.text(self.pos);
        self.pos += 1;
        let (path, version) = match t.find('@') {
            Some(i) => (&t[..i], Some(&t[i + 1..])),
            None => (t, None),
        };
        let slash = path.find('/').unwrap();
        Ok(json!({"string": t, "name": &path[..slash], "segments": &path[slash + 1..], "version": version}))
    }

    /// item (',' item)* ','?  up to (not including) the closing symbol
    fn comma_list(&mut self, close: &str, mut item: impl FnMut(&mut Self) -> R<Value>) -> R<Vec<Value>> {
        let mut out = vec![item(self)?];
        loop {
            if self.is_sym(0, close) {
                return Ok(out);
            }
            self.sym(",")?;
            if self.is_sym(0, close) {
                return Ok(out);
            }
            out.push(item(self)?);
        }
    }

    // document ::= package-decl statement*
    fn document(&mut self) -> R<Value> {
        self.prod("document", |p| {
            let directive = p.prod("package-decl", |p| {
                p.kw("package")?;
                let package = p.package_name()?;
                let mut d = json!({"package": package});
                if p.is_kw(0, "targets") {
                    p.pos += 1;
                    d["targets"] = p.package_path()?;
                }
                p.sym(";")?;
                Ok(d)
            })?;
            let mut statements = Vec::new();
            while p.kind(0).is_some() {
                statements.push(p.statement()?);
            }
            Ok(json!({"directive": directive, "statements": statements}))
        })
    }

    fn statement(&mut self) -> R<Value> {
        self.prod("statement", |p| match p.kind(0) {
            Some(Kind::Kw("import")) => Ok(json!({"Import": p.import_statement()?})),
            Some(Kind::Kw("let")) => Ok(json!({"Let": p.let_statement()?})),
            Some(Kind::Kw("export")) => Ok(json!({"Export": p.export_statement()?})),
            // type-statement ::= interface-decl | world-decl | type-decl
            Some(Kind::Kw("interface")) => p.prod("type-statement", |p| Ok(json!({"Type": {"interface": p.interface_decl()?}}))),
            Some(Kind::Kw("world")) => p.prod("type-statement", |p| Ok(json!({"Type": {"world": p.world_decl()?}}))),
            Some(Kind::Kw("variant" | "record" | "flags" | "enum" | "type")) => {
                p.prod("type-statement", |p| Ok(json!({"Type": {"type": p.type_decl()?}})))
            }
            _ => p.fail(),
        })
    }

    // import-statement ::= 'import' id ('as' (id | string))? ':' import-type ';'
    fn import_statement(&mut self) -> R<Value> {
        self.prod("import-statement", |p| {
            p.kw("import")?;
            let id = p.id()?;
            let name = if p.is_kw(0, "as") {
                p.pos += 1;
                p.id_or_string()?
            } else {
                Value::Null
            };
            p.sym(":")?;
            // import-type ::= package-path | func-type | inline-interface | id
            let ty = p.prod("import-type", |p| match p.kind(0) {
                Some(Kind::PkgPath) => Ok(json!({"package": p.package_path()?})),
                Some(Kind::Kw("func")) => Ok(json!({"func": p.func_type()?})),
                Some(Kind::Kw("interface")) => Ok(json!({"interface": p.inline_interface()?})),
                Some(Kind::Id) => Ok(json!({"ident": p.id()?})),
                _ => p.fail(),
            })?;
            p.sym(";")?;
            Ok(json!({"id": id, "name": name, "ty": ty}))
        })
    }

    // interface-decl ::= 'interface' id '{' interface-item* '}'
    fn interface_decl(&mut self) -> R<Value> {
        self.prod("interface-decl", |p| {
            p.kw("interface")?;
            let id = p.id()?;
            let items = p.interface_body()?;
            Ok(json!({"id": id, "items": items}))
        })
    }
    // inline-interface ::= 'interface' '{' interface-item* '}'
    fn inline_interface(&mut self) -> R<Value> {
        self.prod("inline-interface", |p| {
            p.kw("interface")?;
            let items = p.interface_body()?;
            Ok(json!({"items": items}))
        })
    }
    fn interface_body(&mut self) -> R<Vec<Value>> {
        self.sym("{")?;
        let mut items = Vec::new();
        while !self.is_sym(0, "}") {
            // interface-item ::= use-type | item-type-decl | interface-export
            let item = self.prod("interface-item", |p| match p.kind(0) {
                Some(Kind::Kw("use")) => Ok(json!({"use": p.use_type()?})),
                Some(Kind::Kw("resource" | "variant" | "record" | "flags" | "enum" | "type")) => {
                    Ok(json!({"type": p.item_type_decl()?}))
                }
                Some(Kind::Id) => p.prod("interface-export", |p| {
                    // interface-export ::= id ':' func-type-ref ';'
                    let id = p.id()?;
                    p.sym(":")?;
                    let ty = p.prod("func-type-ref", |p| match p.kind(0) {
                        Some(Kind::Kw("func")) => Ok(json!({"func": p.func_type()?})),
                        Some(Kind::Id) => Ok(json!({"ident": p.id()?})),
                        _ => p.fail(),
                    })?;
                    p.sym(";")?;
                    Ok(json!({"export": {"id": id, "ty": ty}}))
                }),
                _ => p.fail(),
            })?;
            items.push(item);
        }
        self.sym("}")?;
        Ok(items)
    }

    // use-type ::= 'use' use-path '.' '{' use-items '}' ';'
    fn use_type(&mut self) -> R<Value> {
        self.prod("use-type", |p| {
            p.kw("use")?;
            let path = p.prod("use-path", |p| match p.kind(0) {
                Some(Kind::PkgPath) => Ok(json!({"package": p.package_path()?})),
                Some(Kind::Id) => Ok(json!({"ident": p.id()?})),
                _ => p.fail(),
            })?;
            p.sym(".")?;
            p.sym("{")?;
            let items = p.prod("use-items", |p| {
                p.comma_list("}", |p| {
                    p.prod("use-item", |p| {
                        let id = p.id()?;
                        let as_id = if p.is_kw(0, "as") {
                            p.pos += 1;
                            p.id()?
                        } else {
                            Value::Null
                        };
                        Ok(json!({"id": id, "asId": as_id}))
                    })
                })
            })?;
            p.sym("}")?;
            p.sym(";")?;
            Ok(json!({"path": path, "items": items}))
        })
    }

    // world-decl ::= 'world' id '{' world-item* '}'
    fn world_decl(&mut self) -> R<Value> {
        self.prod("world-decl", |p| {
            p.kw("world")?;
            let id = p.id()?;
            p.sym("{")?;
            let mut items = Vec::new();
            while !p.is_sym(0, "}") {
                let item = p.prod("world-item", |p| match p.kind(0) {
                    Some(Kind::Kw("use")) => Ok(json!({"use": p.use_type()?})),
                    Some(Kind::Kw("resource" | "variant" | "record" | "flags" | "enum" | "type")) => {
                        Ok(json!({"type": p.item_type_decl()?}))
                    }
                    Some(Kind::Kw("import")) => p.prod("world-import", |p| {
                        p.pos += 1;
                        let path = p.world_item_path()?;
                        p.sym(";")?;
                        Ok(json!({"import": {"path": path}}))
                    }),
                    Some(Kind::Kw("export")) => p.prod("world-export", |p| {
                        p.pos += 1;
                        let path = p.world_item_path()?;
                        p.sym(";")?;
                        Ok(json!({"export": {"path": path}}))
                    }),
                    Some(Kind::Kw("include")) => p.world_include(),
                    _ => p.fail(),
                })?;
                items.push(item);
            }
            p.sym("}")?;
            Ok(json!({"id": id, "items": items}))
        })
    }

    // world-item-path ::= named-world-item | package-path | id ; named-world-item ::= id ':' extern-type
    fn world_item_path(&mut self) -> R<Value> {
        self.prod("world-item-path", |p| match p.kind(0) {
            Some(Kind::PkgPath) => Ok(json!({"package": p.package_path()?})),
            Some(Kind::Id) if p.is_sym(1, ":") => p.prod("named-world-item", |p| {
                let id = p.id()?;
                p.sym(":")?;
                // extern-type ::= func-type | inline-interface | id
                let ty = p.prod("extern-type", |p| match p.kind(0) {
                    Some(Kind::Kw("func")) => Ok(json!({"func": p.func_type()?})),
                    Some(Kind::Kw("interface")) => Ok(json!({"interface": p.inline_interface()?})),
                    Some(Kind::Id) => Ok(json!({"ident": p.id()?})),
                    _ => p.fail(),
                })?;
                Ok(json!({"named": {"id": id, "ty": ty}}))
            }),
            Some(Kind::Id) => Ok(json!({"ident": p.id()?})),
            _ => p.fail(),
        })
    }

    // world-include ::= 'include' world-ref ('with' '{' world-include-items '}')? ';'
    fn world_include(&mut self) -> R<Value> {
        self.prod("world-include", |p| {
            p.kw("include")?;
            let world = p.prod("world-ref", |p| match p.kind(0) {
                Some(Kind::PkgPath) => Ok(json!({"package": p.package_path()?})),
                Some(Kind::Id) => Ok(json!({"ident": p.id()?})),
                _ => p.fail(),
            })?;
            let mut with = Vec::new();
            if p.is_kw(0, "with") {
                p.pos += 1;
                p.sym("{")?;
                with = p.prod("world-include-items", |p| {
                    p.comma_list("}", |p| {
                        p.prod("world-include-item", |p| {
                            let from = p.id()?;
                            p.kw("as")?;
                            let to = p.id()?;
                            Ok(json!({"from": from, "to": to}))
                        })
                    })
                })?;
                p.sym("}")?;
            }
            p.sym(";")?;
            Ok(json!({"include": {"world": world, "with": with}}))
        })
    }

    // type-decl ::= variant-decl | record-decl | flags-decl | enum-decl | type-alias
    fn type_decl(&mut self) -> R<Value> {
        self.prod("type-decl", |p| match p.kind(0) {
            Some(Kind::Kw("variant")) => p.prod("variant-decl", |p| {
                p.pos += 1;
                let id = p.id()?;
                p.sym("{")?;
                let cases = p.prod("variant-cases", |p| {
                    p.comma_list("}", |p| {
                        p.prod("variant-case", |p| {
                            let id = p.id()?;
                            let ty = if p.is_sym(0, "(") {
                                p.pos += 1;
                                let t = p.ty()?;
                                p.sym(")")?;
                                t
                            } else {
                                Value::Null
                            };
                            Ok(json!({"id": id, "ty": ty}))
                        })
                    })
                })?;
                p.sym("}")?;
                Ok(json!({"variant": {"id": id, "cases": cases}}))
            }),
            Some(Kind::Kw("record")) => p.prod("record-decl", |p| {
                p.pos += 1;
                let id = p.id()?;
                p.sym("{")?;
                let fields = p.prod("fields", |p| p.comma_list("}", |p| p.named_type()))?;
                p.sym("}")?;
                Ok(json!({"record": {"id": id, "fields": fields}}))
            }),
            Some(Kind::Kw("flags")) => p.prod("flags-decl", |p| {
                p.pos += 1;
                let id = p.id()?;
                p.sym("{")?;
                let flags = p.prod("ids", |p| p.comma_list("}", |p| Ok(json!({"id": p.id()?}))))?;
                p.sym("}")?;
                Ok(json!({"flags": {"id": id, "flags": flags}}))
            }),
            Some(Kind::Kw("enum")) => p.prod("enum-decl", |p| {
                p.pos += 1;
                let id = p.id()?;
                p.sym("{")?;
                let cases = p.prod("ids", |p| p.comma_list("}", |p| Ok(json!({"id": p.id()?}))))?;
                p.sym("}")?;
                Ok(json!({"enum": {"id": id, "cases": cases}}))
            }),
            Some(Kind::Kw("type")) => p.prod("type-alias", |p| {
                // type-alias ::= 'type' id '=' (func-type | type) ';'
                p.pos += 1;
                let id = p.id()?;
                p.sym("=")?;
                let kind = if p.is_kw(0, "func") { json!({"func": p.func_type()?}) } else { json!({"type": p.ty()?}) };
                p.sym(";")?;
                Ok(json!({"alias": {"id": id, "kind": kind}}))
            }),
            _ => p.fail(),
        })
    }

    // item-type-decl ::= resource-decl | type-decl
    fn item_type_decl(&mut self) -> R<Value> {
        self.prod("item-type-decl", |p| {
            if !p.is_kw(0, "resource") {
                return p.type_decl();
            }
            // resource-decl ::= 'resource' id (';' | '{' resource-item* '}')
            p.prod("resource-decl", |p| {
                p.pos += 1;
                let id = p.id()?;
                let mut methods = Vec::new();
                if p.is_sym(0, ";") {
                    p.pos += 1;
                } else {
                    p.sym("{")?;
                    while !p.is_sym(0, "}") {
                        let m = p.prod("resource-item", |p| match p.kind(0) {
                            // constructor ::= 'constructor' param-list ';'   (param-list = '(' params? ')')
                            Some(Kind::Kw("constructor")) => p.prod("constructor", |p| {
                                p.pos += 1;
                                let params = p.param_list()?;
                                p.sym(";")?;
                                Ok(json!({"constructor": {"params": params}}))
                            }),
                            // method ::= id ':' 'static'? func-type ';'
                            Some(Kind::Id) => p.prod("method", |p| {
                                let id = p.id()?;
                                p.sym(":")?;
                                let is_static = p.is_kw(0, "static");
                                if is_static {
                                    p.pos += 1;
                                }
                                let ty = p.func_type()?;
                                p.sym(";")?;
                                Ok(json!({"method": {"id": id, "isStatic": is_static, "ty": ty}}))
                            }),
                            _ => p.fail(),
                        })?;
                        methods.push(m);
                    }
                    p.sym("}")?;
                }
                Ok(json!({"resource": {"id": id, "methods": methods}}))
            })
        })
    }

    fn param_list(&mut self) -> R<Vec<Value>> {
        self.sym("(")?;
        let params = if self.is_sym(0, ")") { Vec::new() } else { self.prod("params", |p| p.comma_list(")", |p| p.named_type()))? };
        self.sym(")")?;
        Ok(params)
    }

    // func-type ::= 'func' '(' params? ')' ('->' results)?
    fn func_type(&mut self) -> R<Value> {
        self.prod("func-type", |p| {
            p.kw("func")?;
            let params = p.param_list()?;
            let mut results = json!("empty");
            if p.is_sym(0, "->") {
                p.pos += 1;
                // results ::= type | '(' named-type (',' named-type)* ','? ')'
                results = p.prod("results", |p| {
                    if p.is_sym(0, "(") {
                        p.pos += 1;
                        let named = p.comma_list(")", |p| p.named_type())?;
                        p.sym(")")?;
                        Ok(json!({"named": named}))
                    } else {
                        Ok(json!({"scalar": p.ty()?}))
                    }
                })?;
            }
            Ok(json!({"params": params, "results": results}))
        })
    }

    // named-type ::= id ':' type
    fn named_type(&mut self) -> R<Value> {
        self.prod("named-type", |p| {
            let id = p.id()?;
            p.sym(":")?;
            let ty = p.ty()?;
            Ok(json!({"id": id, "ty": ty}))
        })
    }

    fn ty(&mut self) -> R<Value> {
        self.prod("type", |p| match p.kind(0) {
            Some(Kind::Kw(
                k @ ("u8" | "s8" | "u16" | "s16" | "u32" | "s32" | "u64" | "s64" | "f32" | "f64" | "char" | "bool" | "string"),
            )) => {
                p.pos += 1;
                Ok(json!({ (k): null }))
            }
            // tuple ::= 'tuple' '<' type (',' type)* ','? '>'
            Some(Kind::Kw("tuple")) => p.prod("tuple", |p| {
                p.pos += 1;
                p.sym("<")?;
                let tys = p.comma_list(">", |p| p.ty())?;
                p.sym(">")?;
                Ok(json!({"tuple": [tys, null]}))
            }),
            Some(Kind::Kw(k @ ("list" | "option"))) => p.prod(if k == "list" { "list" } else { "option" }, |p| {
                p.pos += 1;
                p.sym("<")?;
                let t = p.ty()?;
                p.sym(">")?;
                Ok(json!({ (k): [t, null] }))
            }),
            // result ::= 'result' | 'result' '<' type '>' | 'result' '<' '_' ',' type '>' | 'result' '<' type ',' type '>'
            Some(Kind::Kw("result")) => p.prod("result", |p| {
                p.pos += 1;
                let (mut ok, mut err) = (Value::Null, Value::Null);
                if p.is_sym(0, "<") {
                    p.pos += 1;
                    if p.is_sym(0, "_") {
                        p.pos += 1;
                        p.sym(",")?;
                        err = p.ty()?;
                    } else {
                        ok = p.ty()?;
                        if p.is_sym(0, ",") {
                            p.pos += 1;
                            err = p.ty()?;
                        }
                    }
                    p.sym(">")?;
                }
                Ok(json!({"result": {"ok": ok, "err": err}}))
            }),
            // borrow ::= 'borrow' '<' type '>'
            Some(Kind::Kw("borrow")) => p.prod("borrow", |p| {
                p.pos += 1;
                p.sym("<")?;
                let t = p.ty()?;
                p.sym(">")?;
                // wac's tree can only hold an identifier here; any other operand is kept as a type
                let inner = match t.get("ident") {
                    Some(id) => id.clone(),
                    None => json!({"type": t}),
                };
                Ok(json!({"borrow": [inner, null]}))
            }),
            Some(Kind::Id) => Ok(json!({"ident": p.id()?})),
            _ => p.fail(),
        })
    }

    // let-statement ::= 'let' id '=' expr ';'
    fn let_statement(&mut self) -> R<Value> {
        self.prod("let-statement", |p| {
            p.kw("let")?;
            let id = p.id()?;
            p.sym("=")?;
            let expr = p.expr()?;
            p.sym(";")?;
            Ok(json!({"id": id, "expr": expr}))
        })
    }

    // export-statement ::= 'export' expr (export-options)? ';' ; export-options ::= `...` | 'as' (id | string)
    fn export_statement(&mut self) -> R<Value> {
        self.prod("export-statement", |p| {
            p.kw("export")?;
            let expr = p.expr()?;
            let mut options = json!("none");
            if p.is_sym(0, "...") || p.is_kw(0, "as") {
                options = p.prod("export-options", |p| {
                    if p.is_sym(0, "...") {
                        p.pos += 1;
                        Ok(json!({"spread": null}))
                    } else {
                        p.pos += 1;
                        Ok(json!({"rename": p.id_or_string()?}))
                    }
                })?;
            }
            p.sym(";")?;
            Ok(json!({"expr": expr, "options": options}))
        })
    }

    // expr ::= primary-expr postfix-expr*
    fn expr(&mut self) -> R<Value> {
        self.prod("expr", |p| {
            let primary = p.prod("primary-expr", |p| match p.kind(0) {
                Some(Kind::Kw("new")) => Ok(json!({"new": p.new_expr()?})),
                Some(Kind::Sym("(")) => p.prod("nested-expr", |p| {
                    p.pos += 1;
                    let inner = p.expr()?;
                    p.sym(")")?;
                    Ok(json!({"nested": {"inner": inner}}))
                }),
                Some(Kind::Id) => Ok(json!({"ident": p.id()?})),
                _ => p.fail(),
            })?;
            let mut postfix = Vec::new();
            // postfix-expr ::= access-expr | named-access-expr
            while p.is_sym(0, ".") || p.is_sym(0, "[") {
                postfix.push(p.prod("postfix-expr", |p| {
                    if p.is_sym(0, ".") {
                        p.prod("access-expr", |p| {
                            p.pos += 1;
                            Ok(json!({"access": {"id": p.id()?}}))
                        })
                    } else {
                        p.prod("named-access-expr", |p| {
                            p.pos += 1;
                            let s = p.string()?;
                            p.sym("]")?;
                            Ok(json!({"namedAccess": {"string": s}}))
                        })
                    }
                })?);
            }
            Ok(json!({"primary": primary, "postfix": postfix}))
        })
    }

    // new-expr ::= 'new' package-name '{' instantiation-args '}'  (argument list as clarified in the header)
    fn new_expr(&mut self) -> R<Value> {
        self.prod("new-expr", |p| {
            p.kw("new")?;
            let package = p.package_name()?;
            p.sym("{")?;
            let arguments = if p.is_sym(0, "}") {
                Vec::new()
            } else {
                p.prod("instantiation-args", |p| {
                    p.comma_list("}", |p| {
                        p.prod("instantiation-arg", |p| match p.kind(0) {
                            Some(Kind::Sym("...")) => {
                                p.pos += 1;
                                if p.kind(0) == Some(Kind::Id) {
                                    Ok(json!({"spread": p.id()?}))
                                } else {
                                    Ok(json!({"fill": null}))
                                }
                            }
                            Some(Kind::Id | Kind::Str) if p.is_sym(1, ":") => p.prod("named-instantiation-arg", |p| {
                                let name = p.id_or_string()?;
                                p.sym(":")?;
                                let expr = p.expr()?;
                                Ok(json!({"named": {"name": name, "expr": expr}}))
                            }),
                            Some(Kind::Id) => Ok(json!({"inferred": p.id()?})),
                            _ => p.fail(),
                        })
                    })
                })?
            };
            p.sym("}")?;
            Ok(json!({"package": package, "arguments": arguments}))
        })
    }
}

/// Tokenizes and recognises `src` as a `document`.
pub fn parse(src: &str) -> Result<RefTree, RefErr> {
    let (toks, unspecified) = tokenize(src)?;
    let mut p = P { src, toks, pos: 0, stack: Vec::new(), nodes: Vec::new() };
    match p.document() {
        Ok(json) => Ok(RefTree { json, toks: p.toks, nodes: p.nodes, unspecified }),
        Err(mut e) => {
            e.unspecified = unspecified.is_some();
            Err(e)
        }
    }
}

/// The production "where the derivations part" for a text the reference derives but the
/// parser rejects at `offset`: the innermost production that contains the token at
/// `offset` other than as its first token.
pub fn production_at(tree: &RefTree, offset: usize) -> &'static str {
    let Some(ti) = tree.toks.iter().position(|t| offset < t.end) else {
        return "document";
    };
    let mut best: Option<(&'static str, usize)> = None;
    for &(name, s, e) in &tree.nodes {
        if s < ti && ti < e && best.map_or(true, |(_, w)| e - s < w) {
            best = Some((name, e - s));
        }
    }
    best.map_or("document", |b| b.0)
}
