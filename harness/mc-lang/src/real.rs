//! The real front end, observed from outside: `Document::parse`, `DocumentPrinter`,
//! `Document::resolve`, the serialised AST and the diagnostics' labels.

use miette::{Diagnostic, GraphicalReportHandler, GraphicalTheme, NamedSource};
use serde_json::Value;
use wac_parser::{Document, DocumentPrinter};

pub struct RealErr {
    /// coarse error kind (independent of how many tokens the lookahead tried)
    pub kind: &'static str,
    pub message: String,
    /// (offset, len) of every label
    pub spans: Vec<(usize, usize)>,
}

pub fn err_info(e: &wac_parser::Error) -> RealErr {
    use wac_parser::Error as E;
    let kind = match e {
        E::Lexer { .. } => "lexer-error",
        E::Expected { .. } | E::ExpectedEither { .. } | E::ExpectedMultiple { .. } => "unexpected",
        E::EmptyType { .. } => "empty-type",
        E::InvalidVersion { .. } => "invalid-version",
    };
    RealErr { kind, message: e.to_string(), spans: labels(e) }
}

pub fn labels(d: &dyn Diagnostic) -> Vec<(usize, usize)> {
    d.labels().map(|l| l.map(|s| (s.offset(), s.len())).collect()).unwrap_or_default()
}

fn is_span(o: &serde_json::Map<String, Value>) -> Option<(usize, usize)> {
    if o.len() == 2 {
        Some((o.get("offset")?.as_u64()? as usize, o.get("length")?.as_u64()? as usize))
    } else {
        None
    }
}

#[derive(Clone, Copy, PartialEq)]
pub enum Docs {
    /// remove doc comments (C12: the grammar has no doc comments)
    Drop,
    /// flatten to the non-empty trimmed lines (C13)
    Flatten,
}

/// Strips source positions: span-shaped objects become null, `span` members disappear.
pub fn strip(v: &mut Value, docs: Docs) {
    match v {
        Value::Array(a) => a.iter_mut().for_each(|x| strip(x, docs)),
        Value::Object(o) => {
            if is_span(o).is_some() {
                *v = Value::Null;
                return;
            }
            o.remove("span");
            if let Some(d) = o.get_mut("docs") {
                if docs == Docs::Drop {
                    o.remove("docs");
                } else {
                    let mut lines = Vec::new();
                    for c in d.as_array().cloned().unwrap_or_default() {
                        for l in c["comment"].as_str().unwrap_or("").lines() {
                            if !l.trim().is_empty() {
                                lines.push(Value::String(l.trim().to_string()));
                            }
                        }
                    }
                    *d = Value::Array(lines);
                }
            }
            for (k, x) in o.iter_mut() {
                if !(k == "docs" && docs == Docs::Flatten) {
                    strip(x, docs);
                }
            }
        }
        _ => {}
    }
}

/// Collects every span-shaped object of a serialised tree.
pub fn collect_spans(v: &Value, out: &mut Vec<(usize, usize)>) {
    match v {
        Value::Array(a) => a.iter().for_each(|x| collect_spans(x, out)),
        Value::Object(o) => {
            if let Some(s) = is_span(o) {
                out.push(s);
            } else {
                o.values().for_each(|x| collect_spans(x, out));
            }
        }
        _ => {}
    }
}

/// `offset+len <= source.len()` and both ends on character boundaries.
pub fn span_defect(src: &str, (off, len): (usize, usize)) -> Option<&'static str> {
    let end = off.checked_add(len);
    match end {
        None => Some("span-overflows"),
        Some(e) if e > src.len() => Some("span-outside-source"),
        Some(e) => {
            if !src.is_char_boundary(off) {
                Some("span-start-inside-character")
            } else if !src.is_char_boundary(e) {
                Some("span-end-inside-character")
            } else {
                None
            }
        }
    }
}

pub fn to_json(doc: &Document) -> Value {
    serde_json::to_value(doc).expect("AST serialises")
}

pub fn print(doc: &Document, src: &str) -> String {
    let mut s = String::new();
    DocumentPrinter::new(&mut s, src, None).document(doc).expect("writing to a String cannot fail");
    s
}

/// Renders a diagnostic with miette's graphical handler (unicode theme, no colours).
pub fn render(d: &dyn Diagnostic, _src: &str) -> String {
    let mut out = String::new();
    let h = GraphicalReportHandler::new_themed(GraphicalTheme::unicode_nocolor());
    let _ = h.render_report(&mut out, d);
    out
}

/// A diagnostic paired with its source so that the labels are actually rendered.
#[derive(Debug)]
pub struct WithSource<'a, E: Diagnostic> {
    pub inner: &'a E,
    pub source: NamedSource<String>,
}

impl<E: Diagnostic> std::fmt::Display for WithSource<'_, E> {
    fn fmt(&self, f: &mut std::fmt::Formatter<'_>) -> std::fmt::Result {
        std::fmt::Display::fmt(self.inner, f)
    }
}
impl<E: Diagnostic> std::error::Error for WithSource<'_, E> {}
impl<E: Diagnostic> Diagnostic for WithSource<'_, E> {
    fn code<'b>(&'b self) -> Option<Box<dyn std::fmt::Display + 'b>> {
        self.inner.code()
    }
    fn labels(&self) -> Option<Box<dyn Iterator<Item = miette::LabeledSpan> + '_>> {
        self.inner.labels()
    }
    fn source_code(&self) -> Option<&dyn miette::SourceCode> {
        Some(&self.source)
    }
    fn help<'b>(&'b self) -> Option<Box<dyn std::fmt::Display + 'b>> {
        self.inner.help()
    }
}

pub fn render_with_source<E: Diagnostic>(e: &E, src: &str) -> String {
    let w = WithSource { inner: e, source: NamedSource::new("input.wac", src.to_string()) };
    render(&w, src)
}

/// The real lexer's token stream: (token name as wac prints it, offset, length), up to and
/// including the first lexical error (`Err(message)` in place of the name).
pub fn lex(src: &str) -> Vec<(Result<String, String>, usize, usize)> {
    let mut out = Vec::new();
    match wac_parser::lexer::Lexer::new(src) {
        Err((e, sp)) => out.push((Err(e.to_string()), sp.offset(), sp.len())),
        Ok(lexer) => {
            for (r, sp) in lexer {
                let stop = r.is_err();
                out.push((r.map(|t| t.to_string()).map_err(|e| e.to_string()), sp.offset(), sp.len()));
                if stop {
                    break;
                }
            }
        }
    }
    out
}
