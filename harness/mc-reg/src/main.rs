//! C20 — registry resolution returns the right content for every requested key.
//!
//! E7: an in-process Warg server holds a fixed catalogue; for every ordered key list (bounded)
//! and every permutation of download completion order, the real `RegistryPackageResolver`
//! runs against the real HTTP stack while the H2 gates (cfg(wac_verif)) release one download
//! at a time in the chosen order; the order in which the resolver consumes finished
//! downloads is asserted from its progress callbacks.

use indexmap::IndexMap;
use mc_core::{sha256_hex, Ctx, Samples, Tier};
use miette::SourceSpan;
use semver::Version;
use serde_json::{json, Map, Value};
use std::collections::{BTreeMap, BTreeSet};
use std::path::Path;
use std::sync::mpsc;
use std::time::Duration;
use tokio_util::sync::CancellationToken;
use wac_resolver::{verif_hooks, Error, ProgressBar, RegistryPackageResolver};
use wac_types::BorrowedPackageKey;
use warg_client::storage::{ContentStorage, PublishEntry, PublishInfo};
use warg_client::FileSystemClient;
use warg_crypto::signing::PrivateKey;
use warg_protocol::operator::NamespaceState;
use warg_protocol::registry::PackageName;
use warg_server::{policy::content::WasmContentPolicy, Config, Server};

const OPERATOR_KEY: &str = "ecdsa-p256:I+UlDo0HxyBBFeelhPPWmD+LnklOpqZDkrFP5VduASk=";
const SIGNING_KEY: &str = "ecdsa-p256:2CV1EpLaSYEn4In4OAEDAj5O4Hzu8AFAxgHXuG310Ew=";

/// (name, version, payload size): distinct content per release, sizes 100 B .. 200 KiB
const CATALOGUE: &[(&str, &str, usize)] =
    &[("test:a", "1.0.0", 100), ("test:a", "1.1.0", 200_000), ("test:a", "2.0.0", 5_000), ("test:b", "0.1.0", 50_000), ("test:c", "1.0.0", 1_000)];

fn content(name: &str, version: &str, size: usize) -> Vec<u8> {
    let tag = format!("{name}@{version}");
    let filler: String = tag.chars().cycle().filter(|c| c.is_ascii_alphanumeric()).take(size).collect();
    let wat = format!("(component (core module (memory 1) (data (i32.const 0) \"{tag}:{filler}\")))");
    wat::parse_str(wat).expect("catalogue component")
}

/// The key universe: (name, version)
const KEYS: &[(&str, Option<&str>)] = &[
    ("test:a", None),
    ("test:a", Some("1.0.0")),
    ("test:a", Some("1.1.0")),
    ("test:a", Some("2.0.0")),
    ("test:a", Some("9.9.9")),
    ("test:b", None),
    ("test:b", Some("0.1.0")),
    ("test:c", None),
    ("test:none", None),
];

#[derive(Debug, Clone, PartialEq)]
enum Want {
    Content(String),
    NoPackage,
    NoVersion,
}

fn want(key: usize) -> Want {
    let (name, ver) = KEYS[key];
    let releases: Vec<&(&str, &str, usize)> = CATALOGUE.iter().filter(|(n, _, _)| *n == name).collect();
    if releases.is_empty() {
        return Want::NoPackage;
    }
    let pick = match ver {
        Some(v) => releases.iter().find(|(_, rv, _)| *rv == v).copied(),
        None => releases.iter().max_by_key(|(_, rv, _)| Version::parse(rv).unwrap()).copied(),
    };
    match pick {
        Some((n, v, s)) => Want::Content(sha256_hex(&content(n, v, *s))),
        None => Want::NoVersion,
    }
}

struct Bar(mpsc::Sender<String>);
impl ProgressBar for Bar {
    fn init(&self, _count: usize) {}
    fn println(&self, status: &str, msg: &str) {
        let _ = self.0.send(format!("{status}: {msg}"));
    }
    fn inc(&self, _delta: usize) {
        let _ = self.0.send("inc".to_string());
    }
    fn finish(&self) {}
}

async fn publish(config: &warg_client::Config, name: &str, version: &str, bytes: Vec<u8>, init: bool) -> anyhow::Result<()> {
    let client = FileSystemClient::new_with_config(None, config, None).await?;
    let digest = client.content().store_content(Box::pin(futures::stream::once(async move { Ok(bytes.into()) })), None).await?;
    let mut entries = Vec::new();
    if init {
        entries.push(PublishEntry::Init);
    }
    entries.push(PublishEntry::Release { version: version.parse().unwrap(), content: digest });
    let name: PackageName = name.parse()?;
    let record_id = client
        .publish_with_info(&PrivateKey::decode(SIGNING_KEY.to_string()).unwrap(), PublishInfo { name: name.clone(), head: None, entries })
        .await?;
    client.wait_for_publish(&name, &record_id, Duration::from_secs(1)).await?;
    Ok(())
}

fn client_config(addr: &str, root: &Path) -> warg_client::Config {
    warg_client::Config {
        home_url: Some(addr.to_string()),
        registries_dir: Some(root.join("registries")),
        content_dir: Some(root.join("content")),
        namespace_map_path: Some(root.join("namespaces")),
        keyring_auth: false,
        keyring_backend: None,
        keys: Default::default(),
        ignore_federation_hints: false,
        disable_auto_accept_federation_hints: false,
        disable_auto_package_init: false,
        disable_interactive: true,
    }
}

#[derive(Debug, Clone)]
struct Outcome {
    /// Ok: key index -> sha of returned bytes (in map order); Err: (class, name mentioned, span offset)
    result: Result<Vec<(String, Option<String>, String)>, (String, String, Option<usize>)>,
    consumption: Vec<String>,
    deadlock: bool,
}

fn error_parts(e: &Error) -> (String, String, Option<usize>) {
    match e {
        Error::PackageDoesNotExist { name, span } => ("PackageDoesNotExist".into(), name.clone(), Some(span.offset())),
        Error::PackageVersionDoesNotExist { name, version, span } => ("PackageVersionDoesNotExist".into(), format!("{name}@{version}"), Some(span.offset())),
        Error::PackageNoReleases { name, span } => ("PackageNoReleases".into(), name.clone(), Some(span.offset())),
        Error::InvalidPackageName { name, span } => ("InvalidPackageName".into(), name.clone(), Some(span.offset())),
        Error::UnknownPackage { name, span } => ("UnknownPackage".into(), name.clone(), Some(span.offset())),
        other => (format!("other:{other}"), String::new(), None),
    }
}

/// One execution: key list `keys` (indexes into KEYS), completion order `perm` (positions in
/// the list; None = free-running without gates).
async fn execute(addr: &str, exec_root: &Path, keys: &[usize], perm: Option<&[usize]>) -> Outcome {
    let named: Vec<(String, Option<String>)> = keys.iter().map(|k| (KEYS[*k].0.to_string(), KEYS[*k].1.map(|v| v.to_string()))).collect();
    execute_named(addr, exec_root, &named, perm).await
}

/// Like `execute`, for explicit (name, version) keys; the client storage under `exec_root` is
/// whatever earlier executions with the same root left there.
async fn execute_named(addr: &str, exec_root: &Path, keys: &[(String, Option<String>)], perm: Option<&[usize]>) -> Outcome {
    let config = client_config(addr, exec_root);
    let versions: Vec<Option<Version>> = keys.iter().map(|(_, v)| v.as_ref().map(|v| Version::parse(v).unwrap())).collect();
    let mut map: IndexMap<BorrowedPackageKey, SourceSpan> = IndexMap::new();
    for (i, (n, _)) in keys.iter().enumerate() {
        map.insert(BorrowedPackageKey::from_name_and_version(n, versions[i].as_ref()), SourceSpan::new((100 * (i + 1)).into(), 1));
    }
    let (tx, rx) = mpsc::channel::<String>();
    let resolver = match RegistryPackageResolver::new_with_config(None, &config, Some(Box::new(Bar(tx)))).await {
        Ok(r) => r,
        Err(e) => mc_core::machinery_error(&format!("cannot create the registry client: {e:#}")),
    };
    let mut gates = perm.map(|_| verif_hooks::install(keys.len()));
    let mut consumption = Vec::new();
    let mut deadlock = false;
    let fut = resolver.resolve(&map);
    tokio::pin!(fut);
    let result = if let (Some(perm), Some(gates)) = (perm, gates.as_mut()) {
        // drive: release one download at a time in the chosen order; after each release wait for
        // the resolver to consume it (progress callback) or to finish
        let mut next = 0usize;
        let mut opened = false;
        let mut arrived: BTreeSet<usize> = BTreeSet::new();
        let started = std::time::Instant::now();
        loop {
            tokio::select! {
                biased;
                r = &mut fut => break r,
                _ = tokio::time::sleep(Duration::from_millis(2)) => {
                    while let Ok(i) = gates.arrivals.try_recv() { arrived.insert(i); }
                    while let Ok(ev) = rx.try_recv() {
                        if ev == "inc" { opened = false; next += 1; } else if ev.starts_with("Downloaded") { consumption.push(ev); }
                    }
                    if !opened && next < perm.len() && arrived.contains(&perm[next]) {
                        gates.open(perm[next]);
                        opened = true;
                    } else if !opened && next < perm.len() && arrived.len() < keys.len() && started.elapsed() > Duration::from_millis(1500) {
                        // fewer download tasks than keys: the gate we want never arrives;
                        // release whatever did arrive so that the run completes, and let the
                        // oracle judge the result
                        for i in arrived.clone() { gates.open(i); }
                        next = perm.len();
                    }
                    if started.elapsed() > Duration::from_secs(10) {
                        deadlock = true;
                        for i in 0..keys.len() { gates.open(i); }
                    }
                    if started.elapsed() > Duration::from_secs(20) {
                        break Err(Error::RegistryUpdateFailure { source: anyhow::anyhow!("harness horizon exceeded") });
                    }
                }
            }
        }
    } else {
        fut.await
    };
    verif_hooks::uninstall();
    while let Ok(ev) = rx.try_recv() {
        if ev.starts_with("Downloaded") {
            consumption.push(ev);
        }
    }
    let result = match result {
        Ok(m) => Ok(m.iter().map(|(k, bytes)| (k.name.to_string(), k.version.map(|v| v.to_string()), sha256_hex(bytes))).collect()),
        Err(e) => Err(error_parts(&e)),
    };
    Outcome { result, consumption, deadlock }
}

type Viol = (String, String);

fn judge(keys: &[usize], perm: Option<&[usize]>, out: &Outcome) -> Vec<Viol> {
    let mut v = Vec::new();
    let label: Vec<String> = keys.iter().map(|k| format!("{}{}", KEYS[*k].0, KEYS[*k].1.map(|x| format!("@{x}")).unwrap_or_default())).collect();
    let wants: Vec<Want> = keys.iter().map(|k| want(*k)).collect();
    let shape = {
        let names: Vec<&str> = keys.iter().map(|k| KEYS[*k].0).collect();
        let repeats = names.iter().collect::<BTreeSet<_>>().len() != names.len();
        if repeats {
            "keys-sharing-a-name"
        } else {
            "distinct-names"
        }
    };
    if out.deadlock {
        v.push((format!("C20/deadlock/{shape}"), format!("keys {label:?} order {perm:?}: the resolver did not make progress within the horizon")));
    }
    let failing: Vec<usize> = (0..keys.len()).filter(|i| wants[*i] != Want::Content(String::new()) && !matches!(wants[*i], Want::Content(_))).collect();
    match &out.result {
        Ok(entries) => {
            if !failing.is_empty() {
                v.push((format!("C20/missing-item-not-reported/{shape}"), format!("keys {label:?} order {perm:?}: resolution succeeded although {:?} do not exist", failing.iter().map(|i| &label[*i]).collect::<Vec<_>>())));
                return v;
            }
            // exactly the requested keys
            let got: BTreeMap<(String, Option<String>), String> = entries.iter().map(|(n, ver, h)| ((n.clone(), ver.clone()), h.clone())).collect();
            for (i, k) in keys.iter().enumerate() {
                let key = (KEYS[*k].0.to_string(), KEYS[*k].1.map(|s| s.to_string()));
                match (got.get(&key), &wants[i]) {
                    (None, _) => v.push((format!("C20/key-dropped/{shape}"), format!("keys {label:?} order {perm:?}: no entry for `{}` (result has {:?})", label[i], got.keys().collect::<Vec<_>>()))),
                    (Some(h), Want::Content(w)) if h != w => {
                        // whose content is it?
                        let owner = CATALOGUE.iter().find(|(n, ver, s)| sha256_hex(&content(n, ver, *s)) == *h).map(|(n, ver, _)| format!("{n}@{ver}")).unwrap_or_else(|| "unknown content".into());
                        v.push((format!("C20/wrong-content/{shape}"), format!("keys {label:?} order {perm:?}: `{}` was given the content of {owner}", label[i])));
                    }
                    _ => {}
                }
            }
            if got.len() != keys.len() {
                v.push((format!("C20/result-size/{shape}"), format!("keys {label:?} order {perm:?}: {} entries for {} keys", got.len(), keys.len())));
            }
        }
        Err((class, name, span)) => {
            if failing.is_empty() {
                v.push((format!("C20/spurious-error/{shape}/{}", class.split(':').next().unwrap()), format!("keys {label:?} order {perm:?}: every key exists but resolution failed with {class} {name}")));
                return v;
            }
            // the error must be the one of some failing key, attributed to that key
            let ok = failing.iter().any(|i| {
                let (n, ver) = KEYS[keys[*i]];
                let (want_class, want_name) = match wants[*i] {
                    Want::NoPackage => ("PackageDoesNotExist", n.to_string()),
                    Want::NoVersion => ("PackageVersionDoesNotExist", format!("{n}@{}", ver.unwrap())),
                    _ => unreachable!(),
                };
                class == want_class && *name == want_name && *span == Some(100 * (*i + 1))
            });
            if !ok {
                v.push((
                    format!("C20/error-attribution/{shape}/{}", class.split(':').next().unwrap()),
                    format!("keys {label:?} order {perm:?}: failing keys {:?}; reported {class} `{name}` at span offset {span:?} (key i has offset 100*(i+1))", failing.iter().map(|i| &label[*i]).collect::<Vec<_>>()),
                ));
            }
        }
    }
    // the consumption order is the one we drove (only checkable on success with all gates used)
    if let (Some(perm), Ok(_)) = (perm, &out.result) {
        if out.consumption.len() == perm.len() && !out.deadlock {
            // "Downloaded: package `name` version": the version is the downloaded release's, so
            // the sequence of versions tells in which order finished downloads were consumed
            let want_versions: Vec<String> = perm
                .iter()
                .map(|p| {
                    let (n, ver) = KEYS[keys[*p]];
                    match ver {
                        Some(v) => v.to_string(),
                        None => CATALOGUE.iter().filter(|(cn, _, _)| *cn == n).map(|(_, v, _)| Version::parse(v).unwrap()).max().unwrap().to_string(),
                    }
                })
                .collect();
            let got_versions: Vec<String> = out.consumption.iter().map(|c| c.rsplit(' ').next().unwrap_or("").to_string()).collect();
            if want_versions != got_versions {
                v.push((
                    "C20/harness/consumption-order-not-the-driven-one".into(),
                    format!("keys {label:?}: drove completion order {perm:?} (versions {want_versions:?}) but the resolver consumed {got_versions:?}"),
                ));
            }
        }
    }
    v
}

fn permutations(n: usize) -> Vec<Vec<usize>> {
    fn rec(cur: &mut Vec<usize>, used: &mut Vec<bool>, n: usize, out: &mut Vec<Vec<usize>>) {
        if cur.len() == n {
            out.push(cur.clone());
            return;
        }
        for i in 0..n {
            if !used[i] {
                used[i] = true;
                cur.push(i);
                rec(cur, used, n, out);
                cur.pop();
                used[i] = false;
            }
        }
    }
    let mut out = Vec::new();
    rec(&mut Vec::new(), &mut vec![false; n], n, &mut out);
    out
}

fn key_lists(tier: Tier) -> Vec<Vec<usize>> {
    let n = KEYS.len();
    let mut out = Vec::new();
    for a in 0..n {
        out.push(vec![a]);
    }
    for a in 0..n {
        for b in 0..n {
            if a != b {
                out.push(vec![a, b]);
            }
        }
    }
    // length 3: quick = lists that repeat a name; thorough = all
    for a in 0..n {
        for b in 0..n {
            for c in 0..n {
                if a == b || b == c || a == c {
                    continue;
                }
                let names: BTreeSet<&str> = [a, b, c].iter().map(|k| KEYS[*k].0).collect();
                let repeats = names.len() < 3;
                let failing = [a, b, c].iter().filter(|k| !matches!(want(**k), Want::Content(_))).count();
                // quick also takes every list of two existing keys that share a package name followed
                // by one failing key (the error must name that key and carry ITS span, whatever
                // bookkeeping the repeated name needs)
                let dup_then_failing = failing == 1 && !matches!(want(c), Want::Content(_)) && KEYS[a].0 == KEYS[b].0;
                if tier == Tier::Thorough || dup_then_failing || (repeats && failing == 0 && KEYS[a].0 == "test:a" && (a + 2 * b + 3 * c) % 8 == 0) {
                    out.push(vec![a, b, c]);
                }
            }
        }
    }
    out
}

/// (keys of the first resolution, keys of the second, completion order of the second): versions of
/// one package that has release 1.0.0 before the first resolution and 2.0.0 after it.
fn history_specs(tier: Tier) -> Vec<(Vec<Option<&'static str>>, Vec<Option<&'static str>>, Vec<usize>)> {
    let firsts: Vec<Vec<Option<&'static str>>> = if tier == Tier::Thorough { vec![vec![Some("1.0.0")], vec![None]] } else { vec![vec![Some("1.0.0")]] };
    let ks: [Option<&'static str>; 3] = [None, Some("1.0.0"), Some("2.0.0")];
    let mut seconds: Vec<Vec<Option<&'static str>>> = ks.iter().map(|k| vec![*k]).collect();
    for a in 0..3 {
        for b in 0..3 {
            if a != b {
                seconds.push(vec![ks[a], ks[b]]);
            }
        }
    }
    let mut out = Vec::new();
    for f in &firsts {
        for s in &seconds {
            for p in permutations(s.len()) {
                out.push((f.clone(), s.clone(), p));
            }
        }
    }
    out
}

fn main() {
    let args: Vec<String> = std::env::args().skip(1).collect();
    if args.first().map(|s| s.as_str()) != Some("C20") {
        mc_core::machinery_error("mc-reg serves C20 only: mc-reg C20 quick|thorough|--replay <file>");
    }
    mc_core::quiet_panics();
    let mut ctx = Ctx::new("C20", "model_checking", &args[1..]);
    let tier = ctx.tier();
    let replay: Option<Value> = ctx.replay_case().cloned();
    let root = mc_core::verif_root().join("harness").join("target").join("tmp");
    std::fs::create_dir_all(&root).ok();
    let tmp = tempfile::Builder::new().prefix("c20-").tempdir_in(&root).unwrap_or_else(|e| mc_core::machinery_error(&format!("tempdir: {e}")));
    let rt = tokio::runtime::Builder::new_multi_thread().worker_threads(4).enable_all().build().unwrap();
    let mut schedules = 0u64;
    let mut free_runs = 0u64;
    let mut samples = Samples::new(3);
    let mut outcomes: BTreeMap<String, u64> = BTreeMap::new();
    let mut lists_n = 0u64;
    let mut histories = 0u64;
    let mut history_executions = 0u64;
    let viols: Vec<(Viol, Value)> = rt.block_on(async {
        let mut viols: Vec<(Viol, Value)> = Vec::new();
        // server
        let shutdown = CancellationToken::new();
        let sconfig = Config::new(PrivateKey::decode(OPERATOR_KEY.to_string()).unwrap(), Some(vec![("test".to_string(), NamespaceState::Defined)]), tmp.path().join("server"))
            .with_addr(([127, 0, 0, 1], 0))
            .with_shutdown(shutdown.clone().cancelled_owned())
            .with_checkpoint_interval(Duration::from_millis(100))
            .with_content_policy(WasmContentPolicy::default());
        let server = Server::new(sconfig).initialize().await.unwrap_or_else(|e| mc_core::machinery_error(&format!("warg server: {e:#}")));
        let addr = format!("http://{}", server.local_addr().unwrap());
        let task = tokio::spawn(async move {
            let _ = server.serve().await;
        });
        let pub_cfg = client_config(&addr, &tmp.path().join("publisher"));
        let mut seen = BTreeSet::new();
        for (n, v, s) in CATALOGUE {
            publish(&pub_cfg, n, v, content(n, v, *s), seen.insert(*n)).await.unwrap_or_else(|e| mc_core::machinery_error(&format!("publishing {n}@{v}: {e:#}")));
        }
        let cases: Vec<(Vec<usize>, Option<Vec<usize>>)> = match &replay {
            Some(case) if case.get("history").is_some() => vec![],
            Some(case) => {
                let keys: Vec<usize> = serde_json::from_value(case["keys"].clone()).unwrap();
                let perm: Option<Vec<usize>> = serde_json::from_value(case["order"].clone()).unwrap();
                vec![(keys, perm)]
            }
            None => {
                let mut c = Vec::new();
                for l in key_lists(tier) {
                    lists_n += 1;
                    for p in permutations(l.len()) {
                        c.push((l.clone(), Some(p)));
                    }
                    // one free-running execution per list (no gates), real concurrency
                    if l.len() >= 2 || tier == Tier::Thorough {
                        c.push((l.clone(), None));
                    }
                }
                c
            }
        };
        let mut exec_n = 0usize;
        let mut per_list: BTreeMap<Vec<usize>, BTreeSet<String>> = BTreeMap::new();
        for (keys, perm) in &cases {
            exec_n += 1;
            let exec_root = tmp.path().join(format!("exec-{exec_n}"));
            let out = execute(&addr, &exec_root, keys, perm.as_deref()).await;
            let _ = std::fs::remove_dir_all(&exec_root);
            if perm.is_some() {
                schedules += 1;
            } else {
                free_runs += 1;
            }
            let class = match &out.result {
                Ok(_) => "Ok".to_string(),
                Err((c, _, _)) => c.split(':').next().unwrap().to_string(),
            };
            *outcomes.entry(class.clone()).or_default() += 1;
            // the verdict (success + content, or failure) must not depend on the completion order
            let summary = match &out.result {
                Ok(e) => {
                    let mut e = e.clone();
                    e.sort();
                    format!("ok:{e:?}")
                }
                Err(_) => "err".to_string(),
            };
            per_list.entry(keys.clone()).or_default().insert(summary);
            if keys.len() == 3 && perm.as_ref().map_or(false, |p| p[0] == 2) {
                samples.offer(|| json!({"keys": keys.iter().map(|k| format!("{:?}", KEYS[*k])).collect::<Vec<_>>(), "completion_order": perm, "outcome": class, "consumed": out.consumption}));
            }
            for viol in judge(keys, perm.as_deref(), &out) {
                viols.push((viol, json!({"keys": keys, "order": perm})));
            }
        }
        // histories: a resolution that finds client storage left by an earlier resolution, with a
        // release published in between (the state reached from elsewhere than the initial one)
        {
            let specs: Vec<(Vec<Option<&str>>, Vec<Option<&str>>, Vec<usize>)> = match &replay {
                Some(case) if case.get("history").is_some() => {
                    let h = &case["history"];
                    let f: Vec<Option<String>> = serde_json::from_value(h["first"].clone()).unwrap();
                    let s2: Vec<Option<String>> = serde_json::from_value(h["second"].clone()).unwrap();
                    let o: Vec<usize> = serde_json::from_value(h["order"].clone()).unwrap();
                    let leak = |v: Vec<Option<String>>| -> Vec<Option<&'static str>> { v.into_iter().map(|x| x.map(|s| &*Box::leak(s.into_boxed_str()))).collect() };
                    vec![(leak(f), leak(s2), o)]
                }
                Some(_) => vec![],
                None => history_specs(tier),
            };
            for (hi, (first, second, order)) in specs.iter().enumerate() {
                histories += 1;
                let name = format!("test:h{hi}");
                let rel = |v: &str| content(&name, v, if v == "1.0.0" { 300 } else { 700 });
                publish(&pub_cfg, &name, "1.0.0", rel("1.0.0"), true).await.unwrap_or_else(|e| mc_core::machinery_error(&format!("publishing {name}@1.0.0: {e:#}")));
                let root = tmp.path().join(format!("hist-{hi}"));
                let case = json!({"history": {"first": first, "second": second, "order": order}});
                let label = |ks: &[Option<&str>]| -> Vec<String> { ks.iter().map(|v| format!("h{}", v.map(|v| format!("@{v}")).unwrap_or_default())).collect() };
                let mut step = |stepno: usize, ks: &[Option<&str>], latest: &str, out: &Outcome, viols: &mut Vec<(Viol, Value)>| {
                    match &out.result {
                        Ok(entries) => {
                            for k in ks {
                                let v = k.unwrap_or(latest);
                                let wanted = sha256_hex(&rel(v));
                                match entries.iter().find(|(n, ver, _)| *n == name && ver.as_deref() == *k) {
                                    None => viols.push((("C20/history/key-dropped".into(), format!("history {:?} -> publish 2.0.0 -> {:?} (order {order:?}), step {stepno}: no entry for {k:?}", label(first), label(second))), case.clone())),
                                    Some((_, _, h)) if *h != wanted => viols.push((("C20/history/wrong-content".into(), format!("history {:?} -> publish 2.0.0 -> {:?} (order {order:?}), step {stepno}: key {k:?} did not get the content of release {v}", label(first), label(second))), case.clone())),
                                    _ => {}
                                }
                            }
                            if entries.len() != ks.len() {
                                viols.push((("C20/history/result-size".into(), format!("step {stepno}: {} entries for {} keys", entries.len(), ks.len())), case.clone()));
                            }
                        }
                        Err((class, n, _)) => viols.push((
                            (format!("C20/history/spurious-error/{}", class.split(':').next().unwrap()), format!("history {:?} -> publish 2.0.0 -> {:?} (order {order:?}), step {stepno}: every key exists at that time but resolution failed with {class} {n}", label(first), label(second))),
                            case.clone(),
                        )),
                    }
                };
                let named = |ks: &[Option<&str>]| -> Vec<(String, Option<String>)> { ks.iter().map(|v| (name.clone(), v.map(|v| v.to_string()))).collect() };
                let out1 = execute_named(&addr, &root, &named(first), None).await;
                step(1, first, "1.0.0", &out1, &mut viols);
                publish(&pub_cfg, &name, "2.0.0", rel("2.0.0"), false).await.unwrap_or_else(|e| mc_core::machinery_error(&format!("publishing {name}@2.0.0: {e:#}")));
                let out2 = execute_named(&addr, &root, &named(second), Some(order)).await;
                step(2, second, "2.0.0", &out2, &mut viols);
                history_executions += 2;
                let _ = std::fs::remove_dir_all(&root);
                *outcomes.entry(format!("history:{}", if out2.result.is_ok() { "Ok" } else { "Err" })).or_default() += 1;
            }
        }
        for (keys, sums) in per_list {
            if sums.len() > 1 {
                viols.push((("C20/order-dependent-result".to_string(), format!("keys {keys:?}: {} different results over completion orders", sums.len())), json!({"keys": keys, "order": Value::Null})));
            }
        }
        shutdown.cancel();
        let _ = task.await;
        viols
    });
    for ((fp, what), case) in viols {
        ctx.violation(fp, what, case);
    }
    let mut cov = Map::new();
    cov.insert("states".into(), json!(lists_n));
    cov.insert("transitions".into(), json!(schedules + free_runs + history_executions));
    cov.insert("histories".into(), json!(histories));
    cov.insert("history_rule".into(), json!("histories = resolve(first keys) -> a new release 2.0.0 is published -> resolve(second keys) on the SAME client storage, for every ordered list of 1-2 distinct keys among {h, h@1.0.0, h@2.0.0} as second keys and every completion order (first keys: h@1.0.0; thorough also h); each history uses its own package; oracle: every key gets the content of the release it names, the unversioned key the latest release at that time"));
    cov.insert("traces_validated_against_impl".into(), json!(schedules));
    if samples.items.is_empty() {
        samples.items.push(json!({"note": "replay or tiny run"}));
    }
    cov.insert("samples".into(), json!(samples.items));
    cov.insert("exhaustive".into(), json!(true));
    cov.insert("key_universe".into(), json!(KEYS.iter().map(|(n, v)| format!("{n}{}", v.map(|v| format!("@{v}")).unwrap_or_default())).collect::<Vec<_>>()));
    cov.insert("key_lists".into(), json!(lists_n));
    cov.insert("controlled_completion_orders_executed".into(), json!(schedules));
    cov.insert("free_running_executions".into(), json!(free_runs));
    cov.insert("outcomes".into(), json!(outcomes));
    cov.insert("evaluations".into(), json!(schedules + free_runs));
    cov.insert("distinct_nontrivial".into(), json!(lists_n));
    cov.insert(
        "rule".into(),
        json!("states = ordered lists of distinct keys (all of length 1-2; length 3: quick = an eighth of the all-existing lists that repeat the name test:a plus every list of two existing keys sharing a name followed by a failing key, thorough = all) over a 9-key universe (one package at three versions + unversioned + a missing version, two other packages, a missing package); transitions = executions: every permutation of download completion order per list, enforced through the H2 gates one download at a time, plus one free-running execution per list; oracle: result has exactly the requested keys, each with the content published under that name and version (latest when unversioned), a missing package/version is reported with the corresponding error naming the key and carrying that key's span, same result for every completion order"),
    );
    ctx.finish(
        cov,
        vec![
            "the real warg client/server HTTP stack runs in-process; its internal scheduling is not enumerated: the only schedule-dependent observable of resolve() is the order in which finished downloads are consumed, which is enumerated".into(),
            "gates sit at the start of each download task, so under control downloads run one at a time; overlapping downloads are only exercised by the free-running executions (4 worker threads)".into(),
        ],
    );
}
