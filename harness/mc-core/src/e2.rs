//! E2 — independent section-level reader of an encoded component (DESIGN.md §4 E2, A.2),
//! and the canonical type printer over the reference validator's type tables (E3).
//!
//! Shares no code with wac: a from-scratch walk over `wasmparser::Parser` payloads that
//! rebuilds the top-level index spaces and assigns every index a provenance term.

use serde::Serialize;
use std::collections::{BTreeMap, BTreeSet};
use wasmparser::component_types::*;
use wasmparser::types::TypesRef;
use wasmparser::{
    ComponentAlias, ComponentExternalKind, ComponentInstance, ComponentOuterAliasKind, ComponentTypeRef, KnownCustom, Parser,
    Payload, PrimitiveValType, Validator, WasmFeatures,
};

#[derive(Clone, Copy, Debug, PartialEq, Eq, PartialOrd, Ord, Hash, Serialize)]
pub enum Kind {
    Module,
    Func,
    Value,
    Type,
    Instance,
    Component,
}

impl From<ComponentExternalKind> for Kind {
    fn from(k: ComponentExternalKind) -> Kind {
        match k {
            ComponentExternalKind::Module => Kind::Module,
            ComponentExternalKind::Func => Kind::Func,
            ComponentExternalKind::Value => Kind::Value,
            ComponentExternalKind::Type => Kind::Type,
            ComponentExternalKind::Instance => Kind::Instance,
            ComponentExternalKind::Component => Kind::Component,
        }
    }
}

fn kind_of_ref(r: &ComponentTypeRef) -> Kind {
    match r {
        ComponentTypeRef::Module(_) => Kind::Module,
        ComponentTypeRef::Func(_) => Kind::Func,
        ComponentTypeRef::Value(_) => Kind::Value,
        ComponentTypeRef::Type(_) => Kind::Type,
        ComponentTypeRef::Instance(_) => Kind::Instance,
        ComponentTypeRef::Component(_) => Kind::Component,
    }
}

#[derive(Clone, Debug, PartialEq, Eq, PartialOrd, Ord, Hash, Serialize)]
pub enum Prov {
    /// an imported item of the top-level component
    Import(String),
    /// an implicit import, identified by its semver track (graph side: slot name's track)
    Implicit(String),
    /// an embedded component, by the SHA-256 of its bytes
    Embedded(String),
    /// `instantiate component with args`
    Inst(Box<Prov>, BTreeMap<String, Prov>),
    /// alias of an export of an instance
    Alias(Box<Prov>, String),
    /// the k-th (k >= 1) further instantiation that is written exactly like an earlier one: two
    /// instantiations of one component with the same arguments are still two instances (their
    /// resources and state are distinct). Only produced by `decode_siblings`.
    Nth(u32, Box<Prov>),
    /// n-th locally defined type (compared through export names, not by number)
    TypeDef(u32),
    /// instance built from local items
    Bundle(BTreeMap<String, Prov>),
    Other(String),
}

#[derive(Default, Debug, Clone, Serialize)]
pub struct Decoded {
    pub imports: Vec<(String, Kind)>,
    pub exports: Vec<(String, Kind, Prov)>,
    pub instantiations: Vec<Prov>,
    pub aliases: Vec<Prov>,
    pub embedded: Vec<String>,
    pub names: Vec<(Kind, String, Prov)>,
    /// canonical type of every import / export, from the reference validator
    pub import_types: BTreeMap<String, String>,
    pub export_types: BTreeMap<String, String>,
    /// order of definitions: a coarse trace of top-level items in emission order
    pub emission: Vec<String>,
    /// for every instance import: member name -> canonical type of the member
    pub import_members: BTreeMap<String, BTreeMap<String, String>>,
    /// for every instance import: the other imports whose exported types it refers to
    /// (type identity in the reference validator)
    pub import_deps: BTreeMap<String, BTreeSet<String>>,
}

#[derive(Default)]
struct Spaces {
    components: Vec<Prov>,
    instances: Vec<Prov>,
    funcs: Vec<Prov>,
    values: Vec<Prov>,
    types: Vec<Prov>,
    modules: Vec<Prov>,
}

impl Spaces {
    fn space(&mut self, k: Kind) -> &mut Vec<Prov> {
        match k {
            Kind::Module => &mut self.modules,
            Kind::Func => &mut self.funcs,
            Kind::Value => &mut self.values,
            Kind::Type => &mut self.types,
            Kind::Instance => &mut self.instances,
            Kind::Component => &mut self.components,
        }
    }
    fn get(&mut self, k: Kind, i: u32) -> Result<Prov, String> {
        self.space(k).get(i as usize).cloned().ok_or_else(|| format!("{k:?} index {i} out of range"))
    }
}

pub fn sha256_hex(data: &[u8]) -> String {
    crate::run::sha256_hex(data)
}

/// Reads `bytes` (which must already be known to validate). Errors are reader errors of
/// this harness' walk (unsupported construct), not verdicts.
pub fn decode(bytes: &[u8]) -> Result<Decoded, String> {
    decode_with(bytes, None)
}

/// Like `decode`, but instantiations written identically (equal after `norm`, the caller's
/// identification of names) are told apart by their order of emission (`Prov::Nth`).
pub fn decode_siblings(bytes: &[u8], norm: &dyn Fn(&Prov) -> Prov) -> Result<Decoded, String> {
    decode_with(bytes, Some(norm))
}

fn decode_with(bytes: &[u8], siblings: Option<&dyn Fn(&Prov) -> Prov>) -> Result<Decoded, String> {
    let mut d = Decoded::default();
    let mut plain_insts: Vec<Prov> = Vec::new();
    let mut sp = Spaces::default();
    let mut depth = 0usize;
    let mut typedefs = 0u32;
    for payload in Parser::new(0).parse_all(bytes) {
        let payload = payload.map_err(|e| format!("parse error: {e}"))?;
        match &payload {
            Payload::Version { .. } => {
                depth += 1;
                continue;
            }
            Payload::End(_) => {
                depth -= 1;
                continue;
            }
            _ => {}
        }
        if depth != 1 {
            continue;
        }
        match payload {
            Payload::ComponentSection { unchecked_range, .. } => {
                let h = sha256_hex(&bytes[unchecked_range.clone()]);
                d.embedded.push(h.clone());
                d.emission.push(format!("component {}", &h[..8]));
                sp.components.push(Prov::Embedded(h));
            }
            Payload::ModuleSection { unchecked_range, .. } => {
                let h = sha256_hex(&bytes[unchecked_range.clone()]);
                sp.modules.push(Prov::Other(format!("module {h}")));
            }
            Payload::ComponentImportSection(s) => {
                for imp in s {
                    let imp = imp.map_err(|e| e.to_string())?;
                    let k = kind_of_ref(&imp.ty);
                    d.imports.push((imp.name.0.to_string(), k));
                    d.emission.push(format!("import {}", imp.name.0));
                    sp.space(k).push(Prov::Import(imp.name.0.to_string()));
                }
            }
            Payload::ComponentTypeSection(s) => {
                for t in s {
                    t.map_err(|e| e.to_string())?;
                    sp.types.push(Prov::TypeDef(typedefs));
                    typedefs += 1;
                }
            }
            Payload::CoreTypeSection(_) => {}
            Payload::ComponentAliasSection(s) => {
                for a in s {
                    match a.map_err(|e| e.to_string())? {
                        ComponentAlias::InstanceExport { kind, instance_index, name } => {
                            let inst = sp.get(Kind::Instance, instance_index)?;
                            let p = Prov::Alias(Box::new(inst), name.to_string());
                            d.aliases.push(p.clone());
                            d.emission.push(format!("alias {name}"));
                            sp.space(kind.into()).push(p);
                        }
                        ComponentAlias::Outer { kind, .. } => {
                            let k = match kind {
                                ComponentOuterAliasKind::CoreModule => Kind::Module,
                                ComponentOuterAliasKind::CoreType => continue,
                                ComponentOuterAliasKind::Type => Kind::Type,
                                ComponentOuterAliasKind::Component => Kind::Component,
                            };
                            sp.space(k).push(Prov::Other("outer alias".into()));
                        }
                        ComponentAlias::CoreInstanceExport { .. } => {}
                    }
                }
            }
            Payload::ComponentInstanceSection(s) => {
                for i in s {
                    match i.map_err(|e| e.to_string())? {
                        ComponentInstance::Instantiate { component_index, args } => {
                            let comp = sp.get(Kind::Component, component_index)?;
                            let mut m = BTreeMap::new();
                            for a in args.iter() {
                                let p = sp.get(a.kind.into(), a.index)?;
                                if m.insert(a.name.to_string(), p).is_some() {
                                    return Err(format!("duplicate instantiation argument {}", a.name));
                                }
                            }
                            let p = Prov::Inst(Box::new(comp), m);
                            let p = match siblings {
                                None => p,
                                Some(norm) => {
                                    let np = norm(&p);
                                    let earlier = plain_insts.iter().filter(|q| **q == np).count() as u32;
                                    plain_insts.push(np);
                                    if earlier > 0 {
                                        Prov::Nth(earlier, Box::new(p))
                                    } else {
                                        p
                                    }
                                }
                            };
                            d.instantiations.push(p.clone());
                            d.emission.push("instantiate".to_string());
                            sp.instances.push(p);
                        }
                        ComponentInstance::FromExports(exports) => {
                            let mut m = BTreeMap::new();
                            for e in exports.iter() {
                                m.insert(e.name.0.to_string(), sp.get(e.kind.into(), e.index)?);
                            }
                            sp.instances.push(Prov::Bundle(m));
                        }
                    }
                }
            }
            Payload::ComponentExportSection(s) => {
                for e in s {
                    let e = e.map_err(|e| e.to_string())?;
                    let k: Kind = e.kind.into();
                    let p = sp.get(k, e.index)?;
                    d.exports.push((e.name.0.to_string(), k, p.clone()));
                    d.emission.push(format!("export {}", e.name.0));
                    // an export creates a new index denoting the same item
                    sp.space(k).push(p);
                }
            }
            Payload::ComponentCanonicalSection(s) => {
                for c in s {
                    use wasmparser::CanonicalFunction::*;
                    if let Lift { .. } = c.map_err(|e| e.to_string())? {
                        sp.funcs.push(Prov::Other("lift".into()));
                    }
                }
            }
            Payload::CustomSection(c) => {
                if let KnownCustom::ComponentName(reader) = c.as_known() {
                    for sub in reader {
                        use wasmparser::ComponentName as N;
                        let (kind, map) = match sub.map_err(|e| e.to_string())? {
                            N::Types(m) => (Kind::Type, m),
                            N::Instances(m) => (Kind::Instance, m),
                            N::Components(m) => (Kind::Component, m),
                            N::Funcs(m) => (Kind::Func, m),
                            N::Values(m) => (Kind::Value, m),
                            N::CoreModules(m) => (Kind::Module, m),
                            _ => continue,
                        };
                        for n in map {
                            let n = n.map_err(|e| e.to_string())?;
                            let p = sp.get(kind, n.index)?;
                            d.names.push((kind, n.name.to_string(), p));
                        }
                    }
                }
            }
            _ => {}
        }
    }
    // types through the reference validator
    let types = Validator::new_with_features(WasmFeatures::all())
        .validate_all(bytes)
        .map_err(|e| format!("reference validator rejects the component: {e}"))?;
    let tr = types.as_ref();
    for (name, _) in &d.imports {
        if let Some(e) = tr.component_entity_type_of_import(name) {
            d.import_types.insert(name.clone(), canon_entity(tr, &e));
        }
    }
    for (name, _, _) in &d.exports {
        if let Some(e) = tr.component_entity_type_of_export(name) {
            d.export_types.insert(name.clone(), canon_entity(tr, &e));
        }
    }
    let names: Vec<String> = d.imports.iter().map(|(n, _)| n.clone()).collect();
    let (members, deps, _) = import_structure_of(tr, &names);
    d.import_members = members;
    d.import_deps = deps;
    Ok(d)
}

/// Members of every top-level instance import and the dependencies between imports: import B
/// depends on import A when a type member of B refers to (is `eq` to, possibly through a chain
/// of re-exports) a type that A's instance type creates.
pub type ImportStructure = (BTreeMap<String, BTreeMap<String, String>>, BTreeMap<String, BTreeSet<String>>, BTreeMap<String, BTreeMap<String, (String, String)>>);

pub fn import_structure(bytes: &[u8], names: &[String]) -> Result<ImportStructure, String> {
    let types = Validator::new_with_features(WasmFeatures::all())
        .validate_all(bytes)
        .map_err(|e| format!("reference validator rejects the component: {e}"))?;
    Ok(import_structure_of(types.as_ref(), names))
}

fn import_structure_of(tr: TypesRef<'_>, names: &[String]) -> ImportStructure {
    let mut members: BTreeMap<String, BTreeMap<String, String>> = BTreeMap::new();
    let mut deps: BTreeMap<String, BTreeSet<String>> = BTreeMap::new();
    // import -> member -> (import, member) of the type it refers to
    let mut uses: BTreeMap<String, BTreeMap<String, (String, String)>> = BTreeMap::new();
    // created type id -> (import, member) that first created it
    let mut owner: Vec<(ComponentAnyTypeId, String, String)> = Vec::new();
    for name in names {
        let Some(ComponentEntityType::Instance(id)) = tr.component_entity_type_of_import(name) else { continue };
        let Some(it) = tr.get(id) else { continue };
        let mut m = BTreeMap::new();
        let mut dset = BTreeSet::new();
        for (en, ee) in it.exports.iter() {
            m.insert(en.clone(), canon_entity(tr, ee));
            if let ComponentEntityType::Type { referenced, created } = ee {
                if let Some((_, o, om)) = owner.iter().find(|(c, o, _)| c == referenced && o != name) {
                    dset.insert(o.clone());
                    uses.entry(name.clone()).or_default().insert(en.clone(), (o.clone(), om.clone()));
                }
                if !owner.iter().any(|(c, _, _)| c == created) {
                    owner.push((*created, name.clone(), en.clone()));
                }
            }
        }
        members.insert(name.clone(), m);
        deps.insert(name.clone(), dset);
    }
    (members, deps, uses)
}

// ---------------------------------------------------------------- canonical printer (E3)

pub fn prim_name(p: PrimitiveValType) -> &'static str {
    match p {
        PrimitiveValType::Bool => "bool",
        PrimitiveValType::S8 => "s8",
        PrimitiveValType::U8 => "u8",
        PrimitiveValType::S16 => "s16",
        PrimitiveValType::U16 => "u16",
        PrimitiveValType::S32 => "s32",
        PrimitiveValType::U32 => "u32",
        PrimitiveValType::S64 => "s64",
        PrimitiveValType::U64 => "u64",
        PrimitiveValType::F32 => "f32",
        PrimitiveValType::F64 => "f64",
        PrimitiveValType::Char => "char",
        PrimitiveValType::String => "string",
        PrimitiveValType::ErrorContext => "error-context",
    }
}

pub struct Canon<'a> {
    pub types: TypesRef<'a>,
    /// resources are named by order of first appearance in the printed term
    resources: Vec<ResourceId>,
}

pub fn canon_entity(types: TypesRef<'_>, e: &ComponentEntityType) -> String {
    Canon { types, resources: Vec::new() }.entity(e)
}

impl<'a> Canon<'a> {
    pub fn new(types: TypesRef<'a>) -> Self {
        Canon { types, resources: Vec::new() }
    }

    fn res(&mut self, id: ResourceId) -> String {
        let i = match self.resources.iter().position(|r| *r == id) {
            Some(i) => i,
            None => {
                self.resources.push(id);
                self.resources.len() - 1
            }
        };
        format!("res{i}")
    }

    pub fn val(&mut self, v: &ComponentValType) -> String {
        match v {
            ComponentValType::Primitive(p) => prim_name(*p).to_string(),
            ComponentValType::Type(id) => {
                let t = self.types.get(*id).expect("defined type").clone();
                self.defined(&t)
            }
        }
    }

    fn opt(&mut self, v: &Option<ComponentValType>) -> String {
        match v {
            Some(v) => self.val(v),
            None => "_".into(),
        }
    }

    pub fn defined(&mut self, t: &ComponentDefinedType) -> String {
        use ComponentDefinedType as D;
        match t {
            D::Primitive(p) => prim_name(*p).to_string(),
            D::Record(r) => {
                let f: Vec<String> = r.fields.iter().map(|(n, t)| format!("{n}: {}", self.val(t))).collect();
                format!("record{{{}}}", f.join(", "))
            }
            D::Variant(v) => {
                let c: Vec<String> = v
                    .cases
                    .iter()
                    .map(|(n, c)| match &c.ty {
                        Some(t) => format!("{n}({})", self.val(t)),
                        None => n.to_string(),
                    })
                    .collect();
                format!("variant{{{}}}", c.join(", "))
            }
            D::List(t) => format!("list<{}>", self.val(t)),
            D::Map(k, v) => format!("map<{}, {}>", self.val(k), self.val(v)),
            D::FixedLengthList(t, n) => format!("list<{}, {n}>", self.val(t)),
            D::Tuple(t) => {
                let e: Vec<String> = t.types.iter().map(|t| self.val(t)).collect();
                format!("tuple<{}>", e.join(", "))
            }
            D::Flags(f) => format!("flags{{{}}}", f.iter().map(|s| s.to_string()).collect::<Vec<_>>().join(", ")),
            D::Enum(f) => format!("enum{{{}}}", f.iter().map(|s| s.to_string()).collect::<Vec<_>>().join(", ")),
            D::Option(t) => format!("option<{}>", self.val(t)),
            D::Result { ok, err } => format!("result<{}, {}>", self.opt(ok), self.opt(err)),
            D::Own(r) => format!("own<{}>", self.res(r.resource())),
            D::Borrow(r) => format!("borrow<{}>", self.res(r.resource())),
            D::Future(t) => format!("future<{}>", self.opt(t)),
            D::Stream(t) => format!("stream<{}>", self.opt(t)),
        }
    }

    pub fn func(&mut self, f: &ComponentFuncType) -> String {
        let p: Vec<String> = f.params.iter().map(|(n, t)| format!("{n}: {}", self.val(t))).collect();
        let r = match &f.result {
            Some(t) => format!(" -> {}", self.val(t)),
            None => String::new(),
        };
        format!("{}func({}){r}", if f.async_ { "async " } else { "" }, p.join(", "))
    }

    pub fn instance(&mut self, i: &ComponentInstanceType) -> String {
        // exports are printed in declaration order first (resource numbering follows
        // declaration order), then sorted by name: instance subtyping is order-insensitive
        let mut items: Vec<(String, String)> = i.exports.iter().map(|(n, e)| (n.clone(), self.entity(e))).collect();
        items.sort();
        format!("instance{{{}}}", items.iter().map(|(n, e)| format!("{n}: {e}")).collect::<Vec<_>>().join("; "))
    }

    pub fn component(&mut self, c: &ComponentType) -> String {
        let imports: Vec<String> = c.imports.iter().map(|(n, e)| format!("{n}: {}", self.entity(e))).collect();
        let mut exports: Vec<String> = c.exports.iter().map(|(n, e)| format!("{n}: {}", self.entity(e))).collect();
        exports.sort();
        let mut imports_sorted = imports.clone();
        imports_sorted.sort();
        format!("component{{imports{{{}}}; exports{{{}}}}}", imports_sorted.join("; "), exports.join("; "))
    }

    pub fn any_type(&mut self, id: &ComponentAnyTypeId) -> String {
        match id {
            ComponentAnyTypeId::Resource(r) => format!("resource {}", self.res(r.resource())),
            ComponentAnyTypeId::Defined(d) => {
                let t = self.types.get(*d).expect("defined").clone();
                self.defined(&t)
            }
            ComponentAnyTypeId::Func(f) => {
                let t = self.types.get(*f).expect("func").clone();
                self.func(&t)
            }
            ComponentAnyTypeId::Instance(i) => {
                let t = self.types.get(*i).expect("instance").clone();
                self.instance(&t)
            }
            ComponentAnyTypeId::Component(c) => {
                let t = self.types.get(*c).expect("component").clone();
                self.component(&t)
            }
        }
    }

    fn core_func(&self, id: wasmparser::types::CoreTypeId) -> String {
        match self.types.get(id).map(|t| &t.composite_type.inner) {
            Some(wasmparser::CompositeInnerType::Func(f)) => {
                let p: Vec<String> = f.params().iter().map(|t| t.to_string()).collect();
                let r: Vec<String> = f.results().iter().map(|t| t.to_string()).collect();
                format!("[{}] -> [{}]", p.join(", "), r.join(", "))
            }
            other => format!("<non-func core type {other:?}>"),
        }
    }

    pub fn core_entity(&self, e: &wasmparser::types::EntityType) -> String {
        use wasmparser::types::EntityType as E;
        match e {
            E::Func(id) | E::FuncExact(id) => format!("func{}", self.core_func(*id)),
            E::Table(t) => format!(
                "table{{{}, min={}, max={:?}, table64={}, shared={}}}",
                t.element_type, t.initial, t.maximum, t.table64, t.shared
            ),
            E::Memory(m) => format!(
                "memory{{min={}, max={:?}, memory64={}, shared={}, page_size_log2={:?}}}",
                m.initial, m.maximum, m.memory64, m.shared, m.page_size_log2
            ),
            E::Global(g) => format!("global{{{}, mut={}, shared={}}}", g.content_type, g.mutable, g.shared),
            E::Tag(id) => format!("tag{}", self.core_func(*id)),
        }
    }

    pub fn entity(&mut self, e: &ComponentEntityType) -> String {
        match e {
            ComponentEntityType::Module(m) => {
                let t = self.types.get(*m).expect("module");
                let mut imports: Vec<String> = t.imports.iter().map(|((m, n), e)| format!("{m}/{n}: {}", self.core_entity(e))).collect();
                imports.sort();
                let mut exports: Vec<String> = t.exports.iter().map(|(n, e)| format!("{n}: {}", self.core_entity(e))).collect();
                exports.sort();
                format!("module{{imports{{{}}}; exports{{{}}}}}", imports.join("; "), exports.join("; "))
            }
            ComponentEntityType::Func(f) => {
                let t = self.types.get(*f).expect("func").clone();
                self.func(&t)
            }
            ComponentEntityType::Value(v) => format!("value {}", self.val(v)),
            ComponentEntityType::Type { referenced, .. } => format!("type {}", self.any_type(referenced)),
            ComponentEntityType::Instance(i) => {
                let t = self.types.get(*i).expect("instance").clone();
                self.instance(&t)
            }
            ComponentEntityType::Component(c) => {
                let t = self.types.get(*c).expect("component").clone();
                self.component(&t)
            }
        }
    }
}
