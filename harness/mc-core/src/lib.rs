//! Shared machinery for the wac model-checking harness (see /verif/DESIGN.md).
pub mod canon_wac;
pub mod e2;
pub mod libs;
pub mod run;
pub mod witgen;
pub use run::*;
