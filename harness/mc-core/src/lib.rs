//! Shared machinery for the wac model-checking harness (see /verif/DESIGN.md).
pub mod run;
pub use run::*;
