//! Library builders: WIT -> real component (dummy module), WAT -> component.

use anyhow::{Context, Result};
use wit_component::{ComponentEncoder, StringEncoding};
use wit_parser::Resolve;

/// Builds a component implementing `world` of the last package in `wits` (earlier entries
/// are dependency packages, pushed in order).
pub fn component_from_wit(wits: &[(&str, &str)], world: &str) -> Result<Vec<u8>> {
    let mut resolve = Resolve::default();
    let mut last = None;
    for (path, text) in wits {
        last = Some(resolve.push_str(path, text).with_context(|| format!("parsing {path}"))?);
    }
    let pkg = last.context("no WIT given")?;
    let world = resolve.select_world(&[pkg], Some(world)).with_context(|| format!("selecting world {world}"))?;
    let mut module = wit_component::dummy_module(&resolve, world, wit_parser::ManglingAndAbi::Legacy(wit_parser::LiftLowerAbi::Sync));
    wit_component::embed_component_metadata(&mut module, &resolve, world, StringEncoding::default())?;
    let mut encoder = ComponentEncoder::default().validate(true).module(&module)?;
    encoder.encode()
}

/// Encodes a WIT package the way the reference toolchain does (`wit_component::encode`).
pub fn wit_package_binary(wits: &[(&str, &str)]) -> Result<Vec<u8>> {
    let mut resolve = Resolve::default();
    let mut last = None;
    for (path, text) in wits {
        last = Some(resolve.push_str(path, text).with_context(|| format!("parsing {path}"))?);
    }
    wit_component::encode(&resolve, last.context("no WIT given")?)
}

pub fn wat(text: &str) -> Result<Vec<u8>> {
    Ok(wat::parse_str(text)?)
}

pub fn validate(bytes: &[u8]) -> std::result::Result<(), String> {
    wasmparser::Validator::new_with_features(wasmparser::WasmFeatures::all())
        .validate_all(bytes)
        .map(|_| ())
        .map_err(|e| e.to_string())
}
