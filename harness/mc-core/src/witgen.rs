//! Bounded enumeration of WIT packages inside the shared WIT/WAC subset (declaration before
//! use; same spelling in both languages). Used by C05 (WIT meaning) and C08 (decode fidelity).

use crate::run::Tier;

#[derive(Clone, Debug)]
pub struct WitCase {
    pub id: String,
    /// package header + declarations in WIT spelling
    pub text: String,
    /// the same declarations in WAC spelling (identical except `include .. with {..};`)
    pub wac_text: String,
    pub package: String,
    pub version: Option<String>,
    pub interfaces: Vec<String>,
    pub worlds: Vec<String>,
    pub tags: Vec<String>,
}

struct TypeDecl {
    text: &'static str,
    name: &'static str,
    tag: &'static str,
    resource: bool,
}

const TYPE_DECLS: &[TypeDecl] = &[
    TypeDecl { text: "record r { a: u32, b: string }", name: "r", tag: "record", resource: false },
    TypeDecl { text: "record r { a: list<u8>, b: option<f32>, c: tuple<bool, char> }", name: "r", tag: "record-compound", resource: false },
    TypeDecl { text: "variant v { x, y(u32), z(string) }", name: "v", tag: "variant", resource: false },
    TypeDecl { text: "enum e { p, q }", name: "e", tag: "enum", resource: false },
    TypeDecl { text: "flags fl { r, w }", name: "fl", tag: "flags", resource: false },
    TypeDecl { text: "type a1 = u32;", name: "a1", tag: "alias-prim", resource: false },
    TypeDecl { text: "type a1 = list<string>;", name: "a1", tag: "alias-list", resource: false },
    TypeDecl { text: "type a1 = tuple<u32, option<string>>;", name: "a1", tag: "alias-tuple", resource: false },
    TypeDecl { text: "type a1 = result<u32, string>;", name: "a1", tag: "alias-result", resource: false },
    TypeDecl { text: "resource res;", name: "res", tag: "resource-bare", resource: true },
    TypeDecl { text: "resource res { constructor(n: u32); }", name: "res", tag: "resource-ctor", resource: true },
    TypeDecl { text: "resource res { get: func() -> u32; }", name: "res", tag: "resource-method", resource: true },
    TypeDecl { text: "resource res { make: static func() -> res; }", name: "res", tag: "resource-static", resource: true },
    TypeDecl { text: "resource res { cmp: func(other: borrow<res>) -> bool; }", name: "res", tag: "resource-borrow", resource: true },
    TypeDecl {
        text: "resource res { constructor(n: u32); get: func() -> u32; make: static func() -> res; cmp: func(other: borrow<res>) -> bool; }",
        name: "res",
        tag: "resource-full",
        resource: true,
    },
];

/// Declarations that refer to a previously declared named type `{N}`.
const DEPENDENT_DECLS: &[(&str, &str, &str)] = &[
    ("type a2 = {N};", "a2", "alias-of-named"),
    ("record r2 { inner: {N}, l: list<{N}> }", "r2", "record-of-named"),
    ("variant v2 { c({N}), d }", "v2", "variant-of-named"),
    ("type a3 = option<{N}>;", "a3", "alias-option-of-named"),
];

/// Function shapes over a named type `{N}`.
const FUNC_SHAPES: &[(&str, &str)] = &[
    ("f: func();", "nullary"),
    ("f: func(a: {N}) -> {N};", "identity"),
    ("f: func(a: list<{N}>, b: option<{N}>) -> tuple<{N}, u32>;", "compound"),
    ("f: func() -> result<{N}, string>;", "result-both"),
    ("f: func() -> result<_, {N}>;", "result-err"),
    ("f: func() -> result<{N}>;", "result-ok"),
    ("f: func() -> result;", "result-none"),
];

fn header(version: Option<&str>) -> String {
    match version {
        Some(v) => format!("package t:g@{v};\n\n"),
        None => "package t:g;\n\n".to_string(),
    }
}

fn case(id: String, version: Option<&str>, body: String, interfaces: &[&str], worlds: &[&str], tags: Vec<String>) -> WitCase {
    // bodies are written in WAC spelling; WIT spells `include w with { a as b }` and inline
    // interfaces of world items (`import x: interface { .. }`) without a terminating semicolon
    let wac_body = body.clone();
    let body = body.replace(" };\n}\n", " }\n}\n").replace("  };\n", "  }\n");
    WitCase {
        id,
        wac_text: format!("{}{}", header(version), wac_body),
        text: format!("{}{}", header(version), body),
        package: "t:g".into(),
        version: version.map(|s| s.to_string()),
        interfaces: interfaces.iter().map(|s| s.to_string()).collect(),
        worlds: worlds.iter().map(|s| s.to_string()).collect(),
        tags,
    }
}

pub fn enumerate(tier: Tier) -> Vec<WitCase> {
    let mut out = Vec::new();
    let thorough = tier == Tier::Thorough;
    let versions: &[Option<&str>] = if thorough { &[None, Some("1.0.0"), Some("0.2.1")] } else { &[Some("1.0.0")] };

    // (1) single interfaces: every type declaration x every function shape; world imports / exports it
    for (ti, t) in TYPE_DECLS.iter().enumerate() {
        for (fi, (f, ftag)) in FUNC_SHAPES.iter().enumerate() {

            let mut f = f.replace("{N}", t.name);
            if t.resource && *ftag == "identity" {
                f = format!("f: func(a: {0}) -> {0}; g: func(b: borrow<{0}>);", t.name);
            }
            for v in versions.iter().take(if fi == 1 { versions.len() } else { 1 }) {
                let body = format!(
                    "interface i0 {{\n  {}\n  {}\n}}\n\nworld wi {{ import i0; }}\nworld we {{ export i0; }}\n",
                    t.text, f
                );
                out.push(case(format!("single/{}/{}", t.tag, ftag), *v, body, &["i0"], &["wi", "we"], vec![t.tag.into(), (*ftag).into()]));
            }
        }
        // dependent declarations
        for (d, dname, dtag) in DEPENDENT_DECLS {
            if t.resource && *dtag != "alias-of-named" && !thorough {
                continue;
            }
            if t.resource && dtag.starts_with("record") {
                // records of own<res> are fine; keep
            }
            let d = d.replace("{N}", t.name);
            for (f, ftag) in FUNC_SHAPES.iter().skip(1).take(if thorough { 3 } else { 1 }) {
                let f = f.replace("{N}", dname);
                let body = format!(
                    "interface i0 {{\n  {}\n  {}\n  {}\n}}\n\nworld wi {{ import i0; }}\nworld we {{ export i0; }}\n",
                    t.text, d, f
                );
                out.push(case(
                    format!("dependent/{}/{}/{}", t.tag, dtag, ftag),
                    Some("1.0.0"),
                    body,
                    &["i0"],
                    &["wi", "we"],
                    vec![t.tag.into(), (*dtag).into(), (*ftag).into()],
                ));
            }
        }
    }

    // (1a) named handle types: an alias of `borrow<res>` (and an alias of that alias) used as a
    // parameter next to the inline spelling
    for t in TYPE_DECLS.iter().filter(|t| t.resource) {
        let n = t.name;
        let body = format!(
            "interface i0 {{\n  {}\n  type h = borrow<{n}>;\n  type h2 = h;\n  f: func(a: h);\n  g: func(b: h2, c: borrow<{n}>) -> {n};\n  k: func(l: list<h>);\n}}\n\nworld wi {{ import i0; }}\nworld we {{ export i0; }}\n",
            t.text
        );
        out.push(case(format!("handle-alias/{}", t.tag), Some("1.0.0"), body, &["i0"], &["wi", "we"], vec![t.tag.into(), "alias-of-borrow".into()]));
    }

    // (1b) two independent declarations in one interface, a function over both
    for (i, t1) in TYPE_DECLS.iter().enumerate() {
        for (j, t2) in TYPE_DECLS.iter().enumerate() {
            if t1.name == t2.name || (!thorough && (i + 2 * j) % 3 != 0) {
                continue;
            }
            let h2 = if t2.resource { format!("borrow<{}>", t2.name) } else { t2.name.to_string() };
            let body = format!(
                "interface i0 {{\n  {}\n  {}\n  f: func(a: {}, b: list<{h2}>) -> option<{}>;\n}}\n\nworld wi {{ import i0; }}\nworld we {{ export i0; }}\n",
                t1.text, t2.text, t1.name, t1.name
            );
            out.push(case(format!("pair/{}/{}", t1.tag, t2.tag), Some("1.0.0"), body, &["i0"], &["wi", "we"], vec![t1.tag.into(), t2.tag.into(), "pair".into()]));
        }
    }

    // (2) `use` topologies over a base declaration
    let bases: Vec<&TypeDecl> = TYPE_DECLS
        .iter()
        .filter(|t| thorough || ["record", "variant", "alias-prim", "resource-full", "enum", "resource-bare", "flags", "alias-list"].contains(&t.tag))
        .collect();
    for b in &bases {
        let n = b.name;
        let i0 = format!("interface i0 {{\n  {}\n}}\n\n", b.text);
        let handle = if b.resource { format!("borrow<{n}>") } else { n.to_string() };
        for v in versions {
            // chain of two
            out.push(case(
                format!("use/chain2/{}", b.tag),
                *v,
                format!("{i0}interface i1 {{\n  use i0.{{{n}}};\n  g: func(x: {handle}) -> {n};\n}}\n\nworld wi {{ import i1; }}\nworld we {{ export i1; }}\nworld wb {{ import i0; export i1; }}\nworld wx {{ export i0; export i1; }}\n"),
                &["i0", "i1"],
                &["wi", "we", "wb", "wx"],
                vec!["use-chain2".into(), b.tag.into()],
            ));
            // rename
            out.push(case(
                format!("use/rename/{}", b.tag),
                *v,
                format!("{i0}interface i1 {{\n  use i0.{{{n} as m}};\n  g: func(x: m);\n}}\n\nworld wi {{ import i1; }}\nworld we {{ export i1; }}\n"),
                &["i0", "i1"],
                &["wi", "we"],
                vec!["use-rename".into(), b.tag.into()],
            ));
            // chain of three (re-export of a used type)
            out.push(case(
                format!("use/chain3/{}", b.tag),
                *v,
                format!("{i0}interface i1 {{\n  use i0.{{{n}}};\n  g: func(x: {handle});\n}}\n\ninterface i2 {{\n  use i1.{{{n}}};\n  h: func() -> {n};\n}}\n\nworld wi {{ import i2; }}\nworld we {{ export i2; }}\nworld wb {{ import i1; export i2; }}\n"),
                &["i0", "i1", "i2"],
                &["wi", "we", "wb"],
                vec!["use-chain3".into(), b.tag.into()],
            ));
            // chains of four and five interfaces (three and four hops)
            out.push(case(
                format!("use/chain4/{}", b.tag),
                *v,
                format!("{i0}interface i1 {{\n  use i0.{{{n}}};\n  g: func(x: {handle});\n}}\n\ninterface i2 {{\n  use i1.{{{n}}};\n  h: func() -> {n};\n}}\n\ninterface i3 {{\n  use i2.{{{n}}};\n  k: func(y: {handle}) -> {n};\n}}\n\nworld wi {{ import i3; }}\nworld we {{ export i3; }}\nworld wb {{ import i2; export i3; }}\n"),
                &["i0", "i1", "i2", "i3"],
                &["wi", "we", "wb"],
                vec!["use-chain4".into(), b.tag.into()],
            ));
            out.push(case(
                format!("use/chain5/{}", b.tag),
                *v,
                format!("{i0}interface i1 {{\n  use i0.{{{n}}};\n}}\n\ninterface i2 {{\n  use i1.{{{n}}};\n}}\n\ninterface i3 {{\n  use i2.{{{n}}};\n}}\n\ninterface i4 {{\n  use i3.{{{n}}};\n  k: func(y: {handle}) -> {n};\n}}\n\nworld wi {{ import i4; }}\nworld we {{ export i4; }}\n"),
                &["i0", "i1", "i2", "i3", "i4"],
                &["wi", "we"],
                vec!["use-chain5".into(), b.tag.into()],
            ));
            // chain of three whose first hop renames, and whose second hop renames
            out.push(case(
                format!("use/chain3-rename-first/{}", b.tag),
                *v,
                format!("{i0}interface i1 {{\n  use i0.{{{n} as m}};\n  g: func(x: {hm});\n}}\n\ninterface i2 {{\n  use i1.{{m}};\n  h: func(y: {hm});\n}}\n\nworld wi {{ import i2; }}\nworld we {{ export i2; }}\n", hm = if b.resource { "borrow<m>".to_string() } else { "m".to_string() }),
                &["i0", "i1", "i2"],
                &["wi", "we"],
                vec!["use-chain3-rename-first".into(), b.tag.into()],
            ));
            out.push(case(
                format!("use/chain3-rename-second/{}", b.tag),
                *v,
                format!("{i0}interface i1 {{\n  use i0.{{{n}}};\n  g: func(x: {handle});\n}}\n\ninterface i2 {{\n  use i1.{{{n} as k}};\n  h: func(y: {hk});\n}}\n\nworld wi {{ import i2; }}\nworld we {{ export i2; }}\n", hk = if b.resource { "borrow<k>".to_string() } else { "k".to_string() }),
                &["i0", "i1", "i2"],
                &["wi", "we"],
                vec!["use-chain3-rename-second".into(), b.tag.into()],
            ));
            // a use-free interface declaring its own item under the name another interface uses
            let own = if b.resource { format!("resource {n};") } else { format!("record {n} {{ own-field: bool }}") };
            out.push(case(
                format!("use/name-clash-type/{}", b.tag),
                *v,
                format!("{i0}interface i1 {{\n  use i0.{{{n}}};\n  g: func(x: {handle});\n}}\n\ninterface i2 {{\n  {own}\n  h: func() -> {n};\n}}\n\nworld wi {{ import i1; import i2; }}\nworld wr {{ import i2; import i1; }}\nworld we {{ export i1; export i2; }}\n"),
                &["i0", "i1", "i2"],
                &["wi", "wr", "we"],
                vec!["use-name-clash-type".into(), b.tag.into()],
            ));
            out.push(case(
                format!("use/name-clash-func/{}", b.tag),
                *v,
                format!("{i0}interface i1 {{\n  use i0.{{{n}}};\n  g: func(x: {handle});\n}}\n\ninterface i2 {{\n  {n}: func();\n}}\n\nworld wi {{ import i1; import i2; }}\n"),
                &["i0", "i1", "i2"],
                &["wi"],
                vec!["use-name-clash-func".into(), b.tag.into()],
            ));
            // diamond
            out.push(case(
                format!("use/diamond/{}", b.tag),
                *v,
                format!("{i0}interface i1 {{\n  use i0.{{{n}}};\n  g: func(x: {handle});\n}}\n\ninterface i2 {{\n  use i0.{{{n} as n0}};\n  use i1.{{{n} as n1}};\n  k: func(a: n0, b: n1);\n}}\n\nworld wi {{ import i2; }}\nworld we {{ export i2; }}\n"),
                &["i0", "i1", "i2"],
                &["wi", "we"],
                vec!["use-diamond".into(), b.tag.into()],
            ));
            // derived type in the using interface
            out.push(case(
                format!("use/derived/{}", b.tag),
                *v,
                format!("{i0}interface i1 {{\n  use i0.{{{n}}};\n  record r2 {{ inner: {n} }}\n  g: func() -> r2;\n}}\n\nworld wi {{ import i1; }}\nworld we {{ export i1; }}\n"),
                &["i0", "i1"],
                &["wi", "we"],
                vec!["use-derived".into(), b.tag.into()],
            ));
        }
    }

    // (3) world shapes
    for v in versions {
        out.push(case(
            "world/funcs".into(),
            *v,
            "world w {\n  import f: func(a: u32) -> u32;\n  export g: func();\n}\n".into(),
            &[],
            &["w"],
            vec!["world-funcs".into()],
        ));
        out.push(case(
            "world/inline".into(),
            *v,
            "world w {\n  import x: interface {\n    f: func();\n  };\n  export y: interface {\n    record r { a: u32 }\n    g: func() -> r;\n  };\n}\n".into(),
            &[],
            &["w"],
            vec!["world-inline".into()],
        ));
        out.push(case(
            "world/types".into(),
            *v,
            "world w {\n  record wr { a: u32 }\n  type wt = list<wr>;\n  import f: func(a: wr) -> wt;\n  export g: func(a: wt);\n}\n".into(),
            &[],
            &["w"],
            vec!["world-types".into()],
        ));
        for b in &bases {
            let n = b.name;
            let handle = if b.resource { format!("borrow<{n}>") } else { n.to_string() };
            out.push(case(
                format!("world/use/{}", b.tag),
                *v,
                format!("interface i0 {{\n  {}\n}}\n\nworld w {{\n  use i0.{{{n}}};\n  import f: func(a: {handle});\n  export g: func() -> {n};\n}}\n", b.text),
                &["i0"],
                &["w"],
                vec!["world-use".into(), b.tag.into()],
            ));
            if b.resource {
                out.push(case(
                    format!("world/use-own/{}", b.tag),
                    *v,
                    format!("interface i0 {{\n  {}\n}}\n\nworld w {{\n  use i0.{{{n}}};\n  import f: func(a: {n}) -> {n};\n  export g: func(a: {n});\n}}\n", b.text),
                    &["i0"],
                    &["w"],
                    vec!["world-use-own".into(), b.tag.into()],
                ));
            }
            out.push(case(
                format!("world/paths/{}", b.tag),
                *v,
                format!("interface i0 {{\n  {}\n}}\n\ninterface i1 {{\n  use i0.{{{n}}};\n  g: func(x: {handle});\n}}\n\nworld w {{\n  import i0;\n  import i1;\n  export i1;\n  export run: func();\n}}\n", b.text),
                &["i0", "i1"],
                &["w"],
                vec!["world-paths".into(), b.tag.into()],
            ));
        }
        out.push(case(
            "world/include".into(),
            *v,
            "interface i0 {\n  f: func();\n}\n\nworld w0 {\n  import i0;\n  import a: func();\n  export b: func();\n}\n\nworld w {\n  include w0;\n  export c: func();\n}\n".into(),
            &["i0"],
            &["w0", "w"],
            vec!["world-include".into()],
        ));
        out.push(case(
            "world/include-with-1".into(),
            *v,
            "world w0 {\n  import a: func();\n  export b: func();\n}\n\nworld w {\n  include w0 with { a as c };\n}\n".into(),
            &[],
            &["w0", "w"],
            vec!["world-include-with".into()],
        ));
        out.push(case(
            "world/include-with-2".into(),
            *v,
            "world w0 {\n  import a: func();\n  import a2: func(x: u32);\n  export b: func();\n}\n\nworld w {\n  include w0 with { a as c, b as d };\n}\n".into(),
            &[],
            &["w0", "w"],
            vec!["world-include-with".into()],
        ));
    }
    // stable unique ids
    for (i, c) in out.iter_mut().enumerate() {
        c.id = format!("{:04}-{}{}", i, c.id, c.version.as_ref().map(|v| format!("@{v}")).unwrap_or_default());
    }
    out
}

/// World shapes as a *product*: every ordered sequence of 1..=k distinct world items drawn from a
/// 17-item alphabet (world-level `use` with and without rename and through a second interface,
/// world-level type declarations, interface paths in both directions, function items over the
/// most recently introduced named type, inline interfaces, `include` with and without `with`)
/// over a base declaration. `§` marks the places where WAC wants a semicolon and WIT none.
pub fn enumerate_worlds(tier: Tier) -> Vec<WitCase> {
    let thorough = tier == Tier::Thorough;
    let bases: Vec<&TypeDecl> = TYPE_DECLS
        .iter()
        .filter(|t| if thorough { ["record", "variant", "enum", "flags", "alias-list", "resource-bare", "resource-full"].contains(&t.tag) } else { ["record", "resource-full"].contains(&t.tag) })
        .collect();
    const ITEMS: usize = 17;
    let mut out = Vec::new();
    for b in &bases {
        let n = b.name;
        let handle0 = if b.resource { format!("borrow<{n}>") } else { n.to_string() };
        let prefix = format!(
            "interface i0 {{\n  {}\n}}\n\ninterface i1 {{\n  use i0.{{{n}}};\n  g: func(x: {handle0}) -> {n};\n}}\n\nworld w0 {{\n  import a: func();\n  export b: func();\n}}\n\nworld w1 {{\n  import i0;\n  export i1;\n}}\n\n",
            b.text
        );
        let max_len = if thorough || !b.resource { 3 } else { 2 };
        let mut seqs: Vec<Vec<usize>> = (0..ITEMS).map(|i| vec![i]).collect();
        let mut level = seqs.clone();
        for _ in 1..max_len {
            let mut next = Vec::new();
            for s in &level {
                for i in 0..ITEMS {
                    if !s.contains(&i) {
                        let mut t = s.clone();
                        t.push(i);
                        next.push(t);
                    }
                }
            }
            seqs.extend(next.iter().cloned());
            level = next;
        }
        for s in seqs {
            // the most recently introduced named type (name, is a resource)
            let mut last: Option<(String, bool)> = None;
            let mut body = String::new();
            for &i in &s {
                let (t, tb, to) = match &last {
                    Some((t, true)) => (t.clone(), format!("borrow<{t}>"), t.clone()),
                    Some((t, false)) => (t.clone(), t.clone(), t.clone()),
                    None => ("u32".to_string(), "u32".to_string(), "u32".to_string()),
                };
                let _ = &t;
                let line = match i {
                    0 => {
                        last = Some((n.to_string(), b.resource));
                        format!("use i0.{{{n}}};")
                    }
                    1 => {
                        last = Some(("m".to_string(), b.resource));
                        format!("use i0.{{{n} as m}};")
                    }
                    2 => {
                        last = Some(("k".to_string(), b.resource));
                        format!("use i1.{{{n} as k}};")
                    }
                    3 => {
                        last = Some(("wr".to_string(), false));
                        "record wr { a: u32 }".to_string()
                    }
                    4 => {
                        let l = format!("type wt = list<{to}>;");
                        last = Some(("wt".to_string(), false));
                        l
                    }
                    5 => "import i0;".to_string(),
                    6 => "import i1;".to_string(),
                    7 => "export i0;".to_string(),
                    8 => "export i1;".to_string(),
                    9 => format!("import f: func(a: {tb}) -> {to};"),
                    10 => format!("export e: func(a: {to}, b: list<{tb}>);"),
                    11 => "import x: interface {\n    f: func();\n  }§".to_string(),
                    12 => "export y: interface {\n    record r { a: u32 }\n    g: func() -> r;\n  }§".to_string(),
                    13 => "include w0;".to_string(),
                    14 => "include w0 with { a as c }§".to_string(),
                    15 => "include w1;".to_string(),
                    _ => format!("import h: func() -> result<{to}, string>;"),
                };
                body.push_str("  ");
                body.push_str(&line);
                body.push('\n');
            }
            let text = format!("{prefix}world w {{\n{body}}}\n");
            let id = format!("worldprod/{}/{}", b.tag, s.iter().map(|i| i.to_string()).collect::<Vec<_>>().join("-"));
            let mut tags = vec!["worldprod".to_string(), b.tag.to_string(), format!("len{}", s.len())];
            if s.contains(&7) && (s.contains(&8) || s.contains(&15)) || s.contains(&7) && s.contains(&2) {
                tags.push("exports-i0-and-a-user".into());
            }
            out.push(WitCase {
                id,
                wac_text: format!("{}{}", header(Some("1.0.0")), text.replace('§', ";")),
                text: format!("{}{}", header(Some("1.0.0")), text.replace('§', "")),
                package: "t:g".into(),
                version: Some("1.0.0".into()),
                interfaces: vec!["i0".into(), "i1".into()],
                worlds: vec!["w".into()],
                tags,
            });
        }
    }
    out
}
