//! `canon_wac` — the same canonical textual type form as `e2::Canon`, printed from
//! `wac_types::Types` through its public API (E3).

use wac_types::{CoreExtern, DefinedType, FuncTypeId, InterfaceId, ItemKind, ModuleTypeId, ResourceId, Type, Types, ValueType, WorldId};

pub struct CanonWac<'a> {
    pub types: &'a Types,
    resources: Vec<ResourceId>,
}

pub fn canon_kind(types: &Types, kind: ItemKind) -> String {
    CanonWac::new(types).kind(kind)
}

impl<'a> CanonWac<'a> {
    pub fn new(types: &'a Types) -> Self {
        CanonWac { types, resources: Vec::new() }
    }

    fn res(&mut self, id: ResourceId) -> String {
        let id = self.types.resolve_resource(id);
        let i = match self.resources.iter().position(|r| *r == id) {
            Some(i) => i,
            None => {
                self.resources.push(id);
                self.resources.len() - 1
            }
        };
        format!("res{i}")
    }

    pub fn val(&mut self, v: ValueType) -> String {
        match v {
            ValueType::Primitive(p) => p.desc().to_string(),
            ValueType::Borrow(r) => format!("borrow<{}>", self.res(r)),
            ValueType::Own(r) => format!("own<{}>", self.res(r)),
            ValueType::Defined(id) => {
                let t = self.types[id].clone();
                self.defined(&t)
            }
        }
    }

    fn opt(&mut self, v: &Option<ValueType>) -> String {
        match v {
            Some(v) => self.val(*v),
            None => "_".into(),
        }
    }

    pub fn defined(&mut self, t: &DefinedType) -> String {
        match t {
            DefinedType::Tuple(ts) => format!("tuple<{}>", ts.iter().map(|t| self.val(*t)).collect::<Vec<_>>().join(", ")),
            DefinedType::List(t) => format!("list<{}>", self.val(*t)),
            DefinedType::FixedSizeList(t, n) => format!("list<{}, {n}>", self.val(*t)),
            DefinedType::Option(t) => format!("option<{}>", self.val(*t)),
            DefinedType::Result { ok, err } => format!("result<{}, {}>", self.opt(ok), self.opt(err)),
            DefinedType::Variant(v) => {
                let c: Vec<String> = v
                    .cases
                    .iter()
                    .map(|(n, t)| match t {
                        Some(t) => format!("{n}({})", self.val(*t)),
                        None => n.clone(),
                    })
                    .collect();
                format!("variant{{{}}}", c.join(", "))
            }
            DefinedType::Record(r) => {
                let f: Vec<String> = r.fields.iter().map(|(n, t)| format!("{n}: {}", self.val(*t))).collect();
                format!("record{{{}}}", f.join(", "))
            }
            DefinedType::Flags(f) => format!("flags{{{}}}", f.0.iter().cloned().collect::<Vec<_>>().join(", ")),
            DefinedType::Enum(e) => format!("enum{{{}}}", e.0.iter().cloned().collect::<Vec<_>>().join(", ")),
            DefinedType::Alias(v) => self.val(*v),
            DefinedType::Stream(t) => format!("stream<{}>", self.opt(t)),
            DefinedType::Future(t) => format!("future<{}>", self.opt(t)),
        }
    }

    pub fn func(&mut self, id: FuncTypeId) -> String {
        let f = self.types[id].clone();
        let p: Vec<String> = f.params.iter().map(|(n, t)| format!("{n}: {}", self.val(*t))).collect();
        let r = match &f.result {
            Some(t) => format!(" -> {}", self.val(*t)),
            None => String::new(),
        };
        format!("{}func({}){r}", if f.is_async { "async " } else { "" }, p.join(", "))
    }

    pub fn instance(&mut self, id: InterfaceId) -> String {
        let i = self.types[id].clone();
        let mut items: Vec<(String, String)> = i.exports.iter().map(|(n, k)| (n.clone(), self.kind(*k))).collect();
        items.sort();
        format!("instance{{{}}}", items.iter().map(|(n, e)| format!("{n}: {e}")).collect::<Vec<_>>().join("; "))
    }

    pub fn component(&mut self, id: WorldId) -> String {
        let w = self.types[id].clone();
        let mut imports: Vec<String> = w.imports.iter().map(|(n, k)| format!("{n}: {}", self.kind(*k))).collect();
        let mut exports: Vec<String> = w.exports.iter().map(|(n, k)| format!("{n}: {}", self.kind(*k))).collect();
        imports.sort();
        exports.sort();
        format!("component{{imports{{{}}}; exports{{{}}}}}", imports.join("; "), exports.join("; "))
    }

    pub fn module(&mut self, id: ModuleTypeId) -> String {
        let m = &self.types[id];
        let mut imports: Vec<String> = m.imports.iter().map(|((a, b), e)| format!("{a}/{b}: {}", core_extern(e))).collect();
        let mut exports: Vec<String> = m.exports.iter().map(|(n, e)| format!("{n}: {}", core_extern(e))).collect();
        imports.sort();
        exports.sort();
        format!("module{{imports{{{}}}; exports{{{}}}}}", imports.join("; "), exports.join("; "))
    }

    pub fn ty(&mut self, t: Type) -> String {
        match t {
            Type::Resource(r) => format!("resource {}", self.res(r)),
            Type::Func(f) => self.func(f),
            Type::Value(v) => self.val(v),
            Type::Interface(i) => self.instance(i),
            Type::World(w) => self.component(w),
            Type::Module(m) => self.module(m),
        }
    }

    pub fn kind(&mut self, k: ItemKind) -> String {
        match k {
            ItemKind::Type(t) => format!("type {}", self.ty(t)),
            ItemKind::Func(f) => self.func(f),
            ItemKind::Instance(i) => self.instance(i),
            ItemKind::Component(c) => self.component(c),
            ItemKind::Module(m) => self.module(m),
            ItemKind::Value(v) => format!("value {}", self.val(v)),
        }
    }
}

pub fn core_extern(e: &CoreExtern) -> String {
    match e {
        CoreExtern::Func(f) => format!("func{f}"),
        CoreExtern::Table { element_type, initial, maximum, table64, shared } => {
            format!("table{{{element_type}, min={initial}, max={maximum:?}, table64={table64}, shared={shared}}}")
        }
        CoreExtern::Memory { memory64, shared, initial, maximum, page_size_log2 } => {
            format!("memory{{min={initial}, max={maximum:?}, memory64={memory64}, shared={shared}, page_size_log2={page_size_log2:?}}}")
        }
        CoreExtern::Global { val_type, mutable, shared } => format!("global{{{val_type}, mut={mutable}, shared={shared}}}"),
        CoreExtern::Tag(f) => format!("tag{f}"),
    }
}
