//! Run plumbing shared by every check: argument parsing, known-findings matching,
//! replay files, evidence files and exit codes (DESIGN.md R3, R5, R7, R8).
//!
//! Exit codes: 0 = property held on everything explored (KNOWN-FINDING lines allowed),
//! 1 = at least one violation whose fingerprint is not listed in known-findings.json,
//! 2 = machinery error (never a verdict).

use serde_json::{json, Map, Value};
use sha2::{Digest, Sha256};
use std::collections::BTreeMap;
use std::path::{Path, PathBuf};
use std::time::Instant;

#[derive(Clone, Copy, Debug, PartialEq, Eq)]
pub enum Tier {
    Quick,
    Thorough,
}

impl Tier {
    pub fn as_str(self) -> &'static str {
        match self {
            Tier::Quick => "quick",
            Tier::Thorough => "thorough",
        }
    }
    pub fn pick<T>(self, q: T, t: T) -> T {
        match self {
            Tier::Quick => q,
            Tier::Thorough => t,
        }
    }
}

#[derive(Clone, Debug)]
pub struct Violation {
    pub fingerprint: String,
    pub what: String,
    pub case: Value,
    pub count: usize,
}

pub enum Mode {
    Explore(Tier),
    Replay(Value),
}

pub struct Ctx {
    pub prop: String,
    pub level: &'static str,
    pub mode: Mode,
    pub seed: u64,
    root: PathBuf,
    start: Instant,
    known_open: BTreeMap<String, String>,
    violations: BTreeMap<String, Violation>,
}

pub fn verif_root() -> PathBuf {
    std::env::var_os("VERIF_ROOT")
        .map(PathBuf::from)
        .unwrap_or_else(|| PathBuf::from("/verif"))
}

pub fn sha256_hex(data: &[u8]) -> String {
    hex::encode(Sha256::digest(data))
}

pub fn machinery_error(msg: &str) -> ! {
    eprintln!("MACHINERY-ERROR: {msg}");
    std::process::exit(2)
}

impl Ctx {
    /// `args` = the arguments after the property id: `quick` | `thorough` | `--replay <file>`.
    pub fn new(prop: &str, level: &'static str, args: &[String]) -> Ctx {
        let root = verif_root();
        let mode = match args.first().map(|s| s.as_str()) {
            Some("quick") => Mode::Explore(Tier::Quick),
            Some("thorough") => Mode::Explore(Tier::Thorough),
            Some("--replay") => {
                let path = args
                    .get(1)
                    .unwrap_or_else(|| machinery_error("--replay needs a file"));
                let text = std::fs::read_to_string(path)
                    .unwrap_or_else(|e| machinery_error(&format!("cannot read {path}: {e}")));
                let v: Value = serde_json::from_str(&text)
                    .unwrap_or_else(|e| machinery_error(&format!("bad replay file {path}: {e}")));
                Mode::Replay(v)
            }
            other => machinery_error(&format!(
                "usage: <prop> quick|thorough|--replay <file> (got {other:?})"
            )),
        };
        let seed = std::env::var("VERIF_SEED")
            .ok()
            .and_then(|s| s.parse().ok())
            .unwrap_or(0);
        let mut known_open = BTreeMap::new();
        let kf = root.join("known-findings.json");
        if let Ok(text) = std::fs::read_to_string(&kf) {
            let v: Value = serde_json::from_str(&text)
                .unwrap_or_else(|e| machinery_error(&format!("bad known-findings.json: {e}")));
            for e in v.as_array().cloned().unwrap_or_default() {
                if e["property"] == prop && e["status"] == "open" {
                    known_open.insert(
                        e["fingerprint"].as_str().unwrap_or("").to_string(),
                        e["what"].as_str().unwrap_or("").to_string(),
                    );
                }
            }
        }
        Ctx {
            prop: prop.to_string(),
            level,
            mode,
            seed,
            root,
            start: Instant::now(),
            known_open,
            violations: BTreeMap::new(),
        }
    }

    pub fn tier(&self) -> Tier {
        match &self.mode {
            Mode::Explore(t) => *t,
            Mode::Replay(_) => Tier::Quick,
        }
    }

    pub fn replay_case(&self) -> Option<&Value> {
        match &self.mode {
            Mode::Replay(v) => Some(&v["case"]),
            _ => None,
        }
    }

    /// Records a violation. Only the first case per fingerprint is kept (the
    /// enumerations are ordered simplest-first, so the first is also the smallest).
    pub fn violation(&mut self, fingerprint: impl Into<String>, what: impl Into<String>, case: Value) {
        let fingerprint = fingerprint.into();
        match self.violations.get_mut(&fingerprint) {
            Some(v) => v.count += 1,
            None => {
                self.violations.insert(
                    fingerprint.clone(),
                    Violation {
                        fingerprint,
                        what: what.into(),
                        case,
                        count: 1,
                    },
                );
            }
        }
    }

    pub fn merge(&mut self, vs: Vec<Violation>) {
        for v in vs {
            match self.violations.get_mut(&v.fingerprint) {
                Some(e) => e.count += v.count,
                None => {
                    self.violations.insert(v.fingerprint.clone(), v);
                }
            }
        }
    }

    pub fn violation_count(&self) -> usize {
        self.violations.len()
    }

    pub fn is_known(&self, fingerprint: &str) -> bool {
        self.known_open.contains_key(fingerprint)
    }

    /// Writes evidence, prints verdict lines and exits.
    pub fn finish(self, mut coverage: Map<String, Value>, assumptions: Vec<String>) -> ! {
        let wall = self.start.elapsed().as_secs_f64();
        let mut new = Vec::new();
        let mut known_hit = Vec::new();
        for v in self.violations.values() {
            if self.known_open.contains_key(&v.fingerprint) {
                known_hit.push(v.clone());
            } else {
                new.push(v.clone());
            }
        }
        for v in &known_hit {
            println!(
                "KNOWN-FINDING: property={} {} ({} case(s)): {}",
                self.prop, v.fingerprint, v.count, self.known_open[&v.fingerprint]
            );
        }
        let replay_dir = self.root.join("replays").join(&self.prop);
        for v in &new {
            let _ = std::fs::create_dir_all(&replay_dir);
            let path = replay_dir.join(format!("{}.json", &sha256_hex(v.fingerprint.as_bytes())[..16]));
            let body = json!({
                "property": self.prop,
                "fingerprint": v.fingerprint,
                "what": v.what,
                "cases_with_this_fingerprint": v.count,
                "case": v.case,
            });
            if let Err(e) = std::fs::write(&path, serde_json::to_string_pretty(&body).unwrap()) {
                machinery_error(&format!("cannot write replay {}: {e}", path.display()));
            }
            println!("VIOLATION property={} replay={}", self.prop, path.display());
            println!("  fingerprint: {}", v.fingerprint);
            println!("  what: {}", v.what);
        }
        if let Mode::Explore(tier) = &self.mode {
            coverage.insert(
                "known_findings_hit".into(),
                json!(known_hit.iter().map(|v| json!({"fingerprint": v.fingerprint, "cases": v.count})).collect::<Vec<_>>()),
            );
            coverage.insert(
                "new_violation_fingerprints".into(),
                json!(new.iter().map(|v| v.fingerprint.clone()).collect::<Vec<_>>()),
            );
            let ev = json!({
                "property_id": self.prop,
                "tier": tier.as_str(),
                "seed": self.seed,
                "level": self.level,
                "coverage": Value::Object(coverage),
                "assumptions": assumptions,
                "wall_s": (wall * 1000.0).round() / 1000.0,
                "violations": new.len(),
            });
            let dir = self.root.join("evidence");
            let _ = std::fs::create_dir_all(&dir);
            let path = dir.join(format!("{}.json", self.prop));
            if let Err(e) = std::fs::write(&path, serde_json::to_string_pretty(&ev).unwrap() + "\n") {
                machinery_error(&format!("cannot write evidence {}: {e}", path.display()));
            }
            println!(
                "{} {}: {} new violation fingerprint(s), {} known finding(s), {:.1}s; evidence {}",
                self.prop,
                tier.as_str(),
                new.len(),
                known_hit.len(),
                wall,
                path.display()
            );
        } else {
            println!(
                "{} replay: {}",
                self.prop,
                if self.violations.is_empty() { "no violation reproduced" } else { "violation reproduced" }
            );
            // in replay mode a known finding reproducing is still a reproduction
            std::process::exit(if self.violations.is_empty() { 0 } else { 1 });
        }
        std::process::exit(if new.is_empty() { 0 } else { 1 })
    }
}

thread_local! {
    static CATCH_DEPTH: std::cell::Cell<usize> = const { std::cell::Cell::new(0) };
}

/// Runs `f` catching panics; returns Err(panic message).
pub fn catch<T>(f: impl FnOnce() -> T) -> Result<T, String> {
    CATCH_DEPTH.with(|d| d.set(d.get() + 1));
    let r = std::panic::catch_unwind(std::panic::AssertUnwindSafe(f));
    CATCH_DEPTH.with(|d| d.set(d.get() - 1));
    match r {
        Ok(v) => Ok(v),
        Err(e) => Err(if let Some(s) = e.downcast_ref::<&str>() {
            s.to_string()
        } else if let Some(s) = e.downcast_ref::<String>() {
            s.clone()
        } else {
            "<non-string panic>".to_string()
        }),
    }
}

/// Silences the panic hook inside `catch` (those panics are verdict material); a panic of
/// the harness itself is printed and turned into exit code 2 (machinery error).
pub fn quiet_panics() {
    std::panic::set_hook(Box::new(|info| {
        if CATCH_DEPTH.with(|d| d.get()) == 0 {
            eprintln!("MACHINERY-ERROR: harness panic: {info}");
            std::process::exit(2);
        }
    }));
}

/// Takes the first line of a panic message and strips volatile parts, for fingerprints.
pub fn panic_site(msg: &str) -> String {
    let first = msg.lines().next().unwrap_or("");
    let s: String = first.chars().take(80).collect();
    s
}

/// Class of a validator / diagnostic message for fingerprints: quoted names (`...`) and
/// everything that is not a letter are dropped, so the class does not depend on the names,
/// versions or indices of the input that produced it.
pub fn msg_class(msg: &str) -> String {
    let mut out = String::new();
    let mut quoted = false;
    for ch in msg.chars() {
        if ch == '`' {
            quoted = !quoted;
            continue;
        }
        if quoted {
            continue;
        }
        if ch.is_ascii_alphabetic() {
            out.push(ch);
        } else if !out.ends_with('-') && !out.is_empty() {
            out.push('-');
        }
    }
    let out: String = out.trim_end_matches('-').chars().take(48).collect();
    out
}

pub fn ensure_dir(p: &Path) {
    let _ = std::fs::create_dir_all(p);
}

/// Keeps up to `n` samples.
pub struct Samples {
    n: usize,
    pub items: Vec<Value>,
}

impl Samples {
    pub fn new(n: usize) -> Self {
        Samples { n, items: Vec::new() }
    }
    pub fn offer(&mut self, f: impl FnOnce() -> Value) {
        if self.items.len() < self.n {
            self.items.push(f());
        }
    }
}

/// Text form of a component (debugging aid).
pub fn print_wat(bytes: &[u8]) -> String {
    wasmprinter::print_bytes(bytes).unwrap_or_else(|e| format!("<unprintable: {e}>"))
}
