//! C04 — WAC documents compose what the language reference says they compose.
//!
//! E5: a reference evaluator written from the "Statements" chapter of LANGUAGE.md over a
//! *model* of the package library (names + structural types); generated programs are
//! resolved and encoded by wac and the E2 reading of the bytes is compared with the
//! evaluator's composition; ill-formed programs must give the corresponding diagnostic.

use crate::c17::Library;
use indexmap::IndexMap;
use mc_core::e2::{decode, Prov};
use mc_core::libs::wit_package_binary;
use mc_core::{catch, panic_site, sha256_hex, Ctx, Samples, Tier};
use mc_graph::lib_spec::{PkgSpec, Ty};
use mc_graph::refgraph::track;
use rayon::prelude::*;
use serde_json::{json, Map};
use std::collections::{BTreeMap, BTreeSet};
use wac_graph::types::BorrowedPackageKey;
use wac_graph::EncodeOptions;
use wac_parser::Document;

// ---------------------------------------------------------------- library (LibL)

pub struct LibL {
    pub bytes: Library,
    /// component packages by name, as the model sees them
    pub comps: BTreeMap<String, PkgSpec>,
    /// interface path -> instance type (WIT packages)
    pub ifaces: BTreeMap<String, Ty>,
}

pub fn lib_l() -> LibL {
    let f0 = Ty::func0();
    let fp = Ty::func(&[("p", "u32")], None);
    let i_f = Ty::inst(&[("f", f0.clone())]);
    let i_g = Ty::inst(&[("g", f0.clone())]);
    let mut bytes = Library::new();
    let mut ifaces = BTreeMap::new();
    let mut wit = |name: &str, ver: Option<&str>, iface: &str, func: &str, ty: &Ty| {
        let header = match ver {
            Some(v) => format!("package {name}@{v};"),
            None => format!("package {name};"),
        };
        let text = format!("{header}\ninterface {iface} {{ {func}: func(); }}\n");
        bytes.insert((name.to_string(), ver.map(|s| s.to_string())), wit_package_binary(&[("p.wit", &text)]).expect("LibL WIT"));
        let path = match ver {
            Some(v) => format!("{name}/{iface}@{v}"),
            None => format!("{name}/{iface}"),
        };
        ifaces.insert(path, ty.clone());
    };
    wit("a:b", None, "foo", "f", &i_f);
    wit("a:b", Some("1.0.0"), "bar", "f", &i_f);
    wit("a:c", None, "dup", "f", &i_f);
    wit("a:d", None, "dup", "g", &i_g);
    let mut comps = BTreeMap::new();
    let prov = PkgSpec::new(
        "t:prov",
        None,
        &[],
        &[
            ("x", f0.clone()),
            ("a:b/foo", i_f.clone()),
            ("a:b/bar@1.0.0", i_f.clone()),
            ("a:c/dup", i_f.clone()),
            ("a:d/dup", i_g.clone()),
            ("plain-inst", i_f.clone()),
            ("other", fp.clone()),
            ("y", f0.clone()),
        ],
    );
    let target = PkgSpec::new(
        "t:target",
        None,
        &[
            ("x", f0.clone()),
            ("a:b/foo", i_f.clone()),
            ("a:b/bar@1.0.0", i_f.clone()),
            ("a:c/dup", i_f.clone()),
            ("a:d/dup", i_g.clone()),
            ("plain-inst", i_f.clone()),
            // an import named like the `as` name of a renamed path import (rule 1 vs rule 2)
            ("renamed-bar", i_f.clone()),
        ],
        &[("run", f0.clone()), ("a:b/foo", i_f.clone()), ("out", i_f.clone())],
    );
    let mini = PkgSpec::new("t:mini", None, &[("x", f0.clone())], &[("run", f0.clone()), ("zz", f0.clone())]);
    let lone = PkgSpec::new("t:lone", Some("2.0.0"), &[], &[("zz", f0.clone())]);
    for p in [prov, target, mini, lone] {
        bytes.insert((p.name.clone(), p.version.clone()), p.to_bytes());
        comps.insert(p.name.clone(), p);
    }
    LibL { bytes, comps, ifaces }
}

// ---------------------------------------------------------------- program AST (generator side)

#[derive(Clone, Debug, serde::Serialize, serde::Deserialize)]
pub enum ImportTy {
    Func0,
    FuncP,
    InlineF,
    Path(String),
}

#[derive(Clone, Debug, serde::Serialize, serde::Deserialize)]
pub enum Expr {
    Id(String),
    New(String, Vec<Arg>),
    Access(Box<Expr>, String),
    NamedAccess(Box<Expr>, String),
    Paren(Box<Expr>),
}

#[derive(Clone, Debug, serde::Serialize, serde::Deserialize)]
pub enum Arg {
    Inferred(String),
    NamedId(String, Expr),
    NamedStr(String, Expr),
    Spread(String),
    Fill,
}

#[derive(Clone, Debug, serde::Serialize, serde::Deserialize)]
pub enum ExportOpt {
    None,
    AsId(String),
    AsStr(String),
    Spread,
}

#[derive(Clone, Debug, serde::Serialize, serde::Deserialize)]
pub enum Stmt {
    Import { id: String, as_name: Option<String>, as_is_string: bool, ty: ImportTy },
    Let(String, Expr),
    Export(Expr, ExportOpt),
}

pub fn print_expr(e: &Expr) -> String {
    match e {
        Expr::Id(s) => s.clone(),
        Expr::New(p, args) => {
            let a: Vec<String> = args
                .iter()
                .map(|a| match a {
                    Arg::Inferred(s) => s.clone(),
                    Arg::NamedId(n, e) => format!("{n}: {}", print_expr(e)),
                    Arg::NamedStr(n, e) => format!("\"{n}\": {}", print_expr(e)),
                    Arg::Spread(s) => format!("...{s}"),
                    Arg::Fill => "...".to_string(),
                })
                .collect();
            format!("new {p} {{ {} }}", a.join(", "))
        }
        Expr::Access(b, k) => format!("{}.{k}", print_expr(b)),
        Expr::NamedAccess(b, k) => format!("{}[\"{k}\"]", print_expr(b)),
        Expr::Paren(b) => format!("({})", print_expr(b)),
    }
}

pub fn print_program(stmts: &[Stmt]) -> String {
    let mut s = String::from("package t:doc;\n");
    for st in stmts {
        match st {
            Stmt::Import { id, as_name, as_is_string, ty } => {
                let a = match as_name {
                    Some(n) if *as_is_string => format!(" as \"{n}\""),
                    Some(n) => format!(" as {n}"),
                    None => String::new(),
                };
                let t = match ty {
                    ImportTy::Func0 => "func()".to_string(),
                    ImportTy::FuncP => "func(p: u32)".to_string(),
                    ImportTy::InlineF => "interface { f: func(); }".to_string(),
                    ImportTy::Path(p) => p.clone(),
                };
                s.push_str(&format!("import {id}{a}: {t};\n"));
            }
            Stmt::Let(id, e) => s.push_str(&format!("let {id} = {};\n", print_expr(e))),
            Stmt::Export(e, o) => {
                let o = match o {
                    ExportOpt::None => String::new(),
                    ExportOpt::AsId(n) => format!(" as {n}"),
                    ExportOpt::AsStr(n) => format!(" as \"{n}\""),
                    ExportOpt::Spread => "...".to_string(),
                };
                s.push_str(&format!("export {}{o};\n", print_expr(e)));
            }
        }
    }
    s
}

// ---------------------------------------------------------------- reference evaluator (A.4)

#[derive(Clone, Debug, PartialEq)]
pub enum V {
    Imp { name: String, ty: Ty, id: Option<String> },
    Inst { ordinal: usize, pkg: String },
    Acc { base: Box<V>, export: String, ty: Ty, id: Option<String> },
}

#[derive(Clone, Debug)]
pub struct InstRec {
    pub pkg: String,
    pub args: BTreeMap<String, V>,
}

#[derive(Clone, Debug, Default)]
pub struct Composition {
    pub imports: BTreeMap<String, Ty>,
    pub insts: Vec<InstRec>,
    pub exports: BTreeMap<String, V>,
}

#[derive(Debug)]
pub enum Eval {
    Ok(Composition),
    Err(&'static str),
    /// LANGUAGE.md does not say
    Unspecified(&'static str),
}

struct Ev<'a> {
    lib: &'a LibL,
    scope: BTreeMap<String, V>,
    comp: Composition,
}

fn iface_id(name: &str, ty: &Ty) -> Option<String> {
    (ty.is_inst() && name.contains(':')).then(|| name.to_string())
}

/// "exactly one <extern> that has a path which ends with the name" (version suffix ignored);
/// not applied when the name itself is an extern name.
fn unique_last_segment<'a>(name: &str, externs: &'a [(String, Ty)]) -> Option<&'a str> {
    if externs.iter().any(|(n, _)| n == name) {
        return None;
    }
    let mut m = externs.iter().filter(|(n, _)| match n.rfind('/') {
        Some(i) => n[i + 1..].split('@').next() == Some(name),
        None => false,
    });
    let first = m.next()?;
    if m.next().is_some() {
        return None;
    }
    Some(first.0.as_str())
}

type R<T> = Result<T, Eval>;

impl<'a> Ev<'a> {
    fn ty_of(&self, v: &V) -> Ty {
        match v {
            V::Imp { ty, .. } | V::Acc { ty, .. } => ty.clone(),
            V::Inst { pkg, .. } => self.lib.comps[pkg].instance_ty(),
        }
    }
    fn id_of(&self, v: &V) -> Option<String> {
        match v {
            V::Imp { id, .. } | V::Acc { id, .. } => id.clone(),
            V::Inst { .. } => None,
        }
    }

    fn access(&mut self, base: V, export: &str) -> R<V> {
        let ty = self.ty_of(&base);
        let Ty::Inst(exports) = &ty else { return Err(Eval::Err("NotAnInstance")) };
        match exports.iter().find(|(n, _)| n == export) {
            None => Err(Eval::Err("MissingInstanceExport")),
            Some((n, t)) => Ok(V::Acc { base: Box::new(base), export: n.clone(), ty: t.clone(), id: iface_id(n, t) }),
        }
    }

    fn expr(&mut self, e: &Expr) -> R<V> {
        match e {
            Expr::Id(s) => self.scope.get(s).cloned().ok_or(Eval::Err("UndefinedName")),
            Expr::Paren(b) => self.expr(b),
            Expr::Access(b, k) => {
                let base = self.expr(b)?;
                let ty = self.ty_of(&base);
                let Ty::Inst(exports) = &ty else { return Err(Eval::Err("NotAnInstance")) };
                let name = unique_last_segment(k, exports).unwrap_or(k).to_string();
                self.access(base, &name)
            }
            Expr::NamedAccess(b, k) => {
                let base = self.expr(b)?;
                self.access(base, k)
            }
            Expr::New(pkg, args) => self.new_expr(pkg, args),
        }
    }

    fn new_expr(&mut self, pkg: &str, args: &[Arg]) -> R<V> {
        if pkg == "t:doc" {
            return Err(Eval::Err("UnknownPackage"));
        }
        let pkg = pkg.split('@').next().unwrap();
        let Some(spec) = self.lib.comps.get(pkg).cloned() else { return Err(Eval::Err("UnknownPackage")) };
        let mut supplied: IndexMap<String, V> = IndexMap::new();
        let mut fill = false;
        // inferred and named arguments, in textual order
        for (i, a) in args.iter().enumerate() {
            let (name, v) = match a {
                Arg::Spread(_) => continue,
                Arg::Fill => {
                    if i != args.len() - 1 {
                        return Err(Eval::Err("FillArgumentNotLast"));
                    }
                    fill = true;
                    continue;
                }
                Arg::Inferred(x) => {
                    let v = self.scope.get(x).cloned().ok_or(Eval::Err("UndefinedName"))?;
                    // (1) instance with an associated package path that is an import of the component
                    let name = if let Some(id) = self.id_of(&v).filter(|id| spec.import(id).is_some()) {
                        id
                    } else if let Some(n) = match &v {
                        // (2) explicit import name / accessed export name that is an import of the component
                        V::Imp { name, .. } => Some(name.clone()),
                        V::Acc { export, .. } => Some(export.clone()),
                        V::Inst { .. } => None,
                    }
                    .filter(|n| spec.import(n).is_some())
                    {
                        n
                    } else if let Some(p) = unique_last_segment(x, &spec.imports) {
                        // (3) exactly one import whose path ends with the local name
                        p.to_string()
                    } else {
                        x.clone() // (4)
                    };
                    (name, v)
                }
                Arg::NamedId(k, e) => {
                    let v = self.expr(e)?;
                    (unique_last_segment(k, &spec.imports).unwrap_or(k).to_string(), v)
                }
                Arg::NamedStr(k, e) => {
                    let v = self.expr(e)?;
                    (k.clone(), v)
                }
            };
            if supplied.insert(name, v).is_some() {
                return Err(Eval::Err("DuplicateInstantiationArg"));
            }
        }
        // spreads, in textual order, to unspecified and unsatisfied arguments
        for a in args {
            if let Arg::Spread(x) = a {
                let v = self.scope.get(x).cloned().ok_or(Eval::Err("UndefinedName"))?;
                let ty = self.ty_of(&v);
                let Ty::Inst(exports) = &ty else { return Err(Eval::Err("NotAnInstance")) };
                let mut any = false;
                for (iname, _) in &spec.imports {
                    if supplied.contains_key(iname) {
                        continue;
                    }
                    if exports.iter().any(|(n, _)| n == iname) {
                        let acc = self.access(v.clone(), iname)?;
                        supplied.insert(iname.clone(), acc);
                        any = true;
                    }
                }
                if !any {
                    return Err(Eval::Err("SpreadInstantiationNoMatch"));
                }
            }
        }
        // names must be imports of the component, types must be compatible
        for (name, v) in &supplied {
            match spec.import(name) {
                None => return Err(Eval::Err("MissingComponentImport")),
                Some(want) => {
                    if !self.ty_of(v).is_subtype_of(want) {
                        return Err(Eval::Err("MismatchedInstantiationArg"));
                    }
                }
            }
        }
        if !fill && spec.imports.iter().any(|(n, _)| !supplied.contains_key(n)) {
            return Err(Eval::Err("MissingInstantiationArg"));
        }
        let ordinal = self.comp.insts.len();
        self.comp.insts.push(InstRec { pkg: pkg.to_string(), args: supplied.into_iter().collect() });
        Ok(V::Inst { ordinal, pkg: pkg.to_string() })
    }

    fn stmt(&mut self, s: &Stmt) -> R<()> {
        match s {
            Stmt::Import { id, as_name, ty, .. } => {
                let (t, path) = match ty {
                    ImportTy::Func0 => (Ty::func0(), None),
                    ImportTy::FuncP => (Ty::func(&[("p", "u32")], None), None),
                    ImportTy::InlineF => (Ty::inst(&[("f", Ty::func0())]), None),
                    ImportTy::Path(p) => match self.lib.ifaces.get(p) {
                        Some(t) => (t.clone(), Some(p.clone())),
                        None => return Err(Eval::Unspecified("import of an unknown path")),
                    },
                };
                // "Items imported by a package path use the path as the name ... the `as` keyword
                // can be used to rename"; inline types: the local name by default
                let name = as_name.clone().or(path.clone()).unwrap_or_else(|| id.clone());
                if self.comp.imports.contains_key(&name) {
                    return Err(Eval::Err("DuplicateExternName"));
                }
                if self.scope.contains_key(id) {
                    return Err(Eval::Err("DuplicateName"));
                }
                self.comp.imports.insert(name.clone(), t.clone());
                // the instance keeps its associated package path even when renamed
                let iid = path.or_else(|| iface_id(&name, &t));
                self.scope.insert(id.clone(), V::Imp { name, ty: t, id: iid });
                Ok(())
            }
            Stmt::Let(id, e) => {
                let v = self.expr(e)?;
                if self.scope.contains_key(id) {
                    return Err(Eval::Err("DuplicateName"));
                }
                self.scope.insert(id.clone(), v);
                Ok(())
            }
            Stmt::Export(e, opt) => {
                let v = self.expr(e)?;
                match opt {
                    ExportOpt::Spread => {
                        let ty = self.ty_of(&v);
                        let Ty::Inst(exports) = &ty else { return Err(Eval::Err("NotAnInstance")) };
                        let mut any = false;
                        for (n, _) in exports {
                            if self.comp.exports.contains_key(n) {
                                continue;
                            }
                            let acc = self.access(v.clone(), n)?;
                            self.comp.exports.insert(n.clone(), acc);
                            any = true;
                        }
                        if !any {
                            return Err(Eval::Err("SpreadExportNoEffect"));
                        }
                        Ok(())
                    }
                    _ => {
                        let name = match opt {
                            ExportOpt::AsId(n) | ExportOpt::AsStr(n) => n.clone(),
                            _ => match self.id_of(&v) {
                                Some(id) => id,
                                None => match &v {
                                    V::Imp { name, .. } => name.clone(),
                                    V::Acc { export, .. } => export.clone(),
                                    V::Inst { .. } => return Err(Eval::Err("ExportRequiresAs")),
                                },
                            },
                        };
                        if self.comp.exports.contains_key(&name) {
                            return Err(Eval::Err("DuplicateExternName"));
                        }
                        self.comp.exports.insert(name, v);
                        Ok(())
                    }
                }
            }
        }
    }
}

pub fn evaluate(lib: &LibL, prog: &[Stmt]) -> Eval {
    let mut ev = Ev { lib, scope: BTreeMap::new(), comp: Composition::default() };
    for s in prog {
        if let Err(e) = ev.stmt(s) {
            return e;
        }
    }
    Eval::Ok(ev.comp)
}

// ---------------------------------------------------------------- comparison with the encoding

fn track_key(n: &str) -> String {
    match track(n) {
        Some((b, ma, mi)) => format!("{b}@{ma}.{mi}"),
        None => n.to_string(),
    }
}

fn denote(lib: &LibL, comp: &Composition, v: &V) -> Prov {
    match v {
        V::Imp { name, .. } => Prov::Import(name.clone()),
        V::Acc { base, export, .. } => Prov::Alias(Box::new(denote(lib, comp, base)), export.clone()),
        V::Inst { ordinal, .. } => inst_prov(lib, comp, *ordinal),
    }
}

fn inst_prov(lib: &LibL, comp: &Composition, ordinal: usize) -> Prov {
    let rec = &comp.insts[ordinal];
    let spec = &lib.comps[&rec.pkg];
    let mut args = BTreeMap::new();
    for (n, _) in &spec.imports {
        let p = match rec.args.get(n) {
            Some(v) => denote(lib, comp, v),
            None => Prov::Implicit(track_key(n)),
        };
        args.insert(n.clone(), p);
    }
    Prov::Inst(Box::new(Prov::Embedded(sha256_hex(&spec.to_bytes()))), args)
}

fn normalize(p: &Prov, explicit: &BTreeSet<String>) -> Prov {
    match p {
        Prov::Import(n) if !explicit.contains(n) => Prov::Implicit(track_key(n)),
        Prov::Inst(c, a) => Prov::Inst(Box::new(normalize(c, explicit)), a.iter().map(|(k, v)| (k.clone(), normalize(v, explicit))).collect()),
        Prov::Alias(b, n) => Prov::Alias(Box::new(normalize(b, explicit)), n.clone()),
        other => other.clone(),
    }
}

fn error_class(e: &wac_parser::resolution::Error) -> &'static str {
    use wac_parser::resolution::Error as E;
    match e {
        E::UndefinedName { .. } => "UndefinedName",
        E::DuplicateName { .. } => "DuplicateName",
        E::UnknownPackage { .. } => "UnknownPackage",
        E::MissingComponentImport { .. } => "MissingComponentImport",
        E::MismatchedInstantiationArg { .. } => "MismatchedInstantiationArg",
        E::DuplicateInstantiationArg { .. } => "DuplicateInstantiationArg",
        E::MissingInstantiationArg { .. } => "MissingInstantiationArg",
        E::ImportConflict { .. } => "ImportConflict",
        E::InstantiationArgMergeFailure { .. } => "InstantiationArgMergeFailure",
        E::NotAnInstance { .. } => "NotAnInstance",
        E::MissingInstanceExport { .. } => "MissingInstanceExport",
        E::ExportRequiresAs { .. } => "ExportRequiresAs",
        E::ExportConflict { .. } => "ExportConflict",
        E::DuplicateExternName { .. } => "DuplicateExternName",
        E::InvalidExternName { .. } => "InvalidExternName",
        E::FillArgumentNotLast { .. } => "FillArgumentNotLast",
        E::SpreadInstantiationNoMatch { .. } => "SpreadInstantiationNoMatch",
        E::SpreadExportNoEffect { .. } => "SpreadExportNoEffect",
        E::ValidationFailure { .. } => "ValidationFailure",
        _ => "other",
    }
}

type Viol = (String, String);

pub struct CaseOut {
    pub viols: Vec<Viol>,
    pub class: String,
    pub unspecified: bool,
}

pub fn check_program(lib: &LibL, versions: &BTreeMap<(String, Option<String>), Option<semver::Version>>, prog: &[Stmt], family: &str) -> CaseOut {
    let text = print_program(prog);
    let mut out = CaseOut { viols: vec![], class: String::new(), unspecified: false };
    let want = evaluate(lib, prog);
    let doc = match Document::parse(&text) {
        Ok(d) => d,
        Err(e) => mc_core::machinery_error(&format!("generated program does not parse: {e}\n{text}")),
    };
    let mut packages = IndexMap::new();
    for ((n, v), b) in &lib.bytes {
        packages.insert(BorrowedPackageKey::from_name_and_version(n, versions[&(n.clone(), v.clone())].as_ref()), b.clone());
    }
    let res = match catch(|| doc.resolve(packages)) {
        Err(p) => {
            out.viols.push((format!("C04/panic/resolve/{}", panic_site(&p)), format!("resolve panicked: {p}\n{text}")));
            out.class = "panic".into();
            return out;
        }
        Ok(r) => r,
    };
    // implicit-import conflicts surface at encoding time: an unsatisfied argument whose name
    // is an explicit import is the documented "implicit imports may not conflict" error
    let got: Result<(wac_parser::resolution::Resolution, Vec<(bool, Result<Vec<u8>, &'static str>)>), &'static str> = match res {
        Err(e) => Err(error_class(&e)),
        Ok(r) => {
            let mut enc = Vec::new();
            for define in [true, false] {
                match catch(|| r.encode(EncodeOptions { define_components: define, validate: true, processor: None })) {
                    Err(p) => {
                        out.viols.push((format!("C04/panic/encode/{}", panic_site(&p)), format!("encode panicked: {p}\n{text}")));
                        enc.push((define, Err("panic")));
                    }
                    Ok(Ok(b)) => enc.push((define, Ok(b))),
                    Ok(Err(e)) => enc.push((define, Err(error_class(&e)))),
                }
            }
            Ok((r, enc))
        }
    };
    match (&want, &got) {
        (Eval::Unspecified(_), _) => {
            out.unspecified = true;
            out.class = "unspecified".into();
        }
        (Eval::Err(w), Err(g)) => {
            out.class = format!("Err:{w}");
            // DuplicateExternName for exports may be reported as ExportConflict against a definition
            if w != g {
                out.viols.push((format!("C04/diagnostic/{family}/want-{w}/got-{g}"), format!("the reference makes this program ill-formed with {w}; wac reports {g}\n{text}")));
            }
        }
        (Eval::Err(w), Ok(_)) => {
            out.class = format!("Err:{w}");
            out.viols.push((format!("C04/ill-formed-accepted/{family}/want-{w}"), format!("the reference makes this program ill-formed ({w}) but wac composed it\n{text}")));
        }
        (Eval::Ok(_), Err(g)) => {
            out.class = "Ok".into();
            out.viols.push((format!("C04/well-formed-rejected/{family}/got-{g}"), format!("the reference composes this program; wac rejects it with {g}\n{text}")));
        }
        (Eval::Ok(comp), Ok((_, enc))) => {
            out.class = "Ok".into();
            let explicit: BTreeSet<String> = comp.imports.keys().cloned().collect();
            // an unsatisfied argument named like an explicit import: documented conflict
            let conflict = comp.insts.iter().any(|r| lib.comps[&r.pkg].imports.iter().any(|(n, _)| !r.args.contains_key(n) && explicit.contains(n)));
            for (define, r) in enc {
                let mode = if *define { "embedded" } else { "imported" };
                match r {
                    Err(c) => {
                        if !(conflict && *c == "ImportConflict") {
                            out.viols.push((format!("C04/encode-error/{family}/{mode}/{c}"), format!("a well-formed program does not encode ({c})\n{text}")));
                        } else {
                            out.class = "Err:ImportConflict".into();
                        }
                    }
                    Ok(bytes) => {
                        if conflict {
                            out.viols.push((format!("C04/implicit-import-conflict-accepted/{family}/{mode}"), format!("an implicit import conflicts with an explicit import of the same name, but the program encodes\n{text}")));
                            continue;
                        }
                        if !*define {
                            continue; // wiring is compared on the embedded form (hashes identify packages)
                        }
                        let d = match decode(bytes) {
                            Ok(d) => d,
                            Err(e) => {
                                out.viols.push(("C04/e2/reader-error".into(), format!("{e}\n{text}")));
                                continue;
                            }
                        };
                        // instantiations as a multiset
                        let mut want_i: Vec<Prov> = (0..comp.insts.len()).map(|i| normalize(&inst_prov(lib, comp, i), &explicit)).collect();
                        let mut got_i: Vec<Prov> = d.instantiations.iter().map(|p| normalize(p, &explicit)).collect();
                        want_i.sort();
                        got_i.sort();
                        if want_i != got_i {
                            out.viols.push((
                                format!("C04/composition/instantiations/{family}"),
                                format!("encoded instantiations {got_i:?}\nreference composition {want_i:?}\n{text}"),
                            ));
                        }
                        // exports
                        let got_e: BTreeMap<String, Prov> = d.exports.iter().map(|(n, _, p)| (n.clone(), normalize(p, &explicit))).collect();
                        let want_e: BTreeMap<String, Prov> = comp.exports.iter().map(|(n, v)| (n.clone(), normalize(&denote(lib, comp, v), &explicit))).collect();
                        if got_e != want_e {
                            out.viols.push((format!("C04/composition/exports/{family}"), format!("encoded exports {got_e:?}\nreference {want_e:?}\n{text}")));
                        }
                        // explicit imports under their names
                        let got_names: BTreeSet<&String> = d.imports.iter().map(|(n, _)| n).collect();
                        for n in &explicit {
                            if !got_names.contains(n) {
                                // cause: an import of a named interface renamed with `as`, while the same
                                // interface is also imported implicitly
                                let renamed_path = prog.iter().any(|s| matches!(s, Stmt::Import { as_name: Some(a), ty: ImportTy::Path(p), .. } if a == n && got_names.iter().any(|g| mc_graph::refgraph::same_track(g, p))));
                                let tag = if renamed_path { "renamed-path-import-whose-interface-is-also-implicitly-imported".to_string() } else { family.to_string() };
                                out.viols.push((format!("C04/composition/explicit-import-missing/{tag}"), format!("explicit import `{n}` is not an import of the output ({got_names:?})\n{text}")));
                            }
                        }
                    }
                }
            }
        }
    }
    // one cause, several symptoms: when a renamed path import was dropped in favour of the
    // implicit import of the same interface, wiring through it differs too
    let cause = "C04/composition/explicit-import-missing/renamed-path-import-whose-interface-is-also-implicitly-imported";
    if out.viols.iter().any(|(f, _)| f == cause) {
        let rest: Vec<String> = out.viols.iter().filter(|(f, _)| f != cause).map(|(f, _)| f.clone()).collect();
        out.viols.retain(|(f, _)| f == cause || !f.starts_with("C04/composition/"));
        if let Some(first) = out.viols.iter_mut().find(|(f, _)| f == cause) {
            if !rest.is_empty() {
                first.1.push_str(&format!("\n(also: {rest:?})"));
            }
        }
    }
    out
}

// ---------------------------------------------------------------- program generator

fn id(s: &str) -> Expr {
    Expr::Id(s.to_string())
}
fn acc(e: Expr, k: &str) -> Expr {
    Expr::Access(Box::new(e), k.to_string())
}

/// The fixed prefix binding every kind of value the precedence rules distinguish.
pub fn prefix() -> Vec<Stmt> {
    let imp = |id: &str, as_name: Option<&str>, s: bool, ty: ImportTy| Stmt::Import { id: id.into(), as_name: as_name.map(|x| x.into()), as_is_string: s, ty };
    vec![
        imp("ix", None, false, ImportTy::Func0),
        imp("x", None, false, ImportTy::Func0),
        imp("ifoo", None, false, ImportTy::Path("a:b/foo".into())),
        imp("foo", Some("my-foo"), false, ImportTy::InlineF),
        imp("dup", None, false, ImportTy::InlineF),
        imp("rbar", Some("renamed-bar"), true, ImportTy::Path("a:b/bar@1.0.0".into())),
        Stmt::Let("prov".into(), Expr::New("t:prov".into(), vec![Arg::Fill])),
        Stmt::Let("pfoo".into(), acc(id("prov"), "foo")),
        Stmt::Let("px".into(), acc(id("prov"), "x")),
        Stmt::Let("pbar".into(), acc(id("prov"), "bar")),
        Stmt::Let("pdupc".into(), Expr::NamedAccess(Box::new(id("prov")), "a:c/dup".into())),
        Stmt::Let("pdupd".into(), Expr::NamedAccess(Box::new(id("prov")), "a:d/dup".into())),
        Stmt::Let("pother".into(), acc(id("prov"), "other")),
        Stmt::Let("pplain".into(), acc(id("prov"), "plain-inst")),
        Stmt::Let("al".into(), id("px")),
        Stmt::Let("lone".into(), Expr::New("t:lone@2.0.0".into(), vec![])),
    ]
}

/// Per import of `t:target`: the ways to supply it (None = omitted).
fn modes() -> Vec<(&'static str, Vec<Option<Arg>>)> {
    let n_id = |k: &str, e: Expr| Some(Arg::NamedId(k.into(), e));
    let n_str = |k: &str, e: Expr| Some(Arg::NamedStr(k.into(), e));
    let inf = |k: &str| Some(Arg::Inferred(k.into()));
    vec![
        ("x", vec![None, inf("x"), inf("px"), inf("al"), inf("ix"), n_id("x", id("px")), n_str("x", id("ix")), n_id("x", id("pother")), n_id("x", Expr::Paren(Box::new(acc(id("prov"), "y"))))]),
        ("a:b/foo", vec![None, inf("ifoo"), inf("pfoo"), inf("foo"), n_id("foo", id("pfoo")), n_str("a:b/foo", id("ifoo")), n_str("a:b/foo", Expr::NamedAccess(Box::new(id("prov")), "a:c/dup".into()))]),
        ("a:b/bar@1.0.0", vec![None, inf("pbar"), inf("rbar"), n_id("bar", id("pbar")), n_str("a:b/bar@1.0.0", id("rbar"))]),
        ("dup", vec![None, n_str("a:c/dup", id("pdupc")), n_id("dup", id("pdupc")), inf("dup"), inf("pdupc")]),
        ("plain-inst", vec![None, inf("pplain"), n_id("plain-inst", id("pplain")), n_str("plain-inst", id("foo"))]),
        ("renamed-bar", vec![None, n_str("renamed-bar", id("pfoo")), n_id("renamed-bar", id("rbar"))]),
    ]
}

pub fn programs(tier: Tier) -> Vec<(String, Vec<Stmt>)> {
    let mut out: Vec<(String, Vec<Stmt>)> = Vec::new();
    let pre = prefix();
    let m = modes();
    let sizes: Vec<usize> = m.iter().map(|(_, v)| v.len()).collect();
    let total: usize = sizes.iter().product();
    let spreads: Vec<Vec<&str>> = if tier == Tier::Thorough { vec![vec![], vec!["prov"], vec!["prov", "lone"], vec!["lone", "prov"], vec!["pfoo"]] } else { vec![vec![], vec!["prov"]] };
    let fills: &[&str] = &["none", "last"];
    for k in 0..total {
        let mut idx = k;
        let mut args: Vec<Arg> = Vec::new();
        let mut tag = Vec::new();
        for (gi, (_, opts)) in m.iter().enumerate() {
            let c = idx % sizes[gi];
            idx /= sizes[gi];
            tag.push(c.to_string());
            if let Some(a) = &opts[c] {
                args.push(a.clone());
            }
        }
        for sp in &spreads {
            for fill in fills {
                // quick: thin the product deterministically but keep every single-mode slice
                let nonzero = tag.iter().filter(|t| *t != "0").count();
                if tier == Tier::Quick && nonzero > 2 && (k + sp.len()) % 2 != 0 {
                    continue;
                }
                for reversed in [false, true] {
                    if reversed && (args.len() < 2 || (tier == Tier::Quick && k % 3 != 0)) {
                        continue;
                    }
                    let mut a = args.clone();
                    if reversed {
                        a.reverse();
                    }
                    for s in sp {
                        a.push(Arg::Spread(s.to_string()));
                    }
                    if *fill == "last" {
                        a.push(Arg::Fill);
                    }
                    let mut prog = pre.clone();
                    prog.push(Stmt::Let("t".into(), Expr::New("t:target".into(), a)));
                    out.push((format!("new/{}", if *fill == "last" { "fill" } else { "nofill" }), prog));
                }
            }
        }
    }
    // export forms on a fully implicit and a fully explicit instantiation
    let full = vec![
        Arg::Inferred("x".into()),
        Arg::Inferred("ifoo".into()),
        Arg::Inferred("pbar".into()),
        Arg::NamedStr("a:c/dup".into(), id("pdupc")),
        Arg::NamedStr("a:d/dup".into(), id("pdupd")),
        Arg::Inferred("pplain".into()),
        Arg::NamedStr("renamed-bar".into(), id("pfoo")),
    ];
    let export_forms: Vec<(&str, Vec<Stmt>)> = vec![
        ("access", vec![Stmt::Export(acc(id("t"), "run"), ExportOpt::None)]),
        ("access-as-id", vec![Stmt::Export(acc(id("t"), "run"), ExportOpt::AsId("r2".into()))]),
        ("access-as-string", vec![Stmt::Export(acc(id("t"), "run"), ExportOpt::AsStr("r-2".into()))]),
        ("spread", vec![Stmt::Export(id("t"), ExportOpt::Spread)]),
        ("import-with-path", vec![Stmt::Export(id("ifoo"), ExportOpt::None)]),
        ("renamed-import", vec![Stmt::Export(id("rbar"), ExportOpt::None)]),
        ("inline-import", vec![Stmt::Export(id("foo"), ExportOpt::None)]),
        ("instance-requires-as", vec![Stmt::Export(id("t"), ExportOpt::None)]),
        ("instance-as", vec![Stmt::Export(id("t"), ExportOpt::AsId("whole".into()))]),
        ("last-segment-access", vec![Stmt::Export(acc(id("t"), "foo"), ExportOpt::None)]),
        ("duplicate", vec![Stmt::Export(acc(id("t"), "run"), ExportOpt::None), Stmt::Export(acc(id("t"), "run"), ExportOpt::None)]),
        ("access-then-spread", vec![Stmt::Export(acc(id("prov"), "y"), ExportOpt::AsId("run".into())), Stmt::Export(id("t"), ExportOpt::Spread)]),
        ("spread-twice", vec![Stmt::Export(id("t"), ExportOpt::Spread), Stmt::Export(id("t"), ExportOpt::Spread)]),
        ("spread-non-instance", vec![Stmt::Export(id("px"), ExportOpt::Spread)]),
        ("new-in-export", vec![Stmt::Export(acc(Expr::New("t:mini".into(), vec![Arg::Inferred("x".into())]), "run"), ExportOpt::None)]),
        ("nested-paren", vec![Stmt::Export(Expr::NamedAccess(Box::new(Expr::Paren(Box::new(id("t")))), "out".into()), ExportOpt::None)]),
    ];
    for (name, ex) in &export_forms {
        for (kind, args) in [("explicit", full.clone()), ("implicit-rest", vec![Arg::Inferred("pbar".into()), Arg::Fill])] {
            let mut prog = pre.clone();
            prog.push(Stmt::Let("t".into(), Expr::New("t:target".into(), args)));
            prog.extend(ex.iter().cloned());
            out.push((format!("export/{name}/{kind}"), prog));
        }
    }
    // export product: every source expression x every export option, singly and in ordered pairs
    // (the second export meets whatever names the first one took)
    {
        let sources: Vec<(&str, Expr)> = vec![
            ("t.run", acc(id("t"), "run")),
            ("t.foo", acc(id("t"), "foo")),
            ("t[out]", Expr::NamedAccess(Box::new(id("t")), "out".into())),
            ("ifoo", id("ifoo")),
            ("rbar", id("rbar")),
            ("foo", id("foo")),
            ("x", id("x")),
            ("px", id("px")),
            ("pfoo", id("pfoo")),
            ("pdupc", id("pdupc")),
            ("al", id("al")),
            ("t", id("t")),
            ("prov", id("prov")),
            ("(t)", Expr::Paren(Box::new(id("t")))),
            ("prov.foo.f", acc(acc(id("prov"), "foo"), "f")),
        ];
        let opts: Vec<(&str, ExportOpt)> = vec![
            ("plain", ExportOpt::None),
            ("as-id", ExportOpt::AsId("e1".into())),
            ("as-str", ExportOpt::AsStr("e-2".into())),
            ("as-run", ExportOpt::AsId("run".into())),
            ("as-x", ExportOpt::AsStr("x".into())),
            ("spread", ExportOpt::Spread),
        ];
        let forms: Vec<(String, Stmt)> = sources.iter().flat_map(|(sn, e)| opts.iter().map(move |(on, o)| (format!("{sn}:{on}"), Stmt::Export(e.clone(), o.clone())))).collect();
        let rest = vec![Arg::Inferred("pbar".into()), Arg::Fill];
        for (n1, s1) in &forms {
            for (kind, args) in [("explicit", full.clone()), ("implicit-rest", rest.clone())] {
                let mut prog = pre.clone();
                prog.push(Stmt::Let("t".into(), Expr::New("t:target".into(), args)));
                prog.push(s1.clone());
                out.push((format!("export-product/1/{kind}"), prog));
            }
            // the same single export where local names coincide with export names of the target
            {
                let mut prog = pre.clone();
                prog.push(Stmt::Let("t".into(), Expr::New("t:target".into(), rest.clone())));
                prog.push(Stmt::Let("run".into(), id("px")));
                prog.push(Stmt::Let("out".into(), id("pfoo")));
                prog.push(s1.clone());
                out.push(("export-product/1/locals-named-like-exports".to_string(), prog));
            }
            for (i2, (_n2, s2)) in forms.iter().enumerate() {
                if tier == Tier::Quick && (i2 + n1.len()) % 2 != 0 && !matches!(s2, Stmt::Export(_, ExportOpt::Spread)) {
                    continue;
                }
                let mut prog = pre.clone();
                prog.push(Stmt::Let("t".into(), Expr::New("t:target".into(), rest.clone())));
                prog.push(s1.clone());
                prog.push(s2.clone());
                out.push(("export-product/2".to_string(), prog));
            }
        }
        // access product: every base x every accessor, bound by `let` and exported under a fresh name
        let bases = ["prov", "t", "pfoo", "ifoo", "foo", "rbar", "x", "px", "lone"];
        let accessors: Vec<Box<dyn Fn(Expr) -> Expr>> = vec![
            Box::new(|b| acc(b, "x")),
            Box::new(|b| acc(b, "foo")),
            Box::new(|b| acc(b, "bar")),
            Box::new(|b| acc(b, "dup")),
            Box::new(|b| acc(b, "f")),
            Box::new(|b| acc(b, "run")),
            Box::new(|b| acc(b, "nope")),
            Box::new(|b| Expr::NamedAccess(Box::new(b), "a:c/dup".into())),
            Box::new(|b| Expr::NamedAccess(Box::new(b), "a:b/foo".into())),
            Box::new(|b| Expr::NamedAccess(Box::new(b), "a:b/bar@1.0.0".into())),
            Box::new(|b| Expr::NamedAccess(Box::new(b), "a:b/bar".into())),
            Box::new(|b| Expr::NamedAccess(Box::new(b), "bar".into())),
            Box::new(|b| Expr::NamedAccess(Box::new(b), "f".into())),
            Box::new(|b| acc(acc(b, "foo"), "f")),
            Box::new(|b| acc(Expr::Paren(Box::new(acc(b, "bar"))), "f")),
        ];
        for b in bases {
            for a in &accessors {
                for export_plain in [false, true] {
                    let mut prog = pre.clone();
                    prog.push(Stmt::Let("t".into(), Expr::New("t:target".into(), rest.clone())));
                    prog.push(Stmt::Let("v".into(), a(id(b))));
                    prog.push(Stmt::Export(id("v"), if export_plain { ExportOpt::None } else { ExportOpt::AsStr("o-1".into()) }));
                    out.push(("access-product".to_string(), prog));
                }
            }
        }
    }
    // single-fault variants
    let with_t = |args: Vec<Arg>, tail: Vec<Stmt>| {
        let mut p = pre.clone();
        p.push(Stmt::Let("t".into(), Expr::New("t:target".into(), args)));
        p.extend(tail);
        p
    };
    let mut faults: Vec<(&str, Vec<Stmt>)> = vec![
        ("undefined-inferred", with_t(vec![Arg::Inferred("nope".into()), Arg::Fill], vec![])),
        ("undefined-in-named", with_t(vec![Arg::NamedId("x".into(), id("nope")), Arg::Fill], vec![])),
        ("undefined-spread", with_t(vec![Arg::Spread("nope".into()), Arg::Fill], vec![])),
        ("duplicate-let", with_t(vec![Arg::Fill], vec![Stmt::Let("t".into(), id("px"))])),
        ("missing-argument", with_t(vec![Arg::Inferred("x".into())], vec![])),
        ("duplicate-argument", with_t(vec![Arg::Inferred("x".into()), Arg::NamedStr("x".into(), id("px")), Arg::Fill], vec![])),
        ("access-non-instance", with_t(vec![Arg::Fill], vec![Stmt::Let("bad".into(), acc(id("px"), "foo"))])),
        ("named-access-non-instance", with_t(vec![Arg::Fill], vec![Stmt::Let("bad".into(), Expr::NamedAccess(Box::new(id("px")), "foo".into()))])),
        ("spread-non-instance", with_t(vec![Arg::Spread("px".into()), Arg::Fill], vec![])),
        ("fill-not-last", with_t(vec![Arg::Fill, Arg::Inferred("x".into())], vec![])),
        ("fill-in-the-middle", with_t(vec![Arg::Inferred("x".into()), Arg::Fill, Arg::Inferred("ifoo".into())], vec![])),
        ("ineffective-spread", with_t(vec![Arg::Spread("lone".into()), Arg::Fill], vec![])),
        ("ineffective-second-spread", with_t(vec![Arg::Spread("prov".into()), Arg::Spread("prov".into()), Arg::Fill], vec![])),
        ("missing-export", with_t(vec![Arg::Fill], vec![Stmt::Let("bad".into(), acc(id("t"), "nope"))])),
        ("missing-named-export", with_t(vec![Arg::Fill], vec![Stmt::Let("bad".into(), Expr::NamedAccess(Box::new(id("t")), "foo".into()))])),
        ("unknown-argument-name", with_t(vec![Arg::NamedId("zz".into(), id("px")), Arg::Fill], vec![])),
        // a name written as a string is exact: the last-segment / version-less shorthands are for identifiers
        ("string-name-is-last-segment", with_t(vec![Arg::NamedStr("foo".into(), id("pfoo")), Arg::Fill], vec![])),
        ("string-name-is-last-segment-of-versioned", with_t(vec![Arg::NamedStr("bar".into(), id("pbar")), Arg::Fill], vec![])),
        ("string-name-lacks-version", with_t(vec![Arg::NamedStr("a:b/bar".into(), id("pbar")), Arg::Fill], vec![])),
        ("string-name-is-last-segment-no-fill", with_t(vec![Arg::NamedStr("foo".into(), id("pfoo"))], vec![])),
        ("mismatched-type", with_t(vec![Arg::NamedId("x".into(), id("pother")), Arg::Fill], vec![])),
        ("implicit-conflicts-with-explicit", with_t(vec![Arg::Inferred("ifoo".into()), Arg::Fill], vec![])),
        ("duplicate-import-name", {
            let mut p = pre.clone();
            p.push(Stmt::Import { id: "again".into(), as_name: Some("x".into()), as_is_string: false, ty: ImportTy::Func0 });
            p
        }),
        ("duplicate-import-id", {
            let mut p = pre.clone();
            p.push(Stmt::Import { id: "x".into(), as_name: Some("other-name".into()), as_is_string: false, ty: ImportTy::Func0 });
            p
        }),
        ("self-instantiation", {
            let mut p = pre.clone();
            p.push(Stmt::Let("me".into(), Expr::New("t:doc".into(), vec![Arg::Fill])));
            p
        }),
    ];
    for (name, p) in faults.drain(..) {
        out.push((format!("fault/{name}"), p));
    }
    // nesting: new inside named arguments and parentheses
    for (name, inner) in [
        ("nested-new-in-named", Expr::New("t:mini".into(), vec![Arg::Inferred("x".into())])),
        ("nested-new-paren", Expr::Paren(Box::new(Expr::New("t:mini".into(), vec![Arg::NamedId("x".into(), acc(id("prov"), "y"))])))),
        ("nested-new-fill", Expr::New("t:mini".into(), vec![Arg::Fill])),
    ] {
        let p = with_t(vec![Arg::NamedId("x".into(), acc(inner, "run")), Arg::Fill], vec![Stmt::Export(acc(id("t"), "run"), ExportOpt::None)]);
        out.push((format!("nest/{name}"), p));
    }
    out
}

pub fn run(args: &[String]) {
    let mut ctx = Ctx::new("C04", "translation_validation", args);
    let lib = lib_l();
    let versions: BTreeMap<(String, Option<String>), Option<semver::Version>> =
        lib.bytes.keys().map(|(n, v)| ((n.clone(), v.clone()), v.as_ref().map(|v| semver::Version::parse(v).unwrap()))).collect();
    if let Some(case) = ctx.replay_case().cloned() {
        let prog: Vec<Stmt> = serde_json::from_value(case["program"].clone()).unwrap_or_else(|e| mc_core::machinery_error(&format!("bad program: {e}")));
        let out = check_program(&lib, &versions, &prog, case["family"].as_str().unwrap_or("replay"));
        for (fp, what) in out.viols {
            ctx.violation(fp, what, case.clone());
        }
        ctx.finish(Map::new(), vec![]);
    }
    let tier = ctx.tier();
    let progs = programs(tier);
    let outs: Vec<CaseOut> = progs.par_iter().map(|(fam, p)| check_program(&lib, &versions, p, fam)).collect();
    let mut classes: BTreeMap<String, u64> = BTreeMap::new();
    let mut samples = Samples::new(3);
    let mut ok = 0u64;
    let mut unspecified = 0u64;
    for ((fam, prog), out) in progs.iter().zip(outs) {
        *classes.entry(out.class.clone()).or_default() += 1;
        if out.unspecified {
            unspecified += 1;
        }
        if out.class == "Ok" {
            ok += 1;
            if fam.starts_with("export/") {
                samples.offer(|| json!({"family": fam, "program": print_program(prog)}));
            }
        }
        for (fp, what) in out.viols {
            ctx.violation(fp, what, json!({"family": fam, "program": prog, "text": print_program(prog)}));
        }
    }
    let mut cov = Map::new();
    cov.insert("programs".into(), json!(progs.len()));
    cov.insert("disagreements_checked".into(), json!(progs.len()));
    cov.insert("samples".into(), json!(samples.items));
    cov.insert("exhaustive".into(), json!(true));
    cov.insert("outcome_classes".into(), json!(classes));
    cov.insert("well_formed_programs_compared_on_bytes".into(), json!(ok));
    cov.insert("unspecified_cases".into(), json!(unspecified));
    cov.insert("evaluations".into(), json!(progs.len()));
    cov.insert("distinct_nontrivial".into(), json!(ok));
    cov.insert(
        "rule".into(),
        json!("programs = fixed prefix binding every kind of value the name-inference rules distinguish (explicit imports by path / inline type / `as`, an instance from `new`, accesses, named accesses, a let alias) + one `new t:target {..}` whose argument list is the product of per-import supply modes (omitted, inferred via each bound name, named by identifier, named by string, mismatching) x spreads x `...` x argument order, + every export form, + single-fault variants, + nested `new`; each program is evaluated by the reference evaluator (LANGUAGE.md) and by wac (parse, resolve, encode); outcome class must agree and for well-formed programs the E2 reading of the embedded encoding (instantiations with per-name argument provenance, exports, explicit imports) must equal the evaluator's composition; export product: 15 source expressions (accesses, last-segment and named accesses, chained access, imports by path / renamed / inline / function, let aliases, instances, parenthesised) x 6 export options (plain, `as` id, `as` string, `as` a name the target exports, `as` a name that is also an import, spread), singly on two instantiations (and once more with local names equal to export names of the target) and in ordered pairs (quick: half of the non-spread second statements); access product: 9 bases x 15 accessors (plain, last-segment, absent, named with / without version, chained, parenthesised) bound by let and exported plainly and under a fresh name"),
    );
    ctx.finish(
        cov,
        vec![
            "reference evaluator = DESIGN.md A.4, written from LANGUAGE.md; a version suffix is ignored when matching 'path ends with the name'; documents carry at most one fault so diagnostic precedence does not matter".into(),
            "argument type compatibility uses the resource-free structural rule (C07 ties wac's checker to the reference validator)".into(),
        ],
    );
}
