//! C11 — a `targets` verdict means the output really conforms to the world.
//!
//! Worlds live in a generated WIT dependency package; compositions are WAC documents with a
//! `targets` clause: the conforming one per world and every single perturbation (extra
//! import, missing export, type change in an import / export, other compatible version).
//! Three verdicts must agree: resolution, the stand-alone `validate_target` on the encoded
//! output, and (resource-free worlds) the reference validator's component subtyping.

use indexmap::IndexMap;
use mc_core::libs::{component_from_wit, wit_package_binary};
use mc_core::{catch, panic_site, Ctx, Samples};
use rayon::prelude::*;
use serde_json::{json, Map};
use std::collections::BTreeMap;
use wac_graph::types::{validate_target, BorrowedPackageKey, ItemKind, Package, Type, Types, WorldId};
use wac_graph::EncodeOptions;
use wac_parser::Document;
use wasmparser::component_types::{ComponentAnyTypeId, ComponentEntityType};

fn wd(version: &str) -> String {
    wd_with(version, "")
}

/// `extra` = additional items of interface `ia` (a component built against the wider `ia` needs
/// more than the world's `ia` offers when it imports it, and offers more when it exports it).
fn wd_with(version: &str, extra: &str) -> String {
    format!(
        r#"package t:wd@{version};
interface ia {{ record r {{ a: u32 }} fa: func(x: r); {extra} }}
interface ib {{ use ia.{{r}}; fb: func() -> r; }}
interface ic {{ fc: func(); }}
interface id {{ fd1: func(); fd2: func(); }}
world w8 {{ import id; export id; }}
world w9 {{ import up: interface {{ fd1: func(); fd2: func(); }} export down: interface {{ fd1: func(); fd2: func(); }} }}
world w1 {{ import f: func(); export g: func(); }}
world w2 {{ import ia; export ic; }}
world w3 {{ import ib; export g: func(); }}
world w4 {{ import f: func(); import ic; export g: func(); export ia; }}
world w5 {{ export g: func(); }}
world w6 {{ import f: func(x: u32); export g: func() -> u32; }}
world w7 {{ import f: func(); import h: func(); export g: func(); export k: func(); }}
"#
    )
}

/// Implementation worlds (components) in a second package that depends on t:wd.
fn impls(wd_version: &str) -> String {
    format!(
        r#"package t:impls;
world c1 {{ import f: func(); export g: func(); }}
world c1-more-imports {{ import f: func(); import extra: func(); export g: func(); }}
world c1-fewer-imports {{ export g: func(); }}
world c1-import-retyped {{ import f: func(x: u32); export g: func(); }}
world c1-export-retyped {{ import f: func(); export g: func() -> u32; }}
world c1-more-exports {{ import f: func(); export g: func(); export more: func(); }}
world c2 {{ import t:wd/ia@{wd_version}; export t:wd/ic@{wd_version}; }}
world c2-only-export {{ export t:wd/ic@{wd_version}; }}
world c3 {{ import t:wd/ib@{wd_version}; export g: func(); }}
world c4 {{ import f: func(); import t:wd/ic@{wd_version}; export g: func(); export t:wd/ia@{wd_version}; }}
world c6 {{ import f: func(x: u32); export g: func() -> u32; }}
world c7 {{ import f: func(); import h: func(); export g: func(); export k: func(); }}
world c-ic-importer {{ import t:wd/ic@{wd_version}; export g: func(); }}
world c-ia-exporter {{ export t:wd/ia@{wd_version}; }}
"#
    )
}

#[derive(Clone, Debug)]
pub struct Case {
    pub world: &'static str,
    pub variant: &'static str,
    pub doc: String,
    /// what the statement says about this composition
    pub expect: Expect,
}

#[derive(Clone, Debug, PartialEq)]
pub enum Expect {
    Conforms,
    Fails(&'static str),
    /// the statement does not decide (semver-compatible but different version names)
    Unspecified,
    /// generated composition: the reference validator's verdict is the expectation
    Generated,
}

pub fn cases() -> Vec<Case> {
    let t = |w: &str| format!("package t:doc targets t:wd/{w}@1.0.0;\n");
    let mut v = Vec::new();
    let mut add = |world: &'static str, variant: &'static str, body: &str, expect: Expect| {
        v.push(Case { world, variant, doc: format!("{}{}", t(world), body), expect });
    };
    use Expect::*;
    // w1: import f: func(); export g: func();
    add("w1", "conforming", "let c = new t:c1 { ... };\nexport c.g;\n", Conforms);
    add("w1", "conforming-fewer-imports", "let c = new t:c1-fewer-imports { ... };\nexport c.g;\n", Conforms);
    add("w1", "conforming-explicit-import", "import f: func();\nlet c = new t:c1 { f };\nexport c.g;\n", Conforms);
    add("w1", "conforming-more-exports", "let c = new t:c1-more-exports { ... };\nexport c.g;\nexport c.more;\n", Conforms);
    add("w1", "extra-implicit-import", "let c = new t:c1-more-imports { ... };\nexport c.g;\n", Fails("ImportNotInTarget"));
    add("w1", "extra-explicit-import", "import extra: func();\nlet c = new t:c1 { ... };\nexport c.g;\n", Fails("ImportNotInTarget"));
    add("w1", "missing-export", "let c = new t:c1 { ... };\n", Fails("MissingTargetExport"));
    add("w1", "export-under-other-name", "let c = new t:c1 { ... };\nexport c.g as gg;\n", Fails("MissingTargetExport"));
    add("w1", "import-retyped", "let c = new t:c1-import-retyped { ... };\nexport c.g;\n", Fails("TargetMismatch"));
    add("w1", "explicit-import-retyped", "import f: func(x: u32);\nlet c = new t:c1-import-retyped { f };\nexport c.g;\n", Fails("TargetMismatch"));
    add("w1", "export-retyped", "let c = new t:c1-export-retyped { ... };\nexport c.g;\n", Fails("TargetMismatch"));
    // w2: import ia; export ic;
    add("w2", "conforming", "let c = new t:c2 { ... };\nexport c.ic;\n", Conforms);
    add("w2", "conforming-no-imports", "let c = new t:c2-only-export { ... };\nexport c.ic;\n", Conforms);
    add("w2", "missing-export", "let c = new t:c2 { ... };\n", Fails("MissingTargetExport"));
    add("w2", "extra-interface-import", "let c = new t:c2 { ... };\nlet d = new t:c-ic-importer { ... };\nexport c.ic;\n", Fails("ImportNotInTarget"));
    add("w2", "extra-func-import", "import zz: func();\nlet c = new t:c2 { ... };\nexport c.ic;\n", Fails("ImportNotInTarget"));
    add("w2", "export-wrong-interface", "let c = new t:c-ia-exporter { ... };\nexport c.ia as \"t:wd/ic@1.0.0\";\n", Fails("TargetMismatch"));
    // w3: import ib (uses ia); export g
    add("w3", "conforming", "let c = new t:c3 { ... };\nexport c.g;\n", Conforms);
    add("w3", "conforming-plus-used-interface", "let c = new t:c3 { ... };\nlet d = new t:c2 { ... };\nexport c.g;\n", Conforms);
    add("w3", "missing-export", "let c = new t:c3 { ... };\n", Fails("MissingTargetExport"));
    add("w3", "extra-import", "let c = new t:c3 { ... };\nlet d = new t:c-ic-importer { ... };\nexport c.g;\n", Fails("ImportNotInTarget"));
    // w4: two imports, two exports
    add("w4", "conforming", "let c = new t:c4 { ... };\nexport c.g;\nexport c.ia;\n", Conforms);
    add("w4", "missing-second-export", "let c = new t:c4 { ... };\nexport c.g;\n", Fails("MissingTargetExport"));
    add("w4", "missing-first-export", "let c = new t:c4 { ... };\nexport c.ia;\n", Fails("MissingTargetExport"));
    add("w4", "extra-import", "import q: func();\nlet c = new t:c4 { ... };\nexport c.g;\nexport c.ia;\n", Fails("ImportNotInTarget"));
    // w5: no imports
    add("w5", "conforming", "let c = new t:c1-fewer-imports { ... };\nexport c.g;\n", Conforms);
    add("w5", "extra-import", "let c = new t:c1 { ... };\nexport c.g;\n", Fails("ImportNotInTarget"));
    // w6: typed functions
    add("w6", "conforming", "let c = new t:c6 { ... };\nexport c.g;\n", Conforms);
    add("w6", "import-retyped", "let c = new t:c1 { ... };\nexport c.g;\n", Fails("TargetMismatch"));
    // w7: two function imports and exports
    add("w7", "conforming", "let c = new t:c7 { ... };\nexport c.g;\nexport c.k;\n", Conforms);
    add("w7", "conforming-subset-of-imports", "let c = new t:c1 { ... };\nlet d = new t:c7 { ... };\nexport c.g;\nexport d.k;\n", Conforms);
    add("w7", "missing-export", "let c = new t:c7 { ... };\nexport c.g;\n", Fails("MissingTargetExport"));
    // pass-through worlds: the same interface imported and exported, the composition's import node
    // passed on as the export (one item checked in both directions against the world)
    let id_name = "\"t:wd/id@1.0.0\"";
    for (variant, members, expect) in [
        ("passthrough-full", "fd1: func(); fd2: func();", Conforms),
        ("passthrough-narrower", "fd1: func();", Fails("TargetMismatch")),
        ("passthrough-wider", "fd1: func(); fd2: func(); fd3: func();", Fails("TargetMismatch")),
        ("passthrough-retyped", "fd1: func(); fd2: func(x: u32);", Fails("TargetMismatch")),
    ] {
        add("w8", variant, &format!("import x as {id_name}: interface {{ {members} }};\nexport x as {id_name};\n"), expect.clone());
        add("w9", variant, &format!("import up: interface {{ {members} }};\nexport up as down;\n"), expect);
    }
    add("w8", "passthrough-by-path", "import x as \"t:wd/id@1.0.0\": t:wd/id@1.0.0;\nexport x as \"t:wd/id@1.0.0\";\n", Conforms);
    // other compatible version of the interfaces: components built against t:wd@1.1.0
    add("w2", "higher-compatible-version", "let c = new t:c2v11 { ... };\nexport c.ic;\n", Unspecified);
    add("w4", "higher-compatible-version-export", "let c = new t:c4v11 { ... };\nexport c.g;\nexport c.ia;\n", Unspecified);
    v
}


// ------------------------------------------------------------------ generated family
//
// Every ordered list of 1..k components of the library, all arguments left implicit, with the
// world's exports taken from the first (mode A) or last (mode C) instance offering them, or
// with additional exports (mode B), against every world. No hand-written expectation: the
// reference validator's verdict (output <= world) decides, and resolution and the stand-alone
// check must both agree with it.

fn export_names(lib: &Lib) -> BTreeMap<String, Vec<String>> {
    let mut out = BTreeMap::new();
    for ((n, _), b) in &lib.bytes {
        if n == "t:wd" {
            continue;
        }
        let mut types = Types::default();
        let p = Package::from_bytes(n, None, b.clone(), &mut types).unwrap_or_else(|e| mc_core::machinery_error(&format!("C11 library {n}: {e}")));
        out.insert(n.clone(), types[p.ty()].exports.keys().cloned().collect());
    }
    out
}

const WORLD_EXPORTS: [(&str, &[&str]); 7] = [
    ("w1", &["g"]),
    ("w2", &["t:wd/ic@1.0.0"]),
    ("w3", &["g"]),
    ("w4", &["g", "t:wd/ia@1.0.0"]),
    ("w5", &["g"]),
    ("w6", &["g"]),
    ("w7", &["g", "k"]),
];

fn export_stmt(inst: usize, name: &str) -> String {
    if name.contains(':') {
        format!("export c{inst}[\"{name}\"] as \"{name}\";\n")
    } else {
        format!("export c{inst}.{name};\n")
    }
}

pub fn generated(lib: &Lib, max_len: usize) -> Vec<Case> {
    let exports = export_names(lib);
    let names: Vec<&String> = exports.keys().collect();
    let mut lists: Vec<Vec<usize>> = Vec::new();
    let mut cur: Vec<Vec<usize>> = vec![vec![]];
    for _ in 0..max_len {
        let mut next = Vec::new();
        for l in &cur {
            for i in 0..names.len() {
                let mut m = l.clone();
                m.push(i);
                next.push(m);
            }
        }
        lists.extend(next.iter().cloned());
        cur = next;
    }
    let mut v = Vec::new();
    for (world, wex) in WORLD_EXPORTS {
        for l in &lists {
            let mut body = String::new();
            for (k, i) in l.iter().enumerate() {
                body.push_str(&format!("let c{k} = new {} {{ ... }};\n", names[*i]));
            }
            let provider = |name: &str, last: bool| -> Option<usize> {
                let mut it = l.iter().enumerate().filter(|(_, i)| exports[names[**i]].iter().any(|e| e == name)).map(|(k, _)| k);
                if last {
                    it.last()
                } else {
                    it.next()
                }
            };
            let mut a = String::new();
            let mut c = String::new();
            for name in wex {
                if let Some(k) = provider(name, false) {
                    a.push_str(&export_stmt(k, name));
                }
                if let Some(k) = provider(name, true) {
                    c.push_str(&export_stmt(k, name));
                }
            }
            let mut b = a.clone();
            for e in &exports[names[l[0]]] {
                if !wex.contains(&e.as_str()) {
                    b.push_str(&export_stmt(0, e));
                }
            }
            let mut modes = vec![("A", a.clone())];
            if b != a {
                modes.push(("B", b));
            }
            if c != a {
                modes.push(("C", c));
            }
            let version_case = l.iter().any(|i| names[*i].ends_with("v11"));
            for (m, ex) in modes {
                let variant: &'static str = Box::leak(format!("gen/{}/{m}", l.iter().map(|i| names[*i].trim_start_matches("t:")).collect::<Vec<_>>().join("+")).into_boxed_str());
                v.push(Case {
                    world,
                    variant,
                    doc: format!("package t:doc targets t:wd/{world}@1.0.0;\n{body}{ex}"),
                    expect: if version_case { Expect::Unspecified } else { Expect::Generated },
                });
            }
        }
    }
    v
}

fn class(e: &wac_parser::resolution::Error) -> &'static str {
    use wac_parser::resolution::Error as E;
    match e {
        E::ImportNotInTarget { .. } => "ImportNotInTarget",
        E::MissingTargetExport { .. } => "MissingTargetExport",
        E::TargetMismatch { .. } => "TargetMismatch",
        E::NotWorld { .. } => "NotWorld",
        _ => "other",
    }
}

pub struct Lib {
    pub bytes: BTreeMap<(String, Option<String>), Vec<u8>>,
    pub wd: Vec<u8>,
}

pub fn library() -> Lib {
    let mut bytes = BTreeMap::new();
    let wd10 = wd("1.0.0");
    let wd11 = wd("1.1.0");
    let wd_bin = wit_package_binary(&[("wd.wit", &wd10)]).expect("t:wd");
    bytes.insert(("t:wd".to_string(), Some("1.0.0".to_string())), wd_bin.clone());
    let imp = impls("1.0.0");
    for w in ["c1", "c1-more-imports", "c1-fewer-imports", "c1-import-retyped", "c1-export-retyped", "c1-more-exports", "c2", "c2-only-export", "c3", "c4", "c6", "c7", "c-ic-importer", "c-ia-exporter"] {
        let b = component_from_wit(&[("wd.wit", &wd10), ("impls.wit", &imp)], w).unwrap_or_else(|e| panic!("{w}: {e:?}"));
        bytes.insert((format!("t:{w}"), None), b);
    }
    let imp11 = impls("1.1.0");
    let b = component_from_wit(&[("wd.wit", &wd11), ("impls.wit", &imp11)], "c2").expect("c2v11");
    bytes.insert(("t:c2v11".to_string(), None), b);
    let b = component_from_wit(&[("wd.wit", &wd11), ("impls.wit", &imp11)], "c4").expect("c4v11");
    bytes.insert(("t:c4v11".to_string(), None), b);
    // built against a wider `ia` (one more function): as an importer it needs more than the
    // world offers, as an exporter it offers more than the world asks for
    let wide = wd_with("1.0.0", "fa2: func();");
    for (w, name) in [("c2", "c2wide"), ("c3", "c3wide"), ("c4", "c4wide"), ("c-ia-exporter", "c-ia-exporter-wide")] {
        let b = component_from_wit(&[("wd.wit", &wide), ("impls.wit", &imp)], w).unwrap_or_else(|e| panic!("{name}: {e:?}"));
        bytes.insert((format!("t:{name}"), None), b);
    }
    // ... and against an `ia` whose function is retyped (conflicts with the world's when merged)
    let retyped = wd("1.0.0").replace("fa: func(x: r);", "fa: func(x: r, y: u8);");
    let b = component_from_wit(&[("wd.wit", &retyped), ("impls.wit", &imp)], "c2").expect("c2retyped");
    bytes.insert(("t:c2retyped".to_string(), None), b);
    Lib { bytes, wd: wd_bin }
}

type Viol = (String, String);

pub fn check_case(lib: &Lib, c: &Case) -> (Vec<Viol>, String) {
    let mut v = Vec::new();
    // version cases share one cause (exact vs semver-aware name matching): one fingerprint family
    let fam = match c.expect {
        Expect::Unspecified => "other-compatible-version".to_string(),
        Expect::Generated => "generated".to_string(),
        _ => format!("{}/{}", c.world, c.variant),
    };
    let doc = match Document::parse(&c.doc) {
        Ok(d) => d,
        Err(e) => mc_core::machinery_error(&format!("C11 document does not parse: {e}\n{}", c.doc)),
    };
    let ver = semver::Version::parse("1.0.0").unwrap();
    let mut packages = IndexMap::new();
    for ((n, vv), b) in &lib.bytes {
        packages.insert(BorrowedPackageKey::from_name_and_version(n, vv.as_ref().map(|_| &ver)), b.clone());
    }
    // (a) resolution with the targets clause; (b) the same composition without it, for the
    // stand-alone check and the reference subtyping
    let with = match catch(|| doc.resolve(packages.clone()).map(|_| ()).map_err(|e| (class(&e), e.to_string()))) {
        Ok(r) => r,
        Err(p) => {
            v.push((format!("C11/panic/resolve/{}", panic_site(&p)), format!("{fam}: {p}\n{}", c.doc)));
            return (v, "panic".into());
        }
    };
    let plain_text = c.doc.replacen(&format!(" targets t:wd/{}@1.0.0", c.world), "", 1);
    let plain = Document::parse(&plain_text).expect("plain document parses");
    let bytes = match catch(|| {
        plain
            .resolve(packages.clone())
            .map_err(|e| e.to_string())
            .and_then(|r| r.encode(EncodeOptions { define_components: true, validate: true, processor: None }).map_err(|e| e.to_string()))
    }) {
        Ok(Ok(b)) => b,
        Ok(Err(e)) => {
            if c.expect == Expect::Generated || c.variant.starts_with("gen/") {
                // not a composition at all (conflicting imports, duplicate exports): no verdict
                return (v, "not-a-composition".into());
            }
            v.push((format!("C11/composition-does-not-encode/{fam}"), format!("{e}\n{plain_text}")));
            return (v, "error".into());
        }
        Err(p) => {
            v.push((format!("C11/panic/encode/{}", panic_site(&p)), format!("{fam}: {p}")));
            return (v, "panic".into());
        }
    };
    let verdict_resolution = with.is_ok();
    let got_class = match &with {
        Ok(()) => "Ok".to_string(),
        Err((cl, _)) => cl.to_string(),
    };
    // (ii) statement vs resolution
    match &c.expect {
        Expect::Conforms => {
            if let Err((cl, msg)) = &with {
                v.push((format!("C11/conforming-rejected/{fam}/{cl}"), format!("{msg}\n{}", c.doc)));
            }
        }
        Expect::Fails(want) => match &with {
            Ok(()) => v.push((format!("C11/non-conforming-accepted/{fam}/want-{want}"), format!("resolution accepted a composition that does not conform\n{}", c.doc))),
            Err((cl, msg)) => {
                if cl != want {
                    v.push((format!("C11/diagnostic/{fam}/want-{want}/got-{cl}"), format!("{msg}\n{}", c.doc)));
                }
            }
        },
        Expect::Unspecified | Expect::Generated => {}
    }
    // the cause of a disagreement on a generated composition is the pair of verdicts, not the case
    let fam = if c.expect == Expect::Generated { format!("generated/resolution-says-{got_class}") } else { fam };
    // (iii) stand-alone conformance check on the encoded output
    let standalone = catch(|| -> Result<bool, String> {
        let mut types = Types::default();
        let wit = Package::from_bytes("wit", None, lib.wd.clone(), &mut types).map_err(|e| e.to_string())?;
        let comp = Package::from_bytes("component", None, bytes.clone(), &mut types).map_err(|e| e.to_string())?;
        let top = &types[wit.ty()];
        let Some(ItemKind::Type(Type::World(wid))) = top.exports.get(c.world) else { return Err("world not found in the WIT package".into()) };
        let Some(ItemKind::Component(w)) = types[*wid].exports.values().next() else { return Err("world is not a component type".into()) };
        let w: WorldId = *w;
        Ok(validate_target(&types, w, comp.ty()).is_ok())
    });
    let verdict_standalone = match standalone {
        Ok(Ok(b)) => Some(b),
        Ok(Err(e)) => {
            v.push((format!("C11/standalone-error/{fam}"), e));
            None
        }
        Err(p) => {
            v.push((format!("C11/panic/standalone/{}", panic_site(&p)), format!("{fam}: {p}")));
            None
        }
    };
    // (iv) reference: output component type <= world component type, in one wrapper
    let mut wb = wasm_encoder::ComponentBuilder::default();
    wb.component_raw(None, &bytes);
    wb.component_raw(None, &lib.wd);
    let wrapper = wb.finish();
    let types = wasmparser::Validator::new_with_features(wasmparser::WasmFeatures::all())
        .validate_all(&wrapper)
        .unwrap_or_else(|e| mc_core::machinery_error(&format!("C11 wrapper invalid: {e}")));
    let tr = types.as_ref();
    let out_ty = ComponentEntityType::Component(tr.component_at(0));
    let wdc = tr.get(tr.component_at(1)).unwrap();
    let world_ty = match wdc.exports.get(c.world) {
        Some(ComponentEntityType::Type { referenced: ComponentAnyTypeId::Component(id), .. }) => match tr.get(*id).unwrap().exports.values().next() {
            Some(ComponentEntityType::Component(w)) => Some(ComponentEntityType::Component(*w)),
            _ => None,
        },
        _ => None,
    };
    let verdict_reference = world_ty.map(|w| ComponentEntityType::is_subtype_of(&out_ty, tr, &w, tr));
    {
        if let Some(s) = verdict_standalone {
            if s != verdict_resolution {
                v.push((
                    format!("C11/verdicts-differ/resolution-vs-standalone/{fam}"),
                    format!("resolution says {verdict_resolution} ({got_class}), stand-alone validate_target on the encoded output says {s}\n{}", c.doc),
                ));
            }
        }
        // for semver-compatible but different version names the statement does not say whether
        // the output conforms (the reference validator matches import names semver-aware and
        // export names exactly): only wac's two verdicts are compared there
        if let Some(r) = verdict_reference.filter(|_| c.expect != Expect::Unspecified) {
            if r != verdict_resolution {
                v.push((
                    format!("C11/verdicts-differ/resolution-vs-reference-subtyping/{fam}"),
                    format!("resolution says {verdict_resolution} ({got_class}), the reference validator says output <= world: {r}\n{}", c.doc),
                ));
            }
        }
    }
    (v, format!("{got_class}|standalone={verdict_standalone:?}|reference={verdict_reference:?}"))
}

pub fn run(args: &[String]) {
    let mut ctx = Ctx::new("C11", "exploration", args);
    let lib = library();
    let all = cases();
    if let Some(case) = ctx.replay_case().cloned() {
        let (w, var) = (case["world"].as_str().unwrap(), case["variant"].as_str().unwrap());
        let gen = generated(&lib, 4);
        let c = all.iter().chain(gen.iter()).find(|c| c.world == w && c.variant == var).unwrap_or_else(|| mc_core::machinery_error("unknown C11 case"));
        for (fp, what) in check_case(&lib, c).0 {
            ctx.violation(fp, what, case.clone());
        }
        ctx.finish(Map::new(), vec![]);
    }
    let table = all.len();
    let mut all = all;
    let max_len = ctx.tier().pick(3, 4);
    all.extend(generated(&lib, max_len));
    let outs: Vec<(Vec<Viol>, String)> = all.par_iter().map(|c| check_case(&lib, c)).collect();
    let mut samples = Samples::new(3);
    let mut outcomes: BTreeMap<String, u64> = BTreeMap::new();
    let mut conforming = 0u64;
    let mut unspecified = 0u64;
    let (mut not_composition, mut gen_conforming, mut gen_rejected) = (0u64, 0u64, 0u64);
    for (c, (v, outcome)) in all.iter().zip(outs) {
        *outcomes.entry(outcome.clone()).or_default() += 1;
        match c.expect {
            Expect::Conforms => conforming += 1,
            Expect::Unspecified => unspecified += 1,
            Expect::Generated => {
                if outcome == "not-a-composition" {
                    not_composition += 1
                } else if outcome.starts_with("Ok|") {
                    gen_conforming += 1
                } else {
                    gen_rejected += 1
                }
            }
            _ => {}
        }
        samples.offer(|| json!({"world": c.world, "variant": c.variant, "document": c.doc, "outcome": outcome}));
        for (fp, what) in v {
            ctx.violation(fp, what, json!({"world": c.world, "variant": c.variant, "document": c.doc}));
        }
    }
    let mut cov = Map::new();
    cov.insert("evaluations".into(), json!(all.len()));
    cov.insert("distinct_nontrivial".into(), json!(all.len() as u64 - unspecified - not_composition));
    cov.insert("hand_table_pairs".into(), json!(table));
    cov.insert("generated_max_instantiations".into(), json!(max_len));
    cov.insert("generated_accepted_by_all_three".into(), json!(gen_conforming));
    cov.insert("generated_rejected".into(), json!(gen_rejected));
    cov.insert("generated_not_a_composition".into(), json!(not_composition));
    cov.insert("samples".into(), json!(samples.items));
    cov.insert("exhaustive".into(), json!(true));
    cov.insert("worlds".into(), json!(7));
    cov.insert("conforming_compositions".into(), json!(conforming));
    cov.insert("perturbed_compositions".into(), json!(table as u64 - conforming));
    cov.insert("unspecified_cases".into(), json!(unspecified));
    cov.insert("outcomes".into(), json!(outcomes));
    cov.insert(
        "rule".into(),
        json!("7 worlds (function / interface / interface using another interface / versioned names; 0-2 imports, 1-2 exports) x {conforming compositions, one extra import (implicit, explicit, interface), one missing export, one type change in an import / export, fewer imports, more exports, other compatible version}; per pair: resolution verdict and diagnostic class vs the statement, stand-alone validate_target on the encoded output, and wasmparser component subtyping output <= world inside one wrapper; every pair is non-trivial except the unspecified version case. Generated family: 7 worlds x every ordered list of 1..k (quick 3, thorough 4) library components (21: the above plus components built against a wider / retyped `ia` and against t:wd@1.1.0), all arguments implicit, world exports taken from the first or the last instance offering them, or with every other export of the first instance added; no hand-written expectation: resolution, stand-alone validate_target and the reference validator's output <= world must agree"),
    );
    ctx.finish(
        cov,
        vec![
            "worlds and implementation components come from generated WIT through wit-component; all worlds are resource-free so the reference subtyping applies to every pair".into(),
            "for a semver-compatible but different interface version the statement does not say whether the composition conforms (no verdict on conformance); the three verdicts must still agree with each other".into(),
        ],
    );
}
