mod c04;
mod c05;
mod c11;
mod c16;
mod c17;
mod debug;

fn main() {
    let args: Vec<String> = std::env::args().skip(1).collect();
    let Some(prop) = args.first().cloned() else {
        mc_core::machinery_error("usage: mc-sem <Cxx> quick|thorough|--replay <file>");
    };
    mc_core::quiet_panics();
    let rest = &args[1..];
    match prop.as_str() {
        "C04" => c04::run(rest),
        "C05" => c05::run(rest),
        "C11" => c11::run(rest),
        "C16" => c16::run(rest),
        "C16-worker" => c16::worker(rest),
        "C17" => c17::run(rest),
        "debug" => debug::run(rest),
        _ => mc_core::machinery_error(&format!("mc-sem does not serve {prop}")),
    }
}
