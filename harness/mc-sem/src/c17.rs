//! C17 — package discovery finds every package resolution will ask for.
//!
//! Documents place a foreign package reference at every syntactic position (singly, in
//! ordered pairs, thorough: triples); oracle (i) discovered ⊇ references found by a generic
//! walk over the serialised AST, never the own package; (ii) resolving with exactly the
//! discovered packages equals resolving with the whole library.

use indexmap::IndexMap;
use mc_core::libs::wit_package_binary;
use mc_core::{catch, panic_site, sha256_hex, Ctx, Samples, Tier};
use mc_graph::lib_spec::{PkgSpec, Ty};
use rayon::prelude::*;
use serde_json::{json, Map, Value};
use std::collections::{BTreeMap, BTreeSet};
use wac_graph::types::BorrowedPackageKey;
use wac_graph::EncodeOptions;
use wac_parser::Document;

pub type Library = BTreeMap<(String, Option<String>), Vec<u8>>;

pub fn library() -> Library {
    let mut lib = Library::new();
    let wit = |name: &str, ver: Option<&str>| -> Vec<u8> {
        let header = match ver {
            Some(v) => format!("package {name}@{v};"),
            None => format!("package {name};"),
        };
        let text = format!("{header}\ninterface i {{ type t = u32; f: func(); }}\nworld w {{ import i; }}\n");
        wit_package_binary(&[("p.wit", &text)]).expect("library WIT")
    };
    for (n, vs) in [("f:p", vec![None, Some("1.0.0")]), ("f:q", vec![None, Some("2.1.0")])] {
        for v in vs {
            lib.insert((n.to_string(), v.map(|s| s.to_string())), wit(n, v));
        }
    }
    let f0 = Ty::func0();
    for (n, vs) in [("f:c", vec![None, Some("1.0.0")]), ("f:d", vec![None, Some("0.3.0")])] {
        for v in vs {
            let spec = PkgSpec::new(n, v, &[("k", f0.clone())], &[("run", f0.clone())]);
            lib.insert((n.to_string(), v.map(|s| s.to_string())), spec.to_bytes());
        }
    }
    let outer = PkgSpec::new("f:outer", None, &[("inner", f0.clone())], &[("out", f0.clone())]);
    lib.insert(("f:outer".into(), None), outer.to_bytes());
    // two imports, so that another argument form can precede the argument holding a nested `new`
    let outer2 = PkgSpec::new("f:outer2", None, &[("k", f0.clone()), ("inner", f0.clone())], &[("out", f0.clone())]);
    lib.insert(("f:outer2".into(), None), outer2.to_bytes());
    let kp = PkgSpec::new("f:kp", None, &[], &[("k", f0.clone())]);
    lib.insert(("f:kp".into(), None), kp.to_bytes());
    lib
}

#[derive(Clone, Copy, Debug)]
pub struct Position {
    pub name: &'static str,
    /// "wit" positions take a WIT package (interface i / world w), "comp" positions a component
    pub kind: &'static str,
    pub template: &'static str,
}

pub const POSITIONS: &[Position] = &[
    Position { name: "targets", kind: "wit", template: "@targets {P}/w{V}" },
    Position { name: "import-path", kind: "wit", template: "import x{n}: {P}/i{V};" },
    Position { name: "use-in-interface", kind: "wit", template: "interface a{n} { use {P}/i{V}.{t}; g: func(a: t); }" },
    Position { name: "use-in-world", kind: "wit", template: "world b{n} { use {P}/i{V}.{t}; import g: func(a: t); }" },
    Position { name: "use-in-inline-interface-import-stmt", kind: "wit", template: "import y{n}: interface { use {P}/i{V}.{t}; g: func(a: t); };" },
    Position { name: "use-in-inline-interface-world-import", kind: "wit", template: "world c{n} { import m: interface { use {P}/i{V}.{t}; g: func(a: t); }; }" },
    Position { name: "use-in-inline-interface-world-export", kind: "wit", template: "world d{n} { export m: interface { use {P}/i{V}.{t}; g: func(a: t); }; }" },
    Position { name: "world-import-path", kind: "wit", template: "world e{n} { import {P}/i{V}; }" },
    Position { name: "world-export-path", kind: "wit", template: "world f{n} { export {P}/i{V}; }" },
    Position { name: "include", kind: "wit", template: "world g{n} { include {P}/w{V}; }" },
    Position { name: "new-in-let", kind: "comp", template: "let l{n} = new {P}{V} { ... };" },
    Position { name: "new-in-named-argument", kind: "comp", template: "let o{n} = new f:outer { inner: new {P}{V} { ... }.run };" },
    Position { name: "new-in-string-named-argument", kind: "comp", template: "let u{n} = new f:outer { \"inner\": new {P}{V} { ... }[\"run\"] };" },
    Position { name: "new-in-parentheses", kind: "comp", template: "let p{n} = (new {P}{V} { ... });" },
    Position { name: "new-under-postfix", kind: "comp", template: "let q{n} = (new {P}{V} { ... }).run;" },
    Position { name: "new-in-export", kind: "comp", template: "export new {P}{V} { ... }.run as r{n};" },
    Position { name: "new-nested-twice", kind: "comp", template: "let s{n} = (new f:outer { inner: ((new {P}{V} { ... })).run });" },
    // a nested `new` in a named argument that FOLLOWS another argument form
    Position { name: "new-after-spread", kind: "comp", template: "let kp{n} = new f:kp { };\nlet v{n} = new f:outer2 { ...kp{n}, inner: new {P}{V} { ... }.run };" },
    Position { name: "new-after-named", kind: "comp", template: "let kq{n} = new f:kp { };\nlet w{n} = new f:outer2 { k: kq{n}.k, \"inner\": new {P}{V} { ... }.run };" },
    Position { name: "new-after-inferred", kind: "comp", template: "let k = new f:kp { }.k;\nlet z{n} = new f:outer2 { k, inner: new {P}{V} { ... }.run };" },
    Position { name: "new-before-spread-and-fill", kind: "comp", template: "let kr{n} = new f:kp { };\nlet y{n} = new f:outer2 { inner: new {P}{V} { ... }.run, ...kr{n}, ... };" },
];

#[derive(Clone, Debug)]
pub struct Slot {
    pub pos: usize,
    pub pkg: String,
    pub version: Option<String>,
}

pub fn render(own: &str, slots: &[Slot], prelude: &str) -> String {
    let mut directive = format!("package {own}");
    let mut body = String::new();
    for (n, s) in slots.iter().enumerate() {
        let p = &POSITIONS[s.pos];
        let v = s.version.as_ref().map(|v| format!("@{v}")).unwrap_or_default();
        let text = p.template.replace("{P}", &s.pkg).replace("{V}", &v).replace("{n}", &n.to_string()).replace("{t}", "{t}");
        if let Some(t) = text.strip_prefix("@targets ") {
            directive.push_str(&format!(" targets {t}"));
        } else {
            body.push_str(&text);
            body.push('\n');
        }
    }
    format!("{directive};\n{prelude}{body}")
}

/// Every (package name, version) object in the serialised AST except the directive's own.
pub fn references(ast: &Value) -> BTreeSet<(String, Option<String>)> {
    fn walk(v: &Value, out: &mut BTreeSet<(String, Option<String>)>) {
        match v {
            Value::Object(m) => {
                if let (Some(Value::String(_)), Some(Value::String(name)), Some(ver)) = (m.get("string"), m.get("name"), m.get("version")) {
                    if name.contains(':') {
                        out.insert((name.clone(), ver.as_str().map(|s| s.to_string())));
                    }
                }
                for x in m.values() {
                    walk(x, out);
                }
            }
            Value::Array(a) => {
                for x in a {
                    walk(x, out);
                }
            }
            _ => {}
        }
    }
    let mut out = BTreeSet::new();
    // skip directive.package (the document's own package)
    if let Some(t) = ast.get("directive").and_then(|d| d.get("targets")) {
        walk(t, &mut out);
    }
    if let Some(s) = ast.get("statements") {
        walk(s, &mut out);
    }
    out
}

type Viol = (String, String);

fn keys_for<'a>(lib: &'a Library, versions: &'a BTreeMap<(String, Option<String>), Option<semver::Version>>, only: Option<&BTreeSet<(String, Option<String>)>>) -> IndexMap<BorrowedPackageKey<'a>, Vec<u8>> {
    let mut m = IndexMap::new();
    for ((n, v), bytes) in lib {
        if let Some(only) = only {
            if !only.contains(&(n.clone(), v.clone())) {
                continue;
            }
        }
        let ver = versions[&(n.clone(), v.clone())].as_ref();
        m.insert(BorrowedPackageKey::from_name_and_version(n, ver), bytes.clone());
    }
    m
}

fn outcome(doc: &Document, packages: IndexMap<BorrowedPackageKey, Vec<u8>>) -> Result<String, String> {
    catch(|| match doc.resolve(packages) {
        Err(e) => format!("resolve-error: {e}"),
        Ok(r) => {
            let mut s = String::new();
            for define in [true, false] {
                match r.encode(EncodeOptions { define_components: define, validate: true, processor: None }) {
                    Ok(b) => s.push_str(&format!("ok:{} ", sha256_hex(&b))),
                    Err(e) => s.push_str(&format!("encode-error: {e} ")),
                }
            }
            s
        }
    })
}

pub struct CaseOut {
    pub viols: Vec<Viol>,
    pub referenced: usize,
    pub resolved_ok: bool,
}

pub fn check_doc(lib: &Library, versions: &BTreeMap<(String, Option<String>), Option<semver::Version>>, own: &str, text: &str, expect_self: bool, positions: &str) -> CaseOut {
    let mut out = CaseOut { viols: vec![], referenced: 0, resolved_ok: false };
    let doc = match Document::parse(text) {
        Ok(d) => d,
        Err(e) => mc_core::machinery_error(&format!("generated document does not parse: {e}\n{text}")),
    };
    let ast = serde_json::to_value(&doc).unwrap();
    let refs: BTreeSet<(String, Option<String>)> = references(&ast).into_iter().filter(|(n, _)| n != own).collect();
    out.referenced = refs.len();
    let discovered = match catch(|| wac_resolver::packages(&doc)) {
        Err(p) => {
            out.viols.push((format!("C17/panic/{}", panic_site(&p)), format!("packages() panicked: {p}\n{text}")));
            return out;
        }
        Ok(r) => r,
    };
    match discovered {
        Err(e) => {
            let is_self = matches!(e, wac_resolver::Error::CannotInstantiateSelf { .. });
            if !(expect_self && is_self) {
                out.viols.push((format!("C17/discovery-error/{positions}"), format!("packages() failed with {e}\n{text}")));
            }
        }
        Ok(keys) => {
            if expect_self {
                out.viols.push((format!("C17/self-instantiation-accepted/{positions}"), format!("a document instantiating its own package passed discovery\n{text}")));
                return out;
            }
            let found: BTreeSet<(String, Option<String>)> = keys.keys().map(|k| (k.name.to_string(), k.version.map(|v| v.to_string()))).collect();
            if found.iter().any(|(n, _)| n == own) {
                out.viols.push((format!("C17/own-package-reported/{positions}"), format!("discovery reports the document's own package\n{text}")));
            }
            let missing: Vec<_> = refs.difference(&found).collect();
            if !missing.is_empty() {
                out.viols.push((format!("C17/reference-not-discovered/{positions}"), format!("referenced but not discovered: {missing:?}\n{text}")));
            }
            // differential: exactly the discovered packages vs the whole library
            let a = outcome(&doc, keys_for(lib, versions, Some(&found)));
            let b = outcome(&doc, keys_for(lib, versions, None));
            match (&a, &b) {
                (Ok(x), Ok(y)) if x == y => {
                    out.resolved_ok = x.starts_with("ok:");
                }
                (Ok(x), Ok(y)) => out.viols.push((
                    format!("C17/resolution-differs-with-discovered-set/{positions}"),
                    format!("with exactly the discovered packages: {x}\nwith the whole library: {y}\n{text}"),
                )),
                (Err(p), _) | (_, Err(p)) => out.viols.push((format!("C17/resolve-panic/{}", panic_site(p)), format!("{p}\n{text}"))),
            }
        }
    }
    out
}

pub fn run(args: &[String]) {
    let mut ctx = Ctx::new("C17", "exploration", args);
    let lib = library();
    let versions: BTreeMap<(String, Option<String>), Option<semver::Version>> =
        lib.keys().map(|(n, v)| ((n.clone(), v.clone()), v.as_ref().map(|v| semver::Version::parse(v).unwrap()))).collect();
    if let Some(case) = ctx.replay_case().cloned() {
        let out = check_doc(&lib, &versions, case["own"].as_str().unwrap(), case["text"].as_str().unwrap(), case["expect_self"].as_bool().unwrap_or(false), case["positions"].as_str().unwrap_or(""));
        for (fp, what) in out.viols {
            ctx.violation(fp, what, case.clone());
        }
        ctx.finish(Map::new(), vec![]);
    }
    let tier = ctx.tier();
    let own = "t:doc";
    // (package, version) choices per position kind
    let wit_pkgs: Vec<(&str, Option<&str>)> = vec![("f:p", None), ("f:p", Some("1.0.0")), ("f:q", None), ("f:q", Some("2.1.0"))];
    let comp_pkgs: Vec<(&str, Option<&str>)> = vec![("f:c", None), ("f:c", Some("1.0.0")), ("f:d", None), ("f:d", Some("0.3.0"))];
    let choices = |pos: usize| -> &Vec<(&str, Option<&str>)> { if POSITIONS[pos].kind == "wit" { &wit_pkgs } else { &comp_pkgs } };
    let slot = |pos: usize, c: &(&str, Option<&str>)| Slot { pos, pkg: c.0.to_string(), version: c.1.map(|s| s.to_string()) };
    let mut cases: Vec<(String, String, bool)> = Vec::new(); // (positions label, text, expect_self)
    let np = POSITIONS.len();
    // singles: every position x every package choice
    for p in 0..np {
        for c in choices(p) {
            cases.push((POSITIONS[p].name.to_string(), render(own, &[slot(p, c)], ""), false));
        }
    }
    // ordered pairs of positions; distinct packages, and the same package at two versions
    for p in 0..np {
        for q in 0..np {
            if POSITIONS[p].name == "targets" && POSITIONS[q].name == "targets" {
                continue;
            }
            let (cp, cq) = (choices(p), choices(q));
            // every pair combination in both tiers (distinct packages, one package at two versions in both orders, the same reference twice)
            let combos: Vec<(usize, usize)> = vec![(0, 2), (1, 3), (0, 1), (1, 0), (0, 0)];
            for (a, b) in combos {
                cases.push((format!("{}+{}", POSITIONS[p].name, POSITIONS[q].name), render(own, &[slot(p, &cp[a]), slot(q, &cq[b])], ""), false));
            }
        }
    }
    if tier == Tier::Thorough {
        for p in 0..np {
            for q in 0..np {
                for r in 0..np {
                    if [p, q, r].iter().filter(|x| POSITIONS[**x].name == "targets").count() > 1 {
                        continue;
                    }
                    cases.push((
                        format!("{}+{}+{}", POSITIONS[p].name, POSITIONS[q].name, POSITIONS[r].name),
                        render(own, &[slot(p, &choices(p)[0]), slot(q, &choices(q)[2]), slot(r, &choices(r)[1])], ""),
                        false,
                    ));
                }
            }
        }
    }
    // own-package references at every WIT position (never reported), self-instantiation at every
    // component position (rejected); the own package with and without a version in its
    // directive, referred to without a version, with its own version and with another one
    // (resolution identifies the own package by name alone, so discovery must too)
    let prelude = "interface i { type t = u32; f: func(); }\nworld w { import i; }\n";
    for (own_decl, ov) in [("t:doc", "unversioned"), ("t:doc@1.0.0", "versioned")] {
        for (sv, svl) in [(None, "no-version"), (Some("1.0.0"), "version-1.0.0"), (Some("0.9.0"), "version-0.9.0")] {
            for p in 0..np {
                if POSITIONS[p].kind == "wit" {
                    let s = Slot { pos: p, pkg: own.to_string(), version: sv.map(|v: &str| v.to_string()) };
                    cases.push((format!("own[{ov},{svl}]:{}", POSITIONS[p].name), render(own_decl, &[s.clone()], prelude), false));
                    cases.push((format!("own[{ov},{svl}]:{}+import-path", POSITIONS[p].name), render(own_decl, &[s, slot(1, &wit_pkgs[0])], prelude), false));
                }
                // a `new` of the own name at another version: the statement does not say whether that
                // is "its own package" (wac says yes); only the plain cases carry a verdict
                if POSITIONS[p].kind == "comp" && sv.is_none() {
                    let s = Slot { pos: p, pkg: own.to_string(), version: None };
                    cases.push((format!("self[{ov}]:{}", POSITIONS[p].name), render(own_decl, &[s.clone()], ""), true));
                    cases.push((format!("self[{ov}]:new-in-let+{}", POSITIONS[p].name), render(own_decl, &[slot(10, &comp_pkgs[0]), s], ""), true));
                }
            }
        }
    }
    let outs: Vec<CaseOut> = cases.par_iter().map(|(label, text, es)| check_doc(&lib, &versions, own, text, *es, label)).collect();
    let mut samples = Samples::new(3);
    let mut resolved = 0u64;
    let mut with_refs = 0u64;
    let mut by_pos: BTreeMap<String, u64> = BTreeMap::new();
    for ((label, text, es), out) in cases.iter().zip(outs) {
        if out.resolved_ok {
            resolved += 1;
        }
        if out.referenced >= 2 {
            with_refs += 1;
            samples.offer(|| json!({"positions": label, "text": text}));
        }
        for part in label.split('+') {
            *by_pos.entry(part.to_string()).or_default() += 1;
        }
        for (fp, what) in out.viols {
            ctx.violation(fp, what, json!({"own": own, "text": text, "expect_self": es, "positions": label}));
        }
    }
    let mut cov = Map::new();
    cov.insert("evaluations".into(), json!(cases.len()));
    cov.insert("distinct_nontrivial".into(), json!(with_refs));
    cov.insert("samples".into(), json!(samples.items));
    cov.insert("exhaustive".into(), json!(true));
    cov.insert("syntactic_positions".into(), json!(POSITIONS.iter().map(|p| p.name).collect::<Vec<_>>()));
    cov.insert("documents_resolving_and_encoding_ok".into(), json!(resolved));
    cov.insert("documents_per_position".into(), json!(by_pos));
    cov.insert(
        "rule".into(),
        json!("every syntactic position that can hold a package reference x every library package (with and without version), singly and in all ordered pairs (thorough: triples, and the same package at two versions), plus own-package references and self-instantiation at every position; non-trivial = at least two distinct foreign references; discovered set vs a generic walk over the serialised AST, and resolve(discovered) vs resolve(whole library) incl. encoded bytes in both dependency modes"),
    );
    ctx.finish(
        cov,
        vec![
            "the reference set is computed from the parser's own serialised AST (independent of the visitor's traversal, not of the parser)".into(),
            "supersets are tested with one superset: the whole library".into(),
        ],
    );
}
