//! C16 — composition is reproducible: same inputs, same bytes.
//!
//! Inputs: every state of bounded E1 explorations (C06 / C03 / C02 universes), every `.wac`
//! file shipped in the repository's test directories (parse, print, resolve, encode,
//! rendered diagnostics), the C17 document family and hand-written multi-fault documents.
//! Executions of each input: K independent rebuilds in one process (every rebuild creates its
//! hash maps afresh), and S worker processes whose per-process hash seed is an explicit
//! input (E8: LD_PRELOAD getrandom shim + single-threaded worker), all compared by SHA-256.

use crate::c17;
use mc_core::{catch, sha256_hex, Ctx, Samples, Tier};
use mc_graph::e1::{bfs, rebuild, Universe};
use mc_graph::refgraph::Op;
use miette::{GraphicalReportHandler, GraphicalTheme, NamedSource, Report};
use serde_json::{json, Map, Value};
use std::collections::{BTreeMap, BTreeSet, HashMap};
use std::path::{Path, PathBuf};
use wac_graph::EncodeOptions;
use wac_parser::Document;

fn render(e: impl Into<Report>, path: &str, source: &str) -> String {
    let mut s = String::new();
    let e = e.into();
    let _ = GraphicalReportHandler::new()
        .with_cause_chain()
        .with_theme(GraphicalTheme::unicode_nocolor())
        .render_report(&mut s, e.with_source_code(NamedSource::new(path, source.to_string())).as_ref());
    s
}

fn universes(tier: Tier) -> Vec<(&'static str, Universe, Vec<Vec<Op>>, usize)> {
    let mut v = Vec::new();
    let mut u = mc_graph::c06::universe("C16", Tier::Quick);
    u.max_nodes = 4;
    v.push(("C06", u, mc_graph::c06::seeds(), tier.pick(2, 3)));
    let mut u = mc_graph::c03::universe("C16", Tier::Quick);
    u.max_nodes = 4;
    v.push(("C03", u, mc_graph::c03::seeds(), tier.pick(2, 3)));
    let u = mc_graph::c02::universe("C16", Tier::Quick);
    v.push(("C02", u, mc_graph::c02::seeds(), tier.pick(2, 3)));
    for (_, u, _, _) in v.iter_mut() {
        u.check_encode = false;
        u.collect_histories = true;
    }
    // definition-heavy histories: base types defined after their dependants, many same-rank nodes
    v
}

/// Extra C06-universe histories aimed at hash-ordered bookkeeping: several records that use a
/// base type are defined BEFORE the base type (the dependency edges are then added while
/// scanning the map of defined types).
fn definition_histories() -> (Universe, Vec<Vec<Op>>) {
    use wac_graph::types::{DefinedType, PrimitiveType, Record, Type, ValueType};
    let mut u = mc_graph::c06::universe("C16", Tier::Quick);
    let t = u.base.types_mut();
    let base = t.add_defined_type(DefinedType::Alias(ValueType::Primitive(PrimitiveType::U32)));
    let first = u.def_type_ids.len();
    u.def_type_ids.push(Type::Value(ValueType::Defined(base)));
    u.def_types.push(mc_graph::refgraph::DefTypeSpec { label: "B=u32", is_resource: false, refs_direct: vec![], refs_transitive: vec![] });
    for i in 0..4 {
        let t = u.base.types_mut();
        let r = t.add_defined_type(DefinedType::Record(Record { fields: [(format!("f{i}"), ValueType::Defined(base))].into_iter().collect() }));
        u.def_type_ids.push(Type::Value(ValueType::Defined(r)));
        u.def_types.push(mc_graph::refgraph::DefTypeSpec { label: "R=record{B}", is_resource: false, refs_direct: vec![first], refs_transitive: vec![first] });
    }
    u.max_nodes = 8;
    for n in ["b", "r0", "r1", "r2", "r3"] {
        u.names.valid_extern.insert(n.to_string());
    }
    let d = |name: &str, t: usize| Op::DefineType(name.to_string(), t);
    let mut hs = Vec::new();
    // all 4 records, then the base; and the base in each position
    for pos in 0..=4 {
        let mut h = Vec::new();
        for i in 0..4 {
            if i == pos {
                h.push(d("b", first));
            }
            h.push(d(&format!("r{i}"), first + 1 + i));
        }
        if pos == 4 {
            h.push(d("b", first));
        }
        hs.push(h);
    }
    // many independent same-rank nodes
    let mut h: Vec<Op> = vec![Op::Register(0), Op::Register(1)];
    for _ in 0..3 {
        h.push(Op::Instantiate(1));
    }
    for i in 0..3u32 {
        h.push(Op::Alias(i, "f".into()));
    }
    hs.push(h);
    // slot reuse: a package owning several nodes is unregistered (or its nodes are removed one by
    // one), then as many independent same-rank nodes are created; the identifiers they receive
    // and the order they are emitted in must not depend on how the freed slots were collected
    for n in ["a", "b", "c", "d", "e", "f"] {
        u.names.valid_extern.insert(n.to_string());
    }
    for insts in 2..=4u32 {
        for by_unregister in [true, false] {
            let mut h: Vec<Op> = vec![Op::Register(0)];
            for _ in 0..insts {
                h.push(Op::Instantiate(0));
            }
            h.push(Op::Alias(0, "g".into()));
            if by_unregister {
                h.push(Op::Unregister(0));
            } else {
                h.push(Op::Remove(insts)); // the alias
                for i in (0..insts).rev() {
                    h.push(Op::Remove(i));
                }
            }
            for n in ["a", "b", "c", "d", "e", "f"].iter().take(insts as usize + 2) {
                h.push(Op::Import(n.to_string(), 0));
            }
            hs.push(h);
        }
    }
    (u, hs)
}

fn hash_graph_input(u: &Universe, hist: &[Op], id: &str, k: usize, out: &mut Vec<(String, String)>) {
    for rep in 0..k {
        let st = match rebuild(u, hist) {
            Some(s) => s,
            None => {
                out.push((format!("{id}/rep{rep}"), "rebuild-failed".into()));
                continue;
            }
        };
        for define in [true, false] {
            let mode = if define { "embedded" } else { "imported" };
            let r = catch(|| st.real.encode(EncodeOptions { define_components: define, validate: false, processor: None }));
            let h = match r {
                Ok(Ok(b)) => format!("ok:{}", sha256_hex(&b)),
                Ok(Err(e)) => format!("err:{}", sha256_hex(format!("{e:?}").as_bytes())),
                Err(p) => format!("panic:{}", sha256_hex(p.as_bytes())),
            };
            out.push((format!("{id}/{mode}/rep{rep}"), h));
        }
        // the graph's own listing and a clone
        let listing: Vec<String> = st.real.imports().map(|(n, _, id)| format!("{n}:{}", id.is_some())).collect();
        out.push((format!("{id}/imports-listing/rep{rep}"), sha256_hex(listing.join(",").as_bytes())));
        let c = st.real.clone();
        let a = catch(|| st.real.encode(EncodeOptions::default()).map_err(|e| format!("{e:?}")));
        let b = catch(|| c.encode(EncodeOptions::default()).map_err(|e| format!("{e:?}")));
        out.push((format!("{id}/clone-equals-original/rep{rep}"), format!("{}", a == b)));
    }
}

fn wac_files() -> Vec<PathBuf> {
    let mut v = Vec::new();
    for dir in ["parser", "parser/fail", "resolution", "resolution/fail", "encoding", "encoding/fail"] {
        let d = Path::new("/repo/crates/wac-parser/tests").join(dir);
        if let Ok(rd) = d.read_dir() {
            for e in rd.flatten() {
                let p = e.path();
                if p.extension().and_then(|s| s.to_str()) == Some("wac") {
                    v.push(p);
                }
            }
        }
    }
    if let Ok(rd) = Path::new("/repo/examples").read_dir() {
        for e in rd.flatten() {
            let p = e.path();
            if p.extension().and_then(|s| s.to_str()) == Some("wac") {
                v.push(p);
            }
        }
    }
    v.sort();
    v
}

/// parse -> print -> discover -> resolve (file-system packages next to the test) -> encode
fn hash_document(path: &str, source: &str, deps: Option<&Path>, lib: Option<&c17::Library>, id: &str, k: usize, out: &mut Vec<(String, String)>) {
    for rep in 0..k {
        let r = catch(|| {
            let mut lines: Vec<(String, String)> = Vec::new();
            let doc = match Document::parse(source) {
                Ok(d) => d,
                Err(e) => {
                    lines.push(("parse".into(), format!("err:{}", sha256_hex(render(e, path, source).as_bytes()))));
                    return lines;
                }
            };
            let mut printed = String::new();
            let _ = wac_parser::DocumentPrinter::new(&mut printed, source, None).document(&doc);
            lines.push(("print".into(), sha256_hex(printed.as_bytes())));
            let keys = match wac_resolver::packages(&doc) {
                Ok(k) => k,
                Err(e) => {
                    lines.push(("discover".into(), format!("err:{}", sha256_hex(render(e, path, source).as_bytes()))));
                    return lines;
                }
            };
            let versions: BTreeMap<(String, Option<String>), Option<semver::Version>>;
            let packages = if let Some(lib) = lib {
                versions = lib.keys().map(|(n, v)| ((n.clone(), v.clone()), v.as_ref().map(|v| semver::Version::parse(v).unwrap()))).collect();
                let mut m = indexmap::IndexMap::new();
                for ((n, v), bytes) in lib {
                    m.insert(wac_graph::types::BorrowedPackageKey::from_name_and_version(n, versions[&(n.clone(), v.clone())].as_ref()), bytes.clone());
                }
                m
            } else {
                let resolver = wac_resolver::FileSystemPackageResolver::new(deps.unwrap(), HashMap::new(), true);
                match resolver.resolve(&keys) {
                    Ok(p) => p,
                    Err(e) => {
                        lines.push(("packages".into(), format!("err:{}", sha256_hex(render(e, path, source).as_bytes()))));
                        return lines;
                    }
                }
            };
            let res = match doc.resolve(packages) {
                Ok(r) => r,
                Err(e) => {
                    lines.push(("resolve".into(), format!("err:{}", sha256_hex(render(e, path, source).as_bytes()))));
                    return lines;
                }
            };
            for define in [true, false] {
                let mode = if define { "embedded" } else { "imported" };
                match res.encode(EncodeOptions { define_components: define, validate: false, processor: None }) {
                    Ok(b) => lines.push((format!("encode-{mode}"), format!("ok:{}", sha256_hex(&b)))),
                    Err(e) => lines.push((format!("encode-{mode}"), format!("err:{}", sha256_hex(render(e, path, source).as_bytes())))),
                }
            }
            lines
        });
        match r {
            Ok(lines) => {
                for (stage, h) in lines {
                    out.push((format!("{id}/{stage}/rep{rep}"), h));
                }
            }
            Err(p) => out.push((format!("{id}/panic/rep{rep}"), sha256_hex(p.as_bytes()))),
        }
    }
}

/// Documents with two or three simultaneous faults of the same class: which one is reported
/// must not depend on hash order.
fn multi_fault_documents() -> Vec<(&'static str, String)> {
    let w0 = "world w0 {\n  import a: func();\n  import b: func();\n  export c: func();\n}\n";
    vec![
        ("include-three-unmatched-names", format!("package t:doc;\n{w0}world w {{\n  include w0 with {{ p as q, m as n, x as y }};\n}}\n")),
        ("include-two-unmatched-one-matched", format!("package t:doc;\n{w0}world w {{\n  include w0 with {{ zz as q, a as a2, yy as n }};\n}}\n")),
        ("two-missing-arguments", "package t:doc;\nlet x = new f:two { };\n".to_string()),
        ("two-duplicate-exports", "package t:doc;\nlet x = new f:c { ... };\nexport x.run as r;\nexport x.run as r;\nexport x.run as s;\nexport x.run as s;\n".to_string()),
        ("two-undefined-names", "package t:doc;\nlet x = new f:two { k: nope, l: nada };\n".to_string()),
        ("record-two-duplicate-fields", "package t:doc;\nrecord r { a: u32, b: u32, a: u32, b: u32 }\n".to_string()),
        // merge conflicts: which instantiation / import the diagnostic blames must not depend on
        // hash order (several instantiations implicitly importing differently named versions of
        // one track, an explicit import that conflicts with all of them, conflicts on two tracks)
        (
            "merge-conflict-explicit-import-vs-three-implicit-versions",
            "package t:doc;\nimport x as \"a:b/i@0.2.5\": interface { f: func(x: u32); };\nlet a = new t:v020 { ... };\nlet b = new t:v021 { ... };\nlet c = new t:v0210 { ... };\n".to_string(),
        ),
        (
            "merge-conflict-among-three-implicit-versions",
            "package t:doc;\nlet a = new t:v020 { ... };\nlet b = new t:v021 { ... };\nlet c = new t:v022bad { ... };\nlet d = new t:v0210 { ... };\n".to_string(),
        ),
        (
            "merge-conflicts-on-two-tracks",
            "package t:doc;\nimport x as \"a:b/i@0.2.5\": interface { f: func(x: u32); };\nimport y as \"a:b/i@1.0.5\": interface { f: func(x: u32); };\nlet a = new t:v100 { ... };\nlet b = new t:v120 { ... };\nlet c = new t:v020 { ... };\nlet d = new t:v021 { ... };\n".to_string(),
        ),
        // several named nodes that the encoder realises as ONE item (imports of one interface): the
        // name section must not depend on which of them a hash map yields first
        (
            "three-imports-of-one-interface",
            "package t:doc;\ninterface types { type t = u32; f: func(); }\nimport a: types;\nimport b: types;\nimport c: types;\nlet x = a.f;\nexport x;\n".to_string(),
        ),
        (
            "two-imports-of-compatible-versions",
            "package t:doc;\nimport p as \"a:b/i@0.2.5\": interface { f: func(); };\nimport q as \"a:b/i@0.2.6\": interface { f: func(); };\nlet a = new t:v020 { ... };\n".to_string(),
        ),
        ("implicit-imports-many", "package t:doc;\nlet x = new f:two { ... };\nlet y = new f:c { ... };\nlet z = new f:d { ... };\nexport x.run as r1;\nexport y.run as r2;\nexport z.run as r3;\n".to_string()),
    ]
}

pub fn worker(args: &[String]) {
    let tier = if args.first().map(|s| s.as_str()) == Some("thorough") { Tier::Thorough } else { Tier::Quick };
    let filter = args.get(1).cloned();
    let k = 2;
    let mut out: Vec<(String, String)> = Vec::new();
    // shim probe: iteration order of a small map
    let probe: HashMap<u32, u32> = (0..8).map(|i| (i, i)).collect();
    out.push(("probe".into(), probe.keys().map(|k| k.to_string()).collect::<Vec<_>>().join(",")));
    let want = |id: &str| filter.as_ref().map_or(true, |f| id.starts_with(f.as_str()));
    for (name, u, seeds, depth) in universes(tier) {
        if !want(&format!("graph/{name}")) {
            continue;
        }
        let (stats, _) = bfs(&u, &seeds, depth, None, 5_000_000, None);
        for (i, h) in stats.histories.iter().enumerate() {
            let id = format!("graph/{name}/{i}");
            if want(&id) {
                hash_graph_input(&u, h, &id, k, &mut out);
            }
        }
    }
    if want("graph/defs") {
        let (u, hs) = definition_histories();
        for (i, h) in hs.iter().enumerate() {
            hash_graph_input(&u, h, &format!("graph/defs/{i}"), k, &mut out);
        }
    }
    for p in wac_files() {
        let rel = p.strip_prefix("/repo/crates/wac-parser/tests").or_else(|_| p.strip_prefix("/repo")).unwrap().to_string_lossy().to_string();
        let id = format!("file/{rel}");
        if !want(&id) {
            continue;
        }
        let source = std::fs::read_to_string(&p).unwrap().replace("\r\n", "\n");
        let deps = p.parent().unwrap().join(p.file_stem().unwrap());
        hash_document(&rel, &source, Some(&deps), None, &id, k, &mut out);
    }
    // C17 family + multi-fault documents over the C17 library (+ a two-import component)
    let mut lib = c17::library();
    {
        use mc_graph::lib_spec::{PkgSpec, Ty};
        let f0 = Ty::func0();
        let two = PkgSpec::new("f:two", None, &[("k", f0.clone()), ("l", f0.clone()), ("m", Ty::inst(&[("x", f0.clone())]))], &[("run", f0.clone())]);
        lib.insert(("f:two".into(), None), two.to_bytes());
        // the versioned-import library (one interface required at many versions)
        for p in mc_graph::c03::library() {
            lib.insert((p.name.clone(), None), p.to_bytes());
        }
    }
    for (name, text) in multi_fault_documents() {
        let id = format!("doc/multi-fault/{name}");
        if want(&id) {
            hash_document(name, &text, None, Some(&lib), &id, k, &mut out);
        }
    }
    if want("doc/c17") {
        let mut n = 0;
        for p in 0..c17::POSITIONS.len() {
            for q in 0..c17::POSITIONS.len() {
                if c17::POSITIONS[p].name == "targets" && c17::POSITIONS[q].name == "targets" {
                    continue;
                }
                let pick = |pos: usize, alt: usize| -> c17::Slot {
                    let wit = c17::POSITIONS[pos].kind == "wit";
                    let (pkg, ver) = match (wit, alt) {
                        (true, 0) => ("f:p", None),
                        (true, _) => ("f:q", Some("2.1.0")),
                        (false, 0) => ("f:c", None),
                        (false, _) => ("f:d", Some("0.3.0")),
                    };
                    c17::Slot { pos, pkg: pkg.into(), version: ver.map(|s| s.to_string()) }
                };
                let text = c17::render("t:doc", &[pick(p, 0), pick(q, 1)], "");
                let id = format!("doc/c17/{n}");
                n += 1;
                if want(&id) {
                    hash_document("doc.wac", &text, None, Some(&lib), &id, 1, &mut out);
                }
            }
        }
    }
    let stdout = std::io::stdout();
    let mut w = std::io::BufWriter::new(stdout.lock());
    use std::io::Write;
    for (id, h) in out {
        writeln!(w, "{id}\t{h}").unwrap();
    }
}

fn run_worker(tier: Tier, seed: u64, filter: Option<&str>) -> Result<Vec<(String, String)>, String> {
    let exe = std::env::current_exe().map_err(|e| e.to_string())?;
    let shim = exe.parent().unwrap().parent().unwrap().join("getrandom_shim.so");
    if !shim.exists() {
        return Err(format!("hash-seed shim {} missing (run /verif/pre-C16.sh)", shim.display()));
    }
    let mut cmd = std::process::Command::new(&exe);
    cmd.arg("C16-worker").arg(tier.as_str());
    if let Some(f) = filter {
        cmd.arg(f);
    }
    cmd.env("LD_PRELOAD", &shim).env("VERIF_HASH_SEED", seed.to_string()).env("RAYON_NUM_THREADS", "1").env("RUST_BACKTRACE", "0");
    let out = cmd.output().map_err(|e| e.to_string())?;
    if !out.status.success() {
        return Err(format!("worker seed {seed} failed: {} {}", out.status, String::from_utf8_lossy(&out.stderr)));
    }
    Ok(String::from_utf8_lossy(&out.stdout)
        .lines()
        .filter_map(|l| l.split_once('\t').map(|(a, b)| (a.to_string(), b.to_string())))
        .collect())
}

fn family(id: &str) -> String {
    // graph/<universe>/<n>/<what>/repK  |  file/<path>/<stage>/repK  |  doc/<family>/<name>/<stage>/repK
    let parts: Vec<&str> = id.split('/').collect();
    match parts[0] {
        "graph" => format!("graph/{}/{}", parts[1], parts[3]),
        "file" => {
            let stage = parts[parts.len() - 2];
            format!("file/{}/{stage}", parts[1..parts.len() - 2].join("/"))
        }
        "doc" => {
            let stage = parts[parts.len() - 2];
            if parts[1] == "multi-fault" {
                format!("doc/multi-fault/{}/{stage}", parts[2])
            } else {
                format!("doc/{}/{stage}", parts[1])
            }
        }
        _ => id.to_string(),
    }
}

pub fn run(args: &[String]) {
    let mut ctx = Ctx::new("C16", "model_checking", args);
    let (tier, filter, seeds): (Tier, Option<String>, Vec<u64>) = match ctx.replay_case().cloned() {
        Some(case) => (
            if case["tier"] == "thorough" { Tier::Thorough } else { Tier::Quick },
            case["input"].as_str().map(|s| s.to_string()),
            case["seeds"].as_array().map(|a| a.iter().filter_map(|x| x.as_u64()).collect()).unwrap_or_else(|| vec![0, 1]),
        ),
        None => {
            let t = ctx.tier();
            (t, None, (0..t.pick(8, 32)).collect())
        }
    };
    use rayon::prelude::*;
    let results: Vec<(u64, Result<Vec<(String, String)>, String>)> = seeds.par_iter().map(|s| (*s, run_worker(tier, *s, filter.as_deref()))).collect();
    let mut by_seed: BTreeMap<u64, BTreeMap<String, String>> = BTreeMap::new();
    for (s, r) in results {
        match r {
            Err(e) => mc_core::machinery_error(&e),
            Ok(lines) => {
                by_seed.insert(s, lines.into_iter().collect());
            }
        }
    }
    // the shim must be effective: same seed => same probe order is implied by determinism of
    // a worker; different seeds must give at least two different probe orders
    let probes: BTreeSet<&String> = by_seed.values().filter_map(|m| m.get("probe")).collect();
    if seeds.len() >= 4 && probes.len() < 2 {
        mc_core::machinery_error("the hash-seed shim is not effective: every seed gives the same HashMap iteration order");
    }
    let first = by_seed.values().next().cloned().unwrap_or_default();
    let mut samples = Samples::new(3);
    let mut inputs: BTreeSet<String> = BTreeSet::new();
    let mut executions = 0u64;
    let mut distinct_hashes: BTreeSet<String> = BTreeSet::new();
    // group lines by input (strip /repK): all reps of all seeds must agree
    let mut groups: BTreeMap<String, BTreeMap<String, Vec<(u64, String)>>> = BTreeMap::new();
    for (seed, m) in &by_seed {
        for (id, h) in m {
            if id == "probe" {
                continue;
            }
            executions += 1;
            let base = id.rsplit_once("/rep").map(|(a, _)| a.to_string()).unwrap_or_else(|| id.clone());
            groups.entry(base).or_default().entry(h.clone()).or_default().push((*seed, id.clone()));
        }
        if m.len() != first.len() {
            ctx.violation("C16/worker-output-shape", format!("seed {seed} produced {} lines, seed {} produced {}", m.len(), seeds[0], first.len()), json!({"tier": tier.as_str(), "seeds": [seeds[0], seed]}));
        }
    }
    for (base, variants) in &groups {
        inputs.insert(base.clone());
        for h in variants.keys() {
            distinct_hashes.insert(h.clone());
        }
        if variants.contains_key("rebuild-failed") {
            // a recorded history that does not replay gives no hash to compare: never silently equal
            ctx.violation("C16/history-does-not-replay", format!("{base}: the recorded history does not replay on a fresh graph"), json!({"tier": tier.as_str(), "input": base.split('/').take(3).collect::<Vec<_>>().join("/"), "seeds": [0, 1]}));
            continue;
        }
        if base.ends_with("clone-equals-original") {
            if variants.keys().any(|h| h != "true") {
                ctx.violation("C16/clone-encodes-differently", format!("{base}: encoding a clone differs from encoding the original"), json!({"tier": tier.as_str(), "input": base, "seeds": [0, 1]}));
            }
            continue;
        }
        if variants.len() > 1 {
            let mut it = variants.values();
            let a = &it.next().unwrap()[0];
            let b = &it.next().unwrap()[0];
            ctx.violation(
                format!("C16/differs/{}", family(&format!("{base}/rep0"))),
                format!("{base}: {} distinct results over {} seeds x reps (e.g. seed {} `{}` vs seed {} `{}`)", variants.len(), seeds.len(), a.0, a.1, b.0, b.1),
                json!({"tier": tier.as_str(), "input": base.split('/').take(3).collect::<Vec<_>>().join("/"), "seeds": [a.0, b.0]}),
            );
        } else if base.starts_with("graph/defs") {
            samples.offer(|| json!({"input": base, "seeds": seeds.len(), "agreeing_hash": variants.keys().next()}));
        }
    }
    let mut cov = Map::new();
    cov.insert("states".into(), json!(inputs.len()));
    cov.insert("transitions".into(), json!(executions));
    cov.insert("traces_validated_against_impl".into(), json!(executions));
    if samples.items.is_empty() {
        samples.items.push(json!({"input": inputs.iter().next()}));
    }
    cov.insert("samples".into(), json!(samples.items));
    cov.insert("exhaustive".into(), json!(false));
    cov.insert("hash_seeds".into(), json!(seeds));
    cov.insert("distinct_probe_orders_seen".into(), json!(probes.len()));
    cov.insert("rebuilds_per_input_per_process".into(), json!(2));
    cov.insert("inputs".into(), json!(inputs.len()));
    cov.insert("executions_compared".into(), json!(executions));
    cov.insert("distinct_outcomes".into(), json!(distinct_hashes.len()));
    cov.insert("evaluations".into(), json!(executions));
    cov.insert("distinct_nontrivial".into(), json!(inputs.len()));
    cov.insert(
        "rule".into(),
        json!("inputs (states = distinct inputs x observed stage): every state of bounded E1 explorations over the C06/C03/C02 universes plus definition-order histories, every .wac file of the repository's test and example directories, the C17 two-position document family and multi-fault documents; executions (transitions): each input is rebuilt/processed K=2 times in each of S single-threaded worker processes whose hash seed is fixed by the getrandom shim; SHA-256 of encoded bytes (both dependency modes), printed text and rendered diagnostics must be identical across all executions. The input/history dimension is exhaustive at the stated bounds; the hash-seed dimension is a deterministic, replayable enumeration of S seeds (exhaustive=false)"),
    );
    let _: Value = json!(null);
    ctx.finish(
        cov,
        vec![
            "std HashMap keys come from getrandom (shimmed); wasmparser/hashbrown internal maps are assumed not to influence wac's output".into(),
            "hash dimension = seed enumeration, not order-coverage (H3 probes not built)".into(),
        ],
    );
}
