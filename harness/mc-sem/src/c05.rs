//! C05 — WIT declarations in WAC mean what WIT means (superset claim).
//!
//! Every package of the bounded WIT enumeration is encoded by wac (as a WAC document) and by
//! the reference WIT toolchain; both artefacts are nested in one wrapper component validated
//! once (E3) and compared: interfaces by mutual `is_subtype_of`, worlds by import/export name
//! sets and per-item canonical types.

use mc_core::e2::Canon;
use mc_core::libs::wit_package_binary;
use mc_core::witgen::{self, WitCase};
use mc_core::{catch, panic_site, Ctx, Samples, Tier};
use rayon::prelude::*;
use serde_json::{json, Map, Value};
use std::collections::{BTreeMap, BTreeSet};
use wac_graph::EncodeOptions;
use wac_parser::Document;
use wasmparser::component_types::{ComponentAnyTypeId, ComponentEntityType, ComponentType};
use wasmparser::types::TypesRef;

type Viol = (String, String);

fn tag(c: &WitCase) -> String {
    c.tags.join("+")
}

fn inner_component<'a>(tr: TypesRef<'a>, e: &ComponentEntityType) -> Option<&'a ComponentType> {
    match e {
        ComponentEntityType::Type { referenced: ComponentAnyTypeId::Component(id), .. } => tr.get(*id),
        ComponentEntityType::Component(id) => tr.get(*id),
        _ => None,
    }
}

/// Explicit world items written in the document (named items, interface paths, world-level
/// used types, included worlds' items with renames).
fn explicit_items(ast: &Value, pkg: &str, version: Option<&str>) -> BTreeMap<String, (BTreeSet<String>, BTreeSet<String>)> {
    let qualify = |id: &str| match version {
        Some(v) => format!("{pkg}/{id}@{v}"),
        None => format!("{pkg}/{id}"),
    };
    let mut worlds: BTreeMap<String, (BTreeSet<String>, BTreeSet<String>)> = BTreeMap::new();
    for st in ast["statements"].as_array().cloned().unwrap_or_default() {
        let Some(w) = st.get("Type").and_then(|t| t.get("world")) else { continue };
        let name = w["id"]["string"].as_str().unwrap().to_string();
        let mut imports = BTreeSet::new();
        let mut exports = BTreeSet::new();
        for item in w["items"].as_array().cloned().unwrap_or_default() {
            for (dir, set) in [("import", &mut imports), ("export", &mut exports)] {
                if let Some(p) = item.get(dir).map(|i| &i["path"]) {
                    if let Some(n) = p.get("named") {
                        set.insert(n["id"]["string"].as_str().unwrap().to_string());
                    } else if let Some(i) = p.get("ident") {
                        set.insert(qualify(i["string"].as_str().unwrap()));
                    } else if let Some(pp) = p.get("package") {
                        set.insert(pp["string"].as_str().unwrap().to_string());
                    }
                }
            }
            if let Some(u) = item.get("use") {
                for it in u["items"].as_array().cloned().unwrap_or_default() {
                    let n = it["asId"]["string"].as_str().or(it["id"]["string"].as_str()).unwrap().to_string();
                    imports.insert(n);
                }
            }
            if let Some(t) = item.get("type") {
                // world-level type declarations are exported types of the world
                if let Some(id) = find_decl_id(t) {
                    imports.insert(id);
                }
            }
            if let Some(inc) = item.get("include") {
                if let Some(w0) = inc["world"].get("ident").and_then(|i| i["string"].as_str()) {
                    let (i0, e0) = worlds.get(w0).cloned().unwrap_or_default();
                    let renames: BTreeMap<String, String> = inc["with"]
                        .as_array()
                        .cloned()
                        .unwrap_or_default()
                        .iter()
                        .map(|r| (r["from"]["string"].as_str().unwrap().to_string(), r["to"]["string"].as_str().unwrap().to_string()))
                        .collect();
                    for n in i0 {
                        imports.insert(renames.get(&n).cloned().unwrap_or(n));
                    }
                    for n in e0 {
                        exports.insert(renames.get(&n).cloned().unwrap_or(n));
                    }
                }
            }
        }
        worlds.insert(name, (imports, exports));
    }
    worlds
}

fn find_decl_id(v: &Value) -> Option<String> {
    match v {
        Value::Object(m) => {
            if let Some(id) = m.get("id").and_then(|i| i.get("string")).and_then(|s| s.as_str()) {
                return Some(id.to_string());
            }
            m.values().find_map(find_decl_id)
        }
        _ => None,
    }
}

/// interface -> interfaces it uses (transitively), by local identifier
fn interface_uses(ast: &Value) -> BTreeMap<String, BTreeSet<String>> {
    let mut direct: BTreeMap<String, BTreeSet<String>> = BTreeMap::new();
    for st in ast["statements"].as_array().cloned().unwrap_or_default() {
        let Some(i) = st.get("Type").and_then(|t| t.get("interface")) else { continue };
        let name = i["id"]["string"].as_str().unwrap().to_string();
        let mut set = BTreeSet::new();
        for item in i["items"].as_array().cloned().unwrap_or_default() {
            if let Some(u) = item.get("use") {
                if let Some(p) = u["path"].get("ident").and_then(|x| x["string"].as_str()) {
                    set.insert(p.to_string());
                }
            }
        }
        direct.insert(name, set);
    }
    let mut closed = direct.clone();
    loop {
        let mut changed = false;
        for (k, v) in closed.clone() {
            for u in v {
                for w in direct.get(&u).cloned().unwrap_or_default() {
                    changed |= closed.get_mut(&k).unwrap().insert(w);
                }
            }
        }
        if !changed {
            break;
        }
    }
    closed
}

/// worlds that `use` two types of one original name (one type, possibly reached through two interfaces) under two names
fn worlds_using_a_type_twice(ast: &Value) -> BTreeSet<String> {
    let mut out = BTreeSet::new();
    for st in ast["statements"].as_array().cloned().unwrap_or_default() {
        let Some(w) = st.get("Type").and_then(|t| t.get("world")) else { continue };
        let mut seen = BTreeSet::new();
        for item in w["items"].as_array().cloned().unwrap_or_default() {
            if let Some(u) = item.get("use") {
                let path = u["path"].get("ident").map(|i| i["string"].to_string()).unwrap_or_else(|| u["path"]["package"]["string"].to_string());
                for it in u["items"].as_array().cloned().unwrap_or_default() {
                    let _ = &path;
                    if !seen.insert(it["id"]["string"].as_str().unwrap_or("").to_string()) {
                        out.insert(w["id"]["string"].as_str().unwrap().to_string());
                    }
                }
            }
        }
    }
    out
}

/// worlds in which a `use` item follows the import (by path or through an included world) of an
/// interface that has `use`s of its own
fn worlds_using_after_a_using_import(ast: &Value, uses: &BTreeMap<String, BTreeSet<String>>) -> BTreeSet<String> {
    let mut out = BTreeSet::new();
    let mut importing_users: BTreeSet<String> = BTreeSet::new(); // worlds that import a using interface
    for st in ast["statements"].as_array().cloned().unwrap_or_default() {
        let Some(w) = st.get("Type").and_then(|t| t.get("world")) else { continue };
        let name = w["id"]["string"].as_str().unwrap().to_string();
        let mut seen_user = false;
        for item in w["items"].as_array().cloned().unwrap_or_default() {
            if let Some(i) = item.get("import").and_then(|i| i["path"].get("ident")).and_then(|i| i["string"].as_str()) {
                seen_user |= uses.get(i).map(|u| !u.is_empty()).unwrap_or(false);
            }
            if let Some(i) = item.get("include").and_then(|i| i["world"].get("ident")).and_then(|i| i["string"].as_str()) {
                seen_user |= importing_users.contains(i);
            }
            if item.get("use").is_some() && seen_user {
                out.insert(name.clone());
            }
        }
        if seen_user {
            importing_users.insert(name);
        }
    }
    out
}

pub struct CaseOut {
    pub viols: Vec<Viol>,
    pub interfaces: u64,
    pub worlds: u64,
    pub items: u64,
    pub unspecified: bool,
}

pub fn check_case(c: &WitCase) -> CaseOut {
    let mut out = CaseOut { viols: vec![], interfaces: 0, worlds: 0, items: 0, unspecified: false };
    let t = tag(c);
    let reference = wit_package_binary(&[("t.wit", &c.text)]);
    let wac = catch(|| -> Result<(Vec<u8>, Value), String> {
        let doc = Document::parse(&c.wac_text).map_err(|e| format!("parse: {e}"))?;
        let ast = serde_json::to_value(&doc).unwrap();
        let res = doc.resolve(Default::default()).map_err(|e| format!("resolve: {e}"))?;
        let bytes = res.encode(EncodeOptions { define_components: true, validate: false, processor: None }).map_err(|e| format!("encode: {e}"))?;
        Ok((bytes, ast))
    });
    let (a, ast) = match (wac, &reference) {
        (Err(p), _) => {
            out.viols.push((format!("C05/panic/{}", panic_site(&p)), format!("{}: wac panicked: {p}\n{}", c.id, c.wac_text)));
            return out;
        }
        (Ok(Err(_)), Err(_)) => {
            out.unspecified = true;
            return out;
        }
        (Ok(Err(e)), Ok(_)) => {
            let stage = e.split(':').next().unwrap_or("?").to_string();
            out.viols.push((format!("C05/wac-rejects-valid-wit/{stage}/{t}"), format!("{}: the reference toolchain accepts this package, wac fails with {e}\n{}", c.id, c.wac_text)));
            return out;
        }
        (Ok(Ok(_)), Err(e)) => {
            // only one of the two toolchains accepts: outside the shared subset
            let _ = e;
            out.unspecified = true;
            return out;
        }
        (Ok(Ok(x)), Ok(_)) => x,
    };
    let b = reference.unwrap();
    if let Err(e) = mc_core::libs::validate(&a) {
        out.viols.push((format!("C05/wac-encoding-invalid/{t}"), format!("{}: {e}\n{}", c.id, c.wac_text)));
        return out;
    }
    let mut wb = wasm_encoder::ComponentBuilder::default();
    wb.component_raw(None, &a);
    wb.component_raw(None, &b);
    let wrapper = wb.finish();
    let types = match wasmparser::Validator::new_with_features(wasmparser::WasmFeatures::all()).validate_all(&wrapper) {
        Ok(t) => t,
        Err(e) => mc_core::machinery_error(&format!("wrapper does not validate: {e}")),
    };
    let tr = types.as_ref();
    let ca = tr.get(tr.component_at(0)).unwrap();
    let cb = tr.get(tr.component_at(1)).unwrap();
    for i in &c.interfaces {
        out.interfaces += 1;
        match (ca.exports.get(i), cb.exports.get(i)) {
            (Some(ea), Some(eb)) => {
                let ab = ComponentEntityType::is_subtype_of(ea, tr, eb, tr);
                let ba = ComponentEntityType::is_subtype_of(eb, tr, ea, tr);
                if !(ab && ba) {
                    let mut p1 = Canon::new(tr);
                    let mut p2 = Canon::new(tr);
                    out.viols.push((
                        format!("C05/interface-not-equivalent/{t}"),
                        format!(
                            "{}: interface `{i}`: wac<=ref {ab}, ref<=wac {ba}\n wac: {}\n ref: {}\n{}",
                            c.id,
                            p1.entity(ea),
                            p2.entity(eb),
                            c.wac_text
                        ),
                    ));
                }
            }
            (None, Some(_)) => out.viols.push((format!("C05/interface-missing/{t}"), format!("{}: wac's encoding does not export interface `{i}`\n{}", c.id, c.wac_text))),
            (_, None) => {}
        }
    }
    let explicit = explicit_items(&ast, &c.package, c.version.as_deref());
    let uses = interface_uses(&ast);
    let twice = worlds_using_a_type_twice(&ast);
    let use_after = worlds_using_after_a_using_import(&ast, &uses);
    for w in &c.worlds {
        out.worlds += 1;
        let (Some(ea), Some(eb)) = (ca.exports.get(w), cb.exports.get(w)) else {
            if cb.exports.get(w).is_some() {
                out.viols.push((format!("C05/world-missing/{t}"), format!("{}: wac's encoding does not export world `{w}`\n{}", c.id, c.wac_text)));
            }
            continue;
        };
        let (Some(oa), Some(ob)) = (inner_component(tr, ea), inner_component(tr, eb)) else { continue };
        let (Some((_, ia)), Some((_, ib))) = (oa.exports.iter().next(), ob.exports.iter().next()) else { continue };
        let (Some(wa), Some(wbt)) = (inner_component(tr, ia), inner_component(tr, ib)) else {
            out.viols.push((format!("C05/world-shape/{t}"), format!("{}: world `{w}` is not encoded as a component type on both sides", c.id)));
            continue;
        };
        let (exp_i, exp_e) = explicit.get(w).cloned().unwrap_or_default();
        // one cause, several symptoms: a world that exports an interface together with the
        // interface it uses (wac re-imports the used interface instead of referring to the export)
        let local = |qualified: &String| qualified.split('/').nth(1).map(|x| x.split('@').next().unwrap().to_string());
        let exported_locals: BTreeSet<String> = exp_e.iter().filter_map(local).collect();
        let exports_dependency = wa.imports.keys().any(|n| !wbt.imports.contains_key(n) && wbt.exports.contains_key(n))
            || exported_locals.iter().any(|b| uses.get(b).map(|u| u.iter().any(|a| exported_locals.contains(a))).unwrap_or(false));
        let before = out.viols.len();
        for (dir, ma, mb, exp) in [("import", &wa.imports, &wbt.imports, &exp_i), ("export", &wa.exports, &wbt.exports, &exp_e)] {
            // explicit names: present with the same name on both sides
            for n in exp {
                if mb.contains_key(n) && !ma.contains_key(n) {
                    out.viols.push((format!("C05/world-{dir}-missing/{t}"), format!("{}: world `{w}`: {dir} `{n}` missing from wac's encoding (has {:?})\n{}", c.id, ma.keys().collect::<Vec<_>>(), c.wac_text)));
                }
            }
            for n in ma.keys() {
                if !mb.contains_key(n) {
                    out.viols.push((format!("C05/world-{dir}-extra/{t}"), format!("{}: world `{w}`: wac's encoding has {dir} `{n}` which the reference encoding lacks (has {:?})\n{}", c.id, mb.keys().collect::<Vec<_>>(), c.wac_text)));
                }
            }
        }
        // per-item canonical types; one printer per side per world, same traversal order
        let mut pa = Canon::new(tr);
        let mut pb = Canon::new(tr);
        let mut names: Vec<(&str, &String)> = wbt.imports.keys().map(|n| ("import", n)).chain(wbt.exports.keys().map(|n| ("export", n))).collect();
        names.sort();
        for (dir, n) in names {
            let (ma, mb) = if dir == "import" { (&wa.imports, &wbt.imports) } else { (&wa.exports, &wbt.exports) };
            let (Some(xa), Some(xb)) = (ma.get(n), mb.get(n)) else { continue };
            let sa = pa.entity(xa);
            let sb = pb.entity(xb);
            let is_explicit = if dir == "import" { exp_i.contains(n) } else { exp_e.contains(n) };
            if !is_explicit {
                continue; // dependency interfaces (reached through `use`) are encoded types-only by wac
            }
            out.items += 1;
            if sa != sb {
                out.viols.push((format!("C05/world-item-type/{dir}/{t}"), format!("{}: world `{w}` {dir} `{n}`:\n wac: {sa}\n ref: {sb}\n{}", c.id, c.wac_text)));
            }
        }
        if twice.contains(w) && out.viols.len() > before && out.viols[before..].iter().all(|(f, _)| f.starts_with("C05/world-import-missing/")) {
            // one cause: a world that uses one resource of one interface under two names imports it once
            let what = out.viols.drain(before..).map(|(f, w)| format!("{f}: {w}")).collect::<Vec<_>>().join(" || ");
            out.viols.push(("C05/world-uses-one-type-under-two-names/import-missing".into(), what));
        }
        if use_after.contains(w) && out.viols.len() > before && out.viols[before..].iter().all(|(f, _)| f.starts_with("C05/world-item-type/")) {
            // one cause: encoding the imported interface clears the world's table of used-type aliases,
            // so a resource used afterwards is imported as a fresh resource
            let what = out.viols.drain(before..).map(|(f, w)| format!("{f}: {w}")).collect::<Vec<_>>().join(" || ");
            out.viols.push(("C05/world-use-after-import-of-a-using-interface/resource-identity".into(), what));
        }
        if exports_dependency && out.viols.len() > before {
            let what = out.viols.drain(before..).map(|(f, w)| format!("{f}: {w}")).collect::<Vec<_>>().join(" || ");
            out.viols.push(("C05/world-exports-an-interface-together-with-the-interface-it-uses".into(), what));
        }
    }
    out
}

pub fn run(args: &[String]) {
    let mut ctx = Ctx::new("C05", "translation_validation", args);
    if let Some(case) = ctx.replay_case().cloned() {
        let c = WitCase {
            id: "replay".into(),
            text: case["wit"].as_str().unwrap().to_string(),
            wac_text: case["wac"].as_str().unwrap().to_string(),
            package: "t:g".into(),
            version: case["version"].as_str().map(|s| s.to_string()),
            interfaces: serde_json::from_value(case["interfaces"].clone()).unwrap(),
            worlds: serde_json::from_value(case["worlds"].clone()).unwrap(),
            tags: serde_json::from_value(case["tags"].clone()).unwrap(),
        };
        for (fp, what) in check_case(&c).viols {
            ctx.violation(fp, what, case.clone());
        }
        ctx.finish(Map::new(), vec![]);
    }
    let tier = ctx.tier();
    let mut cases = witgen::enumerate(tier);
    cases.extend(witgen::enumerate_worlds(tier));
    let outs: Vec<CaseOut> = cases.par_iter().map(check_case).collect();
    let mut samples = Samples::new(3);
    let (mut ni, mut nw, mut nitems, mut unspec, mut compared) = (0u64, 0u64, 0u64, 0u64, 0u64);
    let mut by_tag: BTreeMap<String, u64> = BTreeMap::new();
    for (c, out) in cases.iter().zip(outs) {
        if out.unspecified {
            unspec += 1;
        } else {
            compared += 1;
        }
        ni += out.interfaces;
        nw += out.worlds;
        nitems += out.items;
        for t in &c.tags {
            *by_tag.entry(t.clone()).or_default() += 1;
        }
        if c.tags.iter().any(|t| t == "use-diamond") {
            samples.offer(|| json!({"case": c.id, "wac": c.wac_text}));
        }
        for (fp, what) in out.viols {
            ctx.violation(fp, what, json!({"wit": c.text, "wac": c.wac_text, "version": c.version, "interfaces": c.interfaces, "worlds": c.worlds, "tags": c.tags}));
        }
    }
    let mut cov = Map::new();
    cov.insert("programs".into(), json!(cases.len()));
    cov.insert("disagreements_checked".into(), json!(compared));
    cov.insert("samples".into(), json!(samples.items));
    cov.insert("exhaustive".into(), json!(true));
    cov.insert("interfaces_compared".into(), json!(ni));
    cov.insert("worlds_compared".into(), json!(nw));
    cov.insert("explicit_world_items_compared".into(), json!(nitems));
    cov.insert("unspecified_cases".into(), json!(unspec));
    cov.insert("cases_by_tag".into(), json!(by_tag));
    cov.insert("evaluations".into(), json!(cases.len()));
    cov.insert("distinct_nontrivial".into(), json!(compared));
    cov.insert(
        "rule".into(),
        json!("programs = packages of the bounded WIT enumeration (mc-core witgen), plus the world-shape product family (every ordered sequence of 1..3 distinct world items from a 17-item alphabet: world-level use / renamed use / use through a second interface, world-level record and alias, interface paths in both directions, function items over the latest named type, inline interfaces, include with and without `with`; over record and full-resource bases, thorough: 7 bases), written once in the shared spelling (`include .. with` differs by one semicolon); each is encoded by wac (Document::parse -> resolve -> encode) and by wit-component; both artefacts are nested in one wrapper validated once; interfaces: mutual is_subtype_of; worlds: same explicit import/export names and equal canonical type per explicit item (one resource numbering per world per side)"),
    );
    let _ = Tier::Quick;
    ctx.finish(
        cov,
        vec![
            "reference toolchain = wit-parser/wit-component 0.247; reference relation = wasmparser is_subtype_of inside one validator".into(),
            "interfaces a world only depends on through `use` are encoded by wac as type-only instance imports; they are not 'explicit imports' in the statement's sense and are compared by presence only".into(),
            "packages only one of the two toolchains accepts are outside the shared subset (unspecified)".into(),
        ],
    );
}
