pub fn run(args: &[String]) {
    let src = std::fs::read_to_string(&args[0]).unwrap();
    let doc = wac_parser::Document::parse(&src).unwrap();
    if args.get(1).map(|s| s.as_str()) == Some("encode") {
        let res = doc.resolve(Default::default()).unwrap_or_else(|e| panic!("resolve: {e:?}"));
        let bytes = res.encode(wac_graph::EncodeOptions { define_components: true, validate: false, processor: None }).unwrap();
        println!("{}", mc_core::print_wat(&bytes));
        return;
    }
    println!("{}", serde_json::to_string_pretty(&doc).unwrap());
}
