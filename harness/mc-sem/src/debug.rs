pub fn run(args: &[String]) {
    let src = std::fs::read_to_string(&args[0]).unwrap();
    let doc = wac_parser::Document::parse(&src).unwrap();
    println!("{}", serde_json::to_string_pretty(&doc).unwrap());
}
