//! Small component libraries described as data; the WAT of each package is generated from
//! the description, so the description is the reference type of the package by construction
//! (it is additionally cross-checked against wac's decoded world at start-up).

use std::fmt::Write;

#[derive(Clone, Debug, PartialEq, Eq, PartialOrd, Ord, Hash, serde::Serialize)]
pub enum Ty {
    /// function over primitive parameter types ("u32" | "bool" | "s64" | "f32"), optional result
    Func(Vec<(String, String)>, Option<String>),
    /// instance with exports
    Inst(Vec<(String, Ty)>),
}

impl Ty {
    pub fn func0() -> Ty {
        Ty::Func(vec![], None)
    }
    pub fn func(params: &[(&str, &str)], result: Option<&str>) -> Ty {
        Ty::Func(
            params.iter().map(|(a, b)| (a.to_string(), b.to_string())).collect(),
            result.map(|s| s.to_string()),
        )
    }
    pub fn inst(exports: &[(&str, Ty)]) -> Ty {
        Ty::Inst(exports.iter().map(|(n, t)| (n.to_string(), t.clone())).collect())
    }
    pub fn is_inst(&self) -> bool {
        matches!(self, Ty::Inst(_))
    }
    pub fn export(&self, name: &str) -> Option<&Ty> {
        match self {
            Ty::Inst(e) => e.iter().find(|(n, _)| n == name).map(|(_, t)| t),
            _ => None,
        }
    }
    /// Component-model subtyping for resource-free functions and instances: functions must be
    /// equal; an instance may offer more exports, each common export covariantly.
    pub fn is_subtype_of(&self, other: &Ty) -> bool {
        match (self, other) {
            (Ty::Func(..), Ty::Func(..)) => self == other,
            (Ty::Inst(a), Ty::Inst(b)) => b.iter().all(|(n, tb)| {
                a.iter().find(|(m, _)| m == n).map_or(false, |(_, ta)| ta.is_subtype_of(tb))
            }),
            _ => false,
        }
    }
    pub fn kind_str(&self) -> &'static str {
        match self {
            Ty::Func(..) => "func",
            Ty::Inst(_) => "instance",
        }
    }
    fn wat_type(&self) -> String {
        match self {
            Ty::Func(params, result) => {
                let mut s = String::from("(func");
                for (n, t) in params {
                    write!(s, " (param \"{n}\" {t})").unwrap();
                }
                if let Some(r) = result {
                    write!(s, " (result {r})").unwrap();
                }
                s.push(')');
                s
            }
            Ty::Inst(exports) => {
                let mut s = String::from("(instance");
                for (n, t) in exports {
                    write!(s, " (export \"{n}\" {})", t.wat_type()).unwrap();
                }
                s.push(')');
                s
            }
        }
    }
}

fn core_ty(p: &str) -> &'static str {
    match p {
        "u32" | "bool" | "s32" | "u8" | "char" => "i32",
        "s64" | "u64" => "i64",
        "f32" => "f32",
        "f64" => "f64",
        other => panic!("unsupported primitive {other}"),
    }
}

#[derive(Clone, Debug)]
pub struct PkgSpec {
    pub name: String,
    pub version: Option<String>,
    pub imports: Vec<(String, Ty)>,
    pub exports: Vec<(String, Ty)>,
}

impl PkgSpec {
    pub fn new(name: &str, version: Option<&str>, imports: &[(&str, Ty)], exports: &[(&str, Ty)]) -> PkgSpec {
        PkgSpec {
            name: name.to_string(),
            version: version.map(|s| s.to_string()),
            imports: imports.iter().map(|(n, t)| (n.to_string(), t.clone())).collect(),
            exports: exports.iter().map(|(n, t)| (n.to_string(), t.clone())).collect(),
        }
    }

    pub fn import(&self, name: &str) -> Option<&Ty> {
        self.imports.iter().find(|(n, _)| n == name).map(|(_, t)| t)
    }

    pub fn instance_ty(&self) -> Ty {
        Ty::Inst(self.exports.clone())
    }

    /// Generates a self-contained component: every exported function is lifted from a
    /// core function of an embedded module, exported instances are built from those.
    pub fn to_wat(&self) -> String {
        let mut core_funcs = String::new();
        let mut lifts = String::new();
        let mut defs = String::new();
        let mut n = 0usize;
        let mut inst_n = 0usize;

        fn build(
            ty: &Ty,
            n: &mut usize,
            inst_n: &mut usize,
            core_funcs: &mut String,
            lifts: &mut String,
            defs: &mut String,
        ) -> String {
            match ty {
                Ty::Func(params, result) => {
                    let id = *n;
                    *n += 1;
                    let mut sig = String::new();
                    for (_, t) in params {
                        write!(sig, " (param {})", core_ty(t)).unwrap();
                    }
                    let body = match result {
                        Some(r) => {
                            write!(sig, " (result {})", core_ty(r)).unwrap();
                            format!(" {}.const 0", core_ty(r))
                        }
                        None => String::new(),
                    };
                    writeln!(core_funcs, "    (func (export \"f{id}\"){sig}{body})").unwrap();
                    let mut fty = String::new();
                    for (pn, t) in params {
                        write!(fty, " (param \"{pn}\" {t})").unwrap();
                    }
                    if let Some(r) = result {
                        write!(fty, " (result {r})").unwrap();
                    }
                    writeln!(lifts, "  (func $f{id}{fty} (canon lift (core func $ci \"f{id}\")))").unwrap();
                    format!("(func $f{id})")
                }
                Ty::Inst(exports) => {
                    let mut items = Vec::new();
                    for (en, et) in exports {
                        let r = build(et, n, inst_n, core_funcs, lifts, defs);
                        items.push(format!("(export \"{en}\" {r})"));
                    }
                    let id = *inst_n;
                    *inst_n += 1;
                    writeln!(defs, "  (instance $i{id} {})", items.join(" ")).unwrap();
                    format!("(instance $i{id})")
                }
            }
        }

        let mut exports = String::new();
        for (name, ty) in &self.exports {
            let r = build(ty, &mut n, &mut inst_n, &mut core_funcs, &mut lifts, &mut defs);
            writeln!(exports, "  (export \"{name}\" {r})").unwrap();
        }
        let mut s = String::from("(component\n");
        for (name, ty) in &self.imports {
            writeln!(s, "  (import \"{name}\" {})", ty.wat_type()).unwrap();
        }
        writeln!(s, "  (core module $m\n{core_funcs}  )").unwrap();
        writeln!(s, "  (core instance $ci (instantiate $m))").unwrap();
        s.push_str(&lifts);
        s.push_str(&defs);
        s.push_str(&exports);
        s.push_str(")\n");
        s
    }

    pub fn to_bytes(&self) -> Vec<u8> {
        let wat = self.to_wat();
        let bytes = wat::parse_str(&wat).unwrap_or_else(|e| panic!("library WAT does not parse: {e}\n{wat}"));
        wasmparser::Validator::new_with_features(wasmparser::WasmFeatures::all())
            .validate_all(&bytes)
            .unwrap_or_else(|e| panic!("library component is invalid: {e}\n{wat}"));
        bytes
    }
}
