//! Small component libraries described as data; the WAT of each package is generated from
//! the description, so the description is the reference type of the package by construction
//! (it is additionally cross-checked against wac's decoded world at start-up).

use std::fmt::Write;

#[derive(Clone, Debug, PartialEq, Eq, PartialOrd, Ord, Hash, serde::Serialize)]
pub enum Ty {
    /// function over primitive parameter types ("u32" | "bool" | "s64" | "f32"), optional result
    Func(Vec<(String, String)>, Option<String>),
    /// instance with exports
    Inst(Vec<(String, Ty)>),
    /// an item whose type the model treats as a black box: (kind, canonical type text from
    /// the reference validator). Equal text => compatible; otherwise the model is silent.
    Opaque(String, String),
}

#[derive(Clone, Copy, Debug, PartialEq, Eq)]
pub enum Tri {
    Yes,
    No,
    Unknown,
}

impl Ty {
    pub fn func0() -> Ty {
        Ty::Func(vec![], None)
    }
    pub fn func(params: &[(&str, &str)], result: Option<&str>) -> Ty {
        Ty::Func(
            params.iter().map(|(a, b)| (a.to_string(), b.to_string())).collect(),
            result.map(|s| s.to_string()),
        )
    }
    pub fn inst(exports: &[(&str, Ty)]) -> Ty {
        Ty::Inst(exports.iter().map(|(n, t)| (n.to_string(), t.clone())).collect())
    }
    pub fn is_inst(&self) -> bool {
        matches!(self, Ty::Inst(_))
    }
    pub fn export(&self, name: &str) -> Option<&Ty> {
        match self {
            Ty::Inst(e) => e.iter().find(|(n, _)| n == name).map(|(_, t)| t),
            _ => None,
        }
    }
    /// Component-model subtyping for resource-free functions and instances: functions must be
    /// equal; an instance may offer more exports, each common export covariantly.
    pub fn is_subtype_of(&self, other: &Ty) -> bool {
        self.subtype(other) == Tri::Yes
    }
    pub fn has_opaque(&self) -> bool {
        match self {
            Ty::Opaque(..) => true,
            Ty::Func(..) => false,
            Ty::Inst(e) => e.iter().any(|(_, t)| t.has_opaque()),
        }
    }
    pub fn subtype(&self, other: &Ty) -> Tri {
        match (self, other) {
            (Ty::Func(..), Ty::Func(..)) => {
                if self == other {
                    Tri::Yes
                } else {
                    Tri::No
                }
            }
            (Ty::Inst(a), Ty::Inst(b)) => {
                let mut r = Tri::Yes;
                for (n, tb) in b {
                    match a.iter().find(|(m, _)| m == n) {
                        None => return Tri::No,
                        Some((_, ta)) => match ta.subtype(tb) {
                            Tri::No => return Tri::No,
                            Tri::Unknown => r = Tri::Unknown,
                            Tri::Yes => {}
                        },
                    }
                }
                r
            }
            (Ty::Opaque(ka, ca), Ty::Opaque(kb, cb)) => {
                if ka != kb {
                    Tri::No
                } else if ca == cb && !ca.starts_with('~') && !(ca.contains("resource res") || ca.contains("own<res") || ca.contains("borrow<res")) {
                    Tri::Yes
                } else {
                    Tri::Unknown
                }
            }
            (Ty::Opaque(k, _), other) | (other, Ty::Opaque(k, _)) => {
                if k == other.kind_str() {
                    Tri::Unknown
                } else {
                    Tri::No
                }
            }
            _ => Tri::No,
        }
    }
    pub fn kind_str(&self) -> &str {
        match self {
            Ty::Func(..) => "func",
            Ty::Inst(_) => "instance",
            Ty::Opaque(k, _) => k,
        }
    }
    fn wat_type(&self) -> String {
        match self {
            Ty::Func(params, result) => {
                let mut s = String::from("(func");
                for (n, t) in params {
                    write!(s, " (param \"{n}\" {t})").unwrap();
                }
                if let Some(r) = result {
                    write!(s, " (result {r})").unwrap();
                }
                s.push(')');
                s
            }
            Ty::Inst(exports) => {
                let mut s = String::from("(instance");
                for (n, t) in exports {
                    write!(s, " (export \"{n}\" {})", t.wat_type()).unwrap();
                }
                s.push(')');
                s
            }
            Ty::Opaque(..) => panic!("opaque types have no WAT form"),
        }
    }
}

fn core_ty(p: &str) -> &'static str {
    match p {
        "u32" | "bool" | "s32" | "u8" | "char" => "i32",
        "s64" | "u64" => "i64",
        "f32" => "f32",
        "f64" => "f64",
        other => panic!("unsupported primitive {other}"),
    }
}

#[derive(Clone, Debug)]
pub struct PkgSpec {
    pub name: String,
    pub version: Option<String>,
    pub imports: Vec<(String, Ty)>,
    pub exports: Vec<(String, Ty)>,
    /// component bytes when the package was not generated from the description
    pub bytes: Option<Vec<u8>>,
    /// for packages described through the reference validator: members of every instance
    /// import (name -> canonical type) and the imports each import's types depend on
    pub import_members: std::collections::BTreeMap<String, std::collections::BTreeMap<String, String>>,
    pub import_deps: std::collections::BTreeMap<String, std::collections::BTreeSet<String>>,
    /// import -> member -> (import, member) of the type it refers to
    pub import_uses: std::collections::BTreeMap<String, std::collections::BTreeMap<String, (String, String)>>,
}

impl PkgSpec {
    /// Describes an existing component through the reference validator's view of it.
    pub fn from_component(name: &str, version: Option<&str>, bytes: Vec<u8>) -> PkgSpec {
        use mc_core::e2::{canon_entity, Canon};
        use wasmparser::component_types::ComponentEntityType;
        let types = wasmparser::Validator::new_with_features(wasmparser::WasmFeatures::all())
            .validate_all(&bytes)
            .unwrap_or_else(|e| panic!("library component {name} is invalid: {e}"));
        let tr = types.as_ref();
        fn conv(tr: wasmparser::types::TypesRef<'_>, e: &ComponentEntityType) -> Ty {
            match e {
                ComponentEntityType::Instance(i) => {
                    let t = tr.get(*i).unwrap();
                    if t.exports.values().any(|e| matches!(e, ComponentEntityType::Type { .. })) {
                        // instances exporting types: nested items keep their names, the type
                        // identity is only known as text
                        let canon = canon_entity(tr, e);
                        let _ = Canon::new(tr);
                        Ty::Inst(
                            t.exports
                                .iter()
                                .map(|(n, x)| {
                                    (
                                        n.clone(),
                                        match x {
                                            ComponentEntityType::Instance(_) => conv(tr, x),
                                            _ => Ty::Opaque(kind_name(x).into(), format!("~{canon}#{n}")),
                                        },
                                    )
                                })
                                .collect(),
                        )
                    } else {
                        Ty::Inst(t.exports.iter().map(|(n, x)| (n.clone(), conv(tr, x))).collect())
                    }
                }
                other => Ty::Opaque(kind_name(other).into(), canon_entity(tr, other)),
            }
        }
        fn kind_name(e: &ComponentEntityType) -> &'static str {
            match e {
                ComponentEntityType::Module(_) => "module",
                ComponentEntityType::Func(_) => "func",
                ComponentEntityType::Value(_) => "value",
                ComponentEntityType::Type { .. } => "type",
                ComponentEntityType::Instance(_) => "instance",
                ComponentEntityType::Component(_) => "component",
            }
        }
        let mut imports = Vec::new();
        let mut exports = Vec::new();
        for payload in wasmparser::Parser::new(0).parse_all(&bytes) {
            match payload.unwrap() {
                wasmparser::Payload::ComponentImportSection(s) => {
                    for i in s {
                        let n = i.unwrap().name.0.to_string();
                        if let Some(e) = tr.component_entity_type_of_import(&n) {
                            imports.push((n, conv(tr, &e)));
                        }
                    }
                }
                wasmparser::Payload::ComponentExportSection(s) => {
                    for x in s {
                        let n = x.unwrap().name.0.to_string();
                        if let Some(e) = tr.component_entity_type_of_export(&n) {
                            if !exports.iter().any(|(m, _): &(String, Ty)| *m == n) {
                                exports.push((n, conv(tr, &e)));
                            }
                        }
                    }
                }
                _ => {}
            }
        }
        // parse_all descends into nested components: keep only top-level names
        let top_i: Vec<String> = top_level_names(&bytes, true);
        let top_e: Vec<String> = top_level_names(&bytes, false);
        imports.retain(|(n, _)| top_i.contains(n));
        exports.retain(|(n, _)| top_e.contains(n));
        imports.sort_by_key(|(n, _)| top_i.iter().position(|m| m == n));
        exports.sort_by_key(|(n, _)| top_e.iter().position(|m| m == n));
        imports.dedup_by(|a, b| a.0 == b.0);
        let names: Vec<String> = imports.iter().map(|(n, _)| n.clone()).collect();
        let (import_members, import_deps, import_uses) = mc_core::e2::import_structure(&bytes, &names).expect("validated above");
        PkgSpec { name: name.to_string(), version: version.map(|s| s.to_string()), imports, exports, bytes: Some(bytes), import_members, import_deps, import_uses }
    }

    pub fn new(name: &str, version: Option<&str>, imports: &[(&str, Ty)], exports: &[(&str, Ty)]) -> PkgSpec {
        PkgSpec {
            name: name.to_string(),
            version: version.map(|s| s.to_string()),
            imports: imports.iter().map(|(n, t)| (n.to_string(), t.clone())).collect(),
            exports: exports.iter().map(|(n, t)| (n.to_string(), t.clone())).collect(),
            bytes: None,
            import_members: Default::default(),
            import_deps: Default::default(),
            import_uses: Default::default(),
        }
    }

    pub fn import(&self, name: &str) -> Option<&Ty> {
        self.imports.iter().find(|(n, _)| n == name).map(|(_, t)| t)
    }

    pub fn instance_ty(&self) -> Ty {
        Ty::Inst(self.exports.clone())
    }

    /// Generates a self-contained component: every exported function is lifted from a
    /// core function of an embedded module, exported instances are built from those.
    pub fn to_wat(&self) -> String {
        let mut core_funcs = String::new();
        let mut lifts = String::new();
        let mut defs = String::new();
        let mut n = 0usize;
        let mut inst_n = 0usize;

        fn build(
            ty: &Ty,
            n: &mut usize,
            inst_n: &mut usize,
            core_funcs: &mut String,
            lifts: &mut String,
            defs: &mut String,
        ) -> String {
            match ty {
                Ty::Func(params, result) => {
                    let id = *n;
                    *n += 1;
                    let mut sig = String::new();
                    for (_, t) in params {
                        write!(sig, " (param {})", core_ty(t)).unwrap();
                    }
                    let body = match result {
                        Some(r) => {
                            write!(sig, " (result {})", core_ty(r)).unwrap();
                            format!(" {}.const 0", core_ty(r))
                        }
                        None => String::new(),
                    };
                    writeln!(core_funcs, "    (func (export \"f{id}\"){sig}{body})").unwrap();
                    let mut fty = String::new();
                    for (pn, t) in params {
                        write!(fty, " (param \"{pn}\" {t})").unwrap();
                    }
                    if let Some(r) = result {
                        write!(fty, " (result {r})").unwrap();
                    }
                    writeln!(lifts, "  (func $f{id}{fty} (canon lift (core func $ci \"f{id}\")))").unwrap();
                    format!("(func $f{id})")
                }
                Ty::Inst(exports) => {
                    let mut items = Vec::new();
                    for (en, et) in exports {
                        let r = build(et, n, inst_n, core_funcs, lifts, defs);
                        items.push(format!("(export \"{en}\" {r})"));
                    }
                    let id = *inst_n;
                    *inst_n += 1;
                    writeln!(defs, "  (instance $i{id} {})", items.join(" ")).unwrap();
                    format!("(instance $i{id})")
                }
                Ty::Opaque(..) => panic!("opaque types cannot be generated"),
            }
        }

        let mut exports = String::new();
        for (name, ty) in &self.exports {
            let r = build(ty, &mut n, &mut inst_n, &mut core_funcs, &mut lifts, &mut defs);
            writeln!(exports, "  (export \"{name}\" {r})").unwrap();
        }
        let mut s = String::from("(component\n");
        for (name, ty) in &self.imports {
            writeln!(s, "  (import \"{name}\" {})", ty.wat_type()).unwrap();
        }
        writeln!(s, "  (core module $m\n{core_funcs}  )").unwrap();
        writeln!(s, "  (core instance $ci (instantiate $m))").unwrap();
        s.push_str(&lifts);
        s.push_str(&defs);
        s.push_str(&exports);
        s.push_str(")\n");
        s
    }

    pub fn to_bytes(&self) -> Vec<u8> {
        if let Some(b) = &self.bytes {
            return b.clone();
        }
        let wat = self.to_wat();
        let bytes = wat::parse_str(&wat).unwrap_or_else(|e| panic!("library WAT does not parse: {e}\n{wat}"));
        wasmparser::Validator::new_with_features(wasmparser::WasmFeatures::all())
            .validate_all(&bytes)
            .unwrap_or_else(|e| panic!("library component is invalid: {e}\n{wat}"));
        bytes
    }
}

/// Names of the top-level imports / exports of a component, in order.
pub fn top_level_names(bytes: &[u8], imports: bool) -> Vec<String> {
    let mut depth = 0usize;
    let mut out = Vec::new();
    for payload in wasmparser::Parser::new(0).parse_all(bytes) {
        match payload.unwrap() {
            wasmparser::Payload::Version { .. } => depth += 1,
            wasmparser::Payload::End(_) => depth -= 1,
            wasmparser::Payload::ComponentImportSection(s) if depth == 1 && imports => {
                for i in s {
                    out.push(i.unwrap().name.0.to_string());
                }
            }
            wasmparser::Payload::ComponentExportSection(s) if depth == 1 && !imports => {
                for x in s {
                    out.push(x.unwrap().name.0.to_string());
                }
            }
            _ => {}
        }
    }
    out
}
