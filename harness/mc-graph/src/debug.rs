use wac_graph::types::{ItemKind, Package, Types};

pub fn run(args: &[String]) {
    let which = args.first().map(|s| s.as_str()).unwrap_or("uses");
    if which == "uses" {
        for spec in crate::c01::lib_t() {
            let mut types = Types::default();
            let pkg = Package::from_bytes(&spec.name, None, spec.to_bytes(), &mut types).unwrap();
            println!("== {}", spec.name);
            let w = &types[pkg.ty()];
            for (dir, items) in [("import", &w.imports), ("export", &w.exports)] {
                for (n, k) in items {
                    if let ItemKind::Instance(id) = k {
                        let i = &types[*id];
                        println!("  {dir} {n}: iface id={:?} ptr={id}", i.id);
                        for (un, u) in &i.uses {
                            println!("      uses {un} <- {:?} ({}) as {:?}", types[u.interface].id, u.interface, u.name);
                        }
                    } else {
                        println!("  {dir} {n}: {}", k.desc(&types));
                    }
                }
            }
        }
    }
}
