use wac_graph::types::{ItemKind, Package, Types};

pub fn run(args: &[String]) {
    let which = args.first().map(|s| s.as_str()).unwrap_or("uses");
    if which == "bytes-case" {
        let tier = mc_core::Tier::Quick;
        let all = crate::c14_bytes::seeds(tier);
        let si: usize = args[1].parse().unwrap();
        let k: usize = args[2].parse().unwrap();
        let m = crate::c14_bytes::nth_case(&all[si], tier, k);
        let bytes = crate::c14_bytes::apply(&all[si].bytes, &m);
        std::panic::set_hook(Box::new(|i| eprintln!("PANIC {i}\n{}", std::backtrace::Backtrace::force_capture())));
        println!("{}", wasmprinter::print_bytes(&bytes).unwrap_or_else(|e| format!("<unprintable: {e}>")));
        let mut types = Types::default();
        let r = Package::from_bytes("t:pkg", None, bytes, &mut types);
        println!("{:?}", r.map(|_| ()));
        return;
    }
    if which == "uses" {
        for spec in crate::c01::lib_t() {
            let mut types = Types::default();
            let pkg = Package::from_bytes(&spec.name, None, spec.to_bytes(), &mut types).unwrap();
            println!("== {}", spec.name);
            let w = &types[pkg.ty()];
            for (dir, items) in [("import", &w.imports), ("export", &w.exports)] {
                for (n, k) in items {
                    if let ItemKind::Instance(id) = k {
                        let i = &types[*id];
                        println!("  {dir} {n}: iface id={:?} ptr={id}", i.id);
                        for (un, u) in &i.uses {
                            println!("      uses {un} <- {:?} ({}) as {:?}", types[u.interface].id, u.interface, u.name);
                        }
                    } else {
                        println!("  {dir} {n}: {}", k.desc(&types));
                    }
                }
            }
        }
    }
}
