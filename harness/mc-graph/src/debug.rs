use wac_graph::types::{ItemKind, Package, Types};

pub fn run(args: &[String]) {
    let which = args.first().map(|s| s.as_str()).unwrap_or("uses");
    if which == "deps" {
        return dep_probe();
    }
    if which == "bytes-case" {
        let tier = mc_core::Tier::Quick;
        let all = crate::c14_bytes::seeds(tier);
        let si: usize = args[1].parse().unwrap();
        let k: usize = args[2].parse().unwrap();
        let m = crate::c14_bytes::nth_case(&all[si], tier, k);
        let bytes = crate::c14_bytes::apply(&all[si].bytes, &m);
        std::panic::set_hook(Box::new(|i| eprintln!("PANIC {i}\n{}", std::backtrace::Backtrace::force_capture())));
        println!("{}", wasmprinter::print_bytes(&bytes).unwrap_or_else(|e| format!("<unprintable: {e}>")));
        let mut types = Types::default();
        let r = Package::from_bytes("t:pkg", None, bytes, &mut types);
        println!("{:?}", r.map(|_| ()));
        return;
    }
    if which == "history" {
        // debug history <C02|C06|C03> <case.json>: replay, print the embedded encoding and its E2 reading
        let case: serde_json::Value = serde_json::from_str(&std::fs::read_to_string(&args[2]).unwrap()).unwrap();
        let ops: Vec<crate::refgraph::Op> = serde_json::from_value(case["case"]["ops"].clone()).unwrap();
        let u = match args[1].as_str() {
            "C02" => crate::c02::universe("C02", mc_core::Tier::Quick),
            "C03" => crate::c03::universe("C03", mc_core::Tier::Quick),
            "C03dep" => crate::c03::universe_dep("C03", mc_core::Tier::Quick),
            _ => crate::c06::universe("C06", mc_core::Tier::Quick),
        };
        let st = crate::e1::rebuild(&u, &ops).expect("history replays");
        for define in [true, false] {
            let b = st.real.encode(wac_graph::EncodeOptions { define_components: define, validate: false, processor: None }).unwrap();
            if !define {
                println!("{}", wasmprinter::print_bytes(&b).unwrap());
            }
            println!("imports(): {:?}", st.real.imports().map(|(n, _, _)| n.to_string()).collect::<Vec<_>>());
            let d = mc_core::e2::decode(&b).unwrap();
            println!("define={define}\n exports {:?}\n aliases {:?}\n names {:?}", d.exports, d.aliases, d.names);
        }
        return;
    }
    if which == "uses" {
        for spec in crate::c01::lib_t() {
            let mut types = Types::default();
            let pkg = Package::from_bytes(&spec.name, None, spec.to_bytes(), &mut types).unwrap();
            println!("== {}", spec.name);
            let w = &types[pkg.ty()];
            for (dir, items) in [("import", &w.imports), ("export", &w.exports)] {
                for (n, k) in items {
                    if let ItemKind::Instance(id) = k {
                        let i = &types[*id];
                        println!("  {dir} {n}: iface id={:?} ptr={id}", i.id);
                        for (un, u) in &i.uses {
                            println!("      uses {un} <- {:?} ({}) as {:?}", types[u.interface].id, u.interface, u.name);
                        }
                    } else {
                        println!("  {dir} {n}: {}", k.desc(&types));
                    }
                }
            }
        }
    }
}

pub fn dep_probe() {
    for spec in crate::c03::lib_dep() {
        println!("== {} {:?}", spec.name, spec.version);
        let names: Vec<String> = spec.imports.iter().map(|(n, _)| n.clone()).collect();
        let (m, d, _) = mc_core::e2::import_structure(&spec.to_bytes(), &names).unwrap();
        for n in &names {
            println!("  import {n}: members {:?} deps {:?}", m.get(n), d.get(n));
        }
        println!("  exports {:?}", spec.exports.iter().map(|(n, _)| n).collect::<Vec<_>>());
    }
}
