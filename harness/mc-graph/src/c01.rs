//! C01 — every encoded composition is a valid component; no late validation failures.
//! E1 over three libraries: LibT (WIT-derived type shapes), LibHand (hand-shaped WAT) and
//! the C06 library; every reached state is encoded under 4 option vectors.

use crate::c06::{classify_names, coverage};
use crate::e1::*;
use crate::lib_spec::{PkgSpec, Ty};
use crate::refgraph::*;
use crate::wiring::wiring_and_interface_check;
use mc_core::libs::{component_from_wit, wat};
use mc_core::{Ctx, Tier};
use serde_json::{json, Map, Value};

pub const LIBT_WIT: &str = r#"
package t:types@1.0.0;

interface base {
  record rec { a: u32, b: string }
  variant vr { x, y(u32), z(rec) }
  enum en { p, q }
  flags fl { r, w }
  type alias1 = rec;
  type alias2 = alias1;
  resource res {
    constructor(n: u32);
    get: func() -> u32;
    make: static func() -> res;
    cmp: func(other: borrow<res>) -> bool;
  }
  f-rec: func(r: rec) -> vr;
  f-list: func(l: list<u32>, o: option<rec>, t: tuple<u32, string>) -> result<en, string>;
  f-res0: func() -> result;
  f-res1: func() -> result<u32>;
  f-res2: func() -> result<_, fl>;
  f-alias: func(a: alias2) -> alias1;
  f-own: func(r: res) -> res;
}

interface user {
  use base.{rec, res as r2};
  g: func(r: rec, h: borrow<r2>) -> rec;
}

interface chain {
  use user.{rec};
  use base.{vr};
  h: func(r: rec) -> vr;
}

world producer { export base; export user; export chain; }
world consumer { import base; import user; import chain; export run: func(); }
world middle { import base; export user; }
world plain { import k: func(x: u32) -> u32; export k2: func(x: u32) -> u32; }
"#;

pub fn lib_t() -> Vec<PkgSpec> {
    let mk = |world: &str| component_from_wit(&[("t.wit", LIBT_WIT)], world).unwrap_or_else(|e| panic!("LibT {world}: {e:?}"));
    vec![
        PkgSpec::from_component("t:producer", Some("1.0.0"), mk("producer")),
        PkgSpec::from_component("t:consumer", None, mk("consumer")),
        PkgSpec::from_component("t:middle", None, mk("middle")),
        PkgSpec::from_component("t:plain", None, mk("plain")),
    ]
}

pub const HAND_PROVIDER: &str = r#"(component
      (core module $m (import "e" "mem" (memory 1)) (func (export "f")))
      (export "m" (core module $m))
      (component $c (import "x" (func)) (export "y" (func 0)))
      (export "c" (component $c))
      (core module $n (func (export "g")))
      (core instance $ni (instantiate $n))
      (func $g (canon lift (core func $ni "g")))
      (instance $inner (export "g" (func $g)))
      (instance $outer (export "inner" (instance $inner)) (export "g" (func $g)))
      (export "nest" (instance $outer))
      (type $t (record (field "a" u32)))
      (export $t2 "t" (type $t))
    )"#;

pub const HAND_CONSUMER: &str = r#"(component
      (import "m" (core module (import "e" "mem" (memory 1)) (export "f" (func))))
      (import "c" (component (import "x" (func)) (export "y" (func))))
      (import "nest" (instance (export "inner" (instance (export "g" (func)))) (export "g" (func))))
      (export "again" (instance 0))
    )"#;

pub const HAND_RESTYPE: &str = r#"(component
      (import "r" (type $r (sub resource)))
      (import "mk" (func (result (own $r))))
      (type $u u32)
      (import "t" (type $t (eq $u)))
      (export "mk2" (func 0))
    )"#;

pub const HAND_VALUE: &str = r#"(component
      (import "v" (value u32))
      (export "v2" (value 0))
    )"#;

pub fn hand_wats() -> Vec<(&'static str, &'static str)> {
    vec![("h:provider", HAND_PROVIDER), ("h:consumer", HAND_CONSUMER), ("h:restype", HAND_RESTYPE), ("h:value", HAND_VALUE)]
}

pub fn lib_hand() -> Vec<PkgSpec> {
    vec![
        PkgSpec::from_component("h:provider", None, wat(HAND_PROVIDER).unwrap()),
        PkgSpec::from_component("h:consumer", Some("0.2.0"), wat(HAND_CONSUMER).unwrap()),
        PkgSpec::from_component("h:restype", None, wat(HAND_RESTYPE).unwrap()),
        PkgSpec::from_component("h:value", None, wat(HAND_VALUE).unwrap()),
        PkgSpec::from_component("h:tyexp", None, wat(crate::c02::TY_EXPORTER).unwrap()),
    ]
}

#[allow(dead_code)]
fn lib_hand_old() -> Vec<PkgSpec> {
    let provider = r#"(component
      (core module $m (import "e" "mem" (memory 1)) (func (export "f")))
      (export "m" (core module $m))
      (component $c (import "x" (func)) (export "y" (func 0)))
      (export "c" (component $c))
      (core module $n (func (export "g")))
      (core instance $ni (instantiate $n))
      (func $g (canon lift (core func $ni "g")))
      (instance $inner (export "g" (func $g)))
      (instance $outer (export "inner" (instance $inner)) (export "g" (func $g)))
      (export "nest" (instance $outer))
      (type $t (record (field "a" u32)))
      (export $t2 "t" (type $t))
    )"#;
    let consumer = r#"(component
      (import "m" (core module (import "e" "mem" (memory 1)) (export "f" (func))))
      (import "c" (component (import "x" (func)) (export "y" (func))))
      (import "nest" (instance (export "inner" (instance (export "g" (func)))) (export "g" (func))))
      (export "again" (instance 0))
    )"#;
    let restype = r#"(component
      (import "r" (type $r (sub resource)))
      (import "mk" (func (result (own $r))))
      (type $u u32)
      (import "t" (type $t (eq $u)))
      (export "mk2" (func 0))
    )"#;
    let value = r#"(component
      (import "v" (value u32))
      (export "v2" (value 0))
    )"#;
    vec![
        PkgSpec::from_component("h:provider", None, wat(provider).unwrap()),
        PkgSpec::from_component("h:consumer", Some("0.2.0"), wat(consumer).unwrap()),
        PkgSpec::from_component("h:restype", None, wat(restype).unwrap()),
        PkgSpec::from_component("h:value", None, wat(value).unwrap()),
    ]
}

fn names_of(pkgs: &[PkgSpec]) -> (Vec<String>, Vec<String>) {
    // alias names: every export name at nesting <= 2; argument names: every import name
    let mut alias = Vec::new();
    fn walk(t: &Ty, out: &mut Vec<String>, depth: usize) {
        if let Ty::Inst(e) = t {
            for (n, x) in e {
                if !out.contains(n) {
                    out.push(n.clone());
                }
                if depth < 2 {
                    walk(x, out, depth + 1);
                }
            }
        }
    }
    let mut args = Vec::new();
    for p in pkgs {
        walk(&p.instance_ty(), &mut alias, 0);
        for (n, t) in &p.imports {
            if !args.contains(n) {
                args.push(n.clone());
            }
            walk(t, &mut alias, 1);
        }
    }
    alias.push("zz".into());
    args.push("zz".into());
    (alias, args)
}

pub fn universe_from(prop: &'static str, pkgs: Vec<PkgSpec>, import_from: &[(usize, &str)], alias_limit: Option<&[&str]>, tier: Tier) -> Universe {
    let mut u = Universe::build(prop, pkgs);
    for (p, n) in import_from {
        u.add_import_kind_from_import(*p, n);
    }
    let (mut alias, args) = names_of(&u.pkgs);
    if let Some(keep) = alias_limit {
        alias.retain(|a| keep.contains(&a.as_str()));
    }
    let s = |v: &[&str]| v.iter().map(|x| x.to_string()).collect::<Vec<_>>();
    u.alias_names = alias;
    u.arg_names = args;
    let mut import_names: Vec<String> = import_from.iter().map(|(_, n)| n.to_string()).collect();
    import_names.push("extra".into());
    import_names.dedup();
    u.import_names = import_names;
    u.export_names = s(&["e1", "e2"]);
    u.node_names = s(&["n1"]);
    u.define_names = vec![];
    let all: Vec<String> = u.alias_names.iter().chain(u.arg_names.iter()).chain(u.import_names.iter()).chain(u.export_names.iter()).cloned().collect();
    let refs: Vec<&str> = all.iter().map(|s| s.as_str()).collect();
    u.names = classify_names(&refs);
    // an import named like one interface but typed as another: isolated (see `isolated_cases`)
    for n in &u.import_names {
        for (k, id) in u.import_kind_iface_id.iter().enumerate() {
            if n.contains('/') && id.as_deref().map_or(false, |id| id != n) {
                u.isolated_imports.push((n.clone(), k));
            }
        }
    }
    u.max_nodes = tier.pick(4, 5);
    u.max_pkgs = 8;
    u.ops = ["Instantiate", "Alias", "Import", "SetArg", "UnsetArg", "Export", "Remove"].into_iter().collect();
    u
}

pub fn universes(tier: Tier) -> Vec<(&'static str, Universe, Vec<Vec<Op>>)> {
    let s = |x: &str| x.to_string();
    let mut out = Vec::new();
    // LibT
    {
        let u = universe_from(
            "C01",
            lib_t(),
            &[(1, "t:types/base@1.0.0"), (1, "t:types/user@1.0.0"), (3, "k")],
            Some(&["t:types/base@1.0.0", "t:types/user@1.0.0", "t:types/chain@1.0.0", "run", "k2", "f-rec", "rec", "res", "zz"]),
            tier,
        );
        let mut u = u;
        u.dependency_imports = ["t:types/base@1.0.0", "t:types/user@1.0.0", "t:types/chain@1.0.0"].iter().map(|s| s.to_string()).collect();
        let reg: Vec<Op> = (0..4).map(Op::Register).collect();
        let with = |ops: Vec<Op>| -> Vec<Op> { reg.iter().cloned().chain(ops).collect() };
        let seeds = vec![
            with(vec![]),
            with(vec![Op::Instantiate(0), Op::Instantiate(1)]),
            // producer feeds middle, middle and producer feed the consumer
            with(vec![
                Op::Instantiate(0),
                Op::Alias(0, s("t:types/base@1.0.0")),
                Op::Instantiate(2),
                Op::SetArg(2, s("t:types/base@1.0.0"), 1),
            ]),
            with(vec![Op::Instantiate(2), Op::Alias(0, s("t:types/user@1.0.0")), Op::Instantiate(1)]),
        ];
        out.push(("LibT", u, seeds));
    }
    // LibHand
    {
        let u = universe_from("C01", lib_hand(), &[(1, "m"), (1, "c"), (2, "mk"), (3, "v")], None, tier);
        let reg: Vec<Op> = (0..5).map(Op::Register).collect();
        let with = |ops: Vec<Op>| -> Vec<Op> { reg.iter().cloned().chain(ops).collect() };
        let seeds = vec![
            with(vec![]),
            with(vec![Op::Instantiate(0), Op::Instantiate(1)]),
            with(vec![Op::Instantiate(2)]),
            with(vec![Op::Instantiate(3)]),
            // exported types and a function over an exported resource
            with(vec![Op::Instantiate(4), Op::Alias(0, s("r")), Op::Alias(0, s("mk"))]),
        ];
        out.push(("LibHand", u, seeds));
    }
    // the C06 library with the constructive + removal alphabet and definitions
    {
        let mut u = crate::c06::universe("C01", tier);
        u.ops.remove("Register");
        u.ops.remove("Unregister");
        u.ops.remove("SetName");
        let seeds = vec![vec![Op::Register(0), Op::Register(1), Op::Register(2)]];
        u.max_pkgs = 3;
        u.max_nodes = tier.pick(4, 5);
        out.push(("LibFI", u, seeds));
    }
    out
}

/// Histories known to abort the process; excluded from in-process exploration.
pub fn isolated_cases() -> Vec<(&'static str, &'static str, Vec<Op>)> {
    let reg: Vec<Op> = (0..4).map(Op::Register).collect();
    vec![(
        "C01/LibT/encode/process-abort/import-named-as-one-interface-typed-as-another-that-uses-it",
        "LibT",
        reg.iter()
            .cloned()
            .chain([Op::Import("k".into(), 1), Op::Import("t:types/base@1.0.0".into(), 1)])
            .collect(),
    )]
}

pub fn run(args: &[String]) {
    let mut ctx = Ctx::new("C01", "model_checking", args);
    if let Some(case) = ctx.replay_case().cloned() {
        let tier = if case["tier"] == "thorough" { Tier::Thorough } else { Tier::Quick };
        let lib = case["library"].as_str().unwrap_or("LibT");
        if lib == "LibWit" {
            let bytes = component_from_wit(&[("t.wit", case["wit"].as_str().unwrap())], case["world"].as_str().unwrap()).unwrap();
            let mut u = Universe::build("C01", vec![PkgSpec::from_component("t:pkg", None, bytes)]);
            u.max_pkgs = 1;
            let st = rebuild(&u, &[Op::Register(0), Op::Instantiate(0)]).expect("single instantiation");
            for (fp, what) in check_encode(&u, &st, "single-instantiation", None).0 {
                ctx.violation(fp.replacen("C01/", "C01/LibWit/", 1), what, case.clone());
            }
            ctx.finish(Map::new(), vec![]);
        }
        let (_, mut u, _) = universes(tier).into_iter().find(|(n, _, _)| *n == lib).unwrap_or_else(|| mc_core::machinery_error("unknown library"));
        u.isolated_imports.clear();
        let ops: Vec<Op> = serde_json::from_value(case["ops"].clone()).unwrap_or_else(|e| mc_core::machinery_error(&format!("bad ops: {e}")));
        let (_, v) = replay_history(&u, &ops, Some(&wiring_and_interface_check));
        for (fp, what) in v {
            ctx.violation(fp, what, case.clone());
        }
        ctx.finish(Map::new(), vec![]);
    }
    let tier = ctx.tier();
    let depth = tier.pick(4, 5);
    let mut total = Stats::default();
    let mut per_lib: Vec<Value> = Vec::new();
    let mut cov_u = None;
    for (name, u, seeds) in universes(tier) {
        let t0 = std::time::Instant::now();
        // LibHand has the widest alphabet (every nested export name): one level shallower
        let depth = if name == "LibHand" { depth - 1 } else { depth };
        let (stats, found) = bfs(&u, &seeds, depth, Some(&wiring_and_interface_check), tier.pick(2_000_000, 30_000_000), None);
        eprintln!("C01 {name}: {} states, {} transitions, {:.1}s", stats.states, stats.transitions, t0.elapsed().as_secs_f64());
        for f in found {
            let mut case = f.case;
            case["tier"] = json!(tier.as_str());
            case["library"] = json!(name);
            ctx.violation(f.fingerprint.replacen("C01/", &format!("C01/{name}/"), 1), f.what, case);
        }
        per_lib.push(json!({"library": name, "states": stats.states, "transitions": stats.transitions, "encode_outcomes": stats.encode_classes,
            "depth_completed": stats.depth_completed, "cap_hit": stats.cap_hit, "packages": u.pkgs.iter().map(|p| p.name.clone()).collect::<Vec<_>>()}));
        total.states += stats.states;
        total.transitions += stats.transitions;
        total.replayed += stats.replayed;
        total.unspecified += stats.unspecified;
        total.cap_hit |= stats.cap_hit;
        total.depth_completed = stats.depth_completed;
        for (k, n) in stats.per_op {
            *total.per_op.entry(k).or_default() += n;
        }
        for (k, n) in stats.result_classes {
            *total.result_classes.entry(k).or_default() += n;
        }
        for (k, n) in stats.encode_classes {
            *total.encode_classes.entry(k).or_default() += n;
        }
        total.levels.extend(stats.levels);
        if total.samples.len() < 3 {
            total.samples.extend(stats.samples.into_iter().take(1));
        }
        cov_u = Some(u);
    }
    // LibWit: every world of the bounded WIT enumeration, instantiated once with every
    // import left implicit (a single-node composition per generated component)
    {
        use rayon::prelude::*;
        let mut cases = mc_core::witgen::enumerate(tier);
        cases.extend(mc_core::witgen::enumerate_worlds(tier));
        let jobs: Vec<(usize, String)> = cases.iter().enumerate().flat_map(|(i, c)| c.worlds.iter().map(move |w| (i, w.clone()))).collect();
        let outs: Vec<(usize, String, Vec<Viol>, Vec<&'static str>)> = jobs
            .par_iter()
            .filter_map(|(i, w)| {
                let bytes = component_from_wit(&[("t.wit", &cases[*i].text)], w).ok()?;
                let r = mc_core::catch(|| {
                    let mut u = Universe::build("C01", vec![PkgSpec::from_component("t:pkg", None, bytes)]);
                    u.max_pkgs = 1;
                    let st = rebuild(&u, &[Op::Register(0), Op::Instantiate(0)]).expect("single instantiation");
                    check_encode(&u, &st, "single-instantiation", None)
                });
                match r {
                    Ok((v, classes)) => Some((*i, w.clone(), v, classes)),
                    Err(p) => Some((*i, w.clone(), vec![(format!("C01/harness-or-decode-panic/{}", mc_core::panic_site(&p)), p)], vec![])),
                }
            })
            .collect();
        let mut n = 0u64;
        let mut classes_count: std::collections::BTreeMap<&'static str, u64> = Default::default();
        for (i, w, v, classes) in outs {
            n += 1;
            for c in classes {
                *classes_count.entry(c).or_default() += 1;
                *total.encode_classes.entry(c).or_default() += 1;
            }
            for (fp, what) in v {
                ctx.violation(
                    fp.replacen("C01/", "C01/LibWit/", 1),
                    format!("{} world {w}: {what}", cases[i].id),
                    json!({"library": "LibWit", "wit": cases[i].text, "world": w}),
                );
            }
        }
        total.states += n;
        total.transitions += n;
        per_lib.push(json!({"library": "LibWit", "states": n, "encode_outcomes": classes_count, "packages": "every world of mc-core witgen, incl. the world-shape product family"}));
    }
    // cases that abort the process are run in supervised subprocesses
    let mut isolated = 0;
    for (fp, lib, ops) in isolated_cases() {
        isolated += 1;
        let case = json!({"engine": "E1", "universe": "C01", "library": lib, "tier": tier.as_str(), "ops": ops});
        let dir = mc_core::verif_root().join("replays").join("tmp");
        mc_core::ensure_dir(&dir);
        let path = dir.join(format!("c01-isolated-{isolated}.json"));
        std::fs::write(&path, serde_json::to_string(&json!({"property": "C01", "case": case})).unwrap()).unwrap();
        // /proc/self/exe still names this binary when the file was replaced by a rebuild meanwhile
        let out = std::process::Command::new(std::env::current_exe().unwrap())
            .args(["C01", "--replay", path.to_str().unwrap()])
            .output()
            .or_else(|_| std::process::Command::new("/proc/self/exe").args(["C01", "--replay", path.to_str().unwrap()]).output())
            .unwrap_or_else(|e| mc_core::machinery_error(&format!("cannot spawn isolated replay: {e}")));
        let stderr = String::from_utf8_lossy(&out.stderr);
        match out.status.code() {
            Some(0) => {}
            Some(1) => {
                // the history no longer aborts but violates: report what the replay found under its own
                // fingerprints (known causes stay known, anything else is a new violation)
                let so = String::from_utf8_lossy(&out.stdout).to_string();
                let lines: Vec<&str> = so.lines().collect();
                let mut n = 0;
                for (i, l) in lines.iter().enumerate() {
                    if let Some(f) = l.trim_start().strip_prefix("fingerprint: ") {
                        let what = lines.get(i + 1).map(|w| w.trim_start().trim_start_matches("what: ")).unwrap_or("");
                        ctx.violation(f.to_string(), format!("history isolated because it used to abort the process; it now returns: {what}"), case.clone());
                        n += 1;
                    }
                }
                if n == 0 {
                    ctx.violation(format!("{fp}/no-abort-but-violates"), format!("isolated case violates without aborting: {so}"), case);
                }
            }
            Some(c) => mc_core::machinery_error(&format!("isolated replay exited with {c}: {stderr}")),
            None => ctx.violation(
                fp.to_string(),
                format!("the process was killed by a signal while encoding (stderr: {})", stderr.lines().last().unwrap_or("")),
                case,
            ),
        }
    }
    let mut cov = coverage(cov_u.as_ref().unwrap(), &total, depth, 9);
    cov.insert("isolated_subprocess_cases".into(), json!(isolated));
    cov.insert("per_library".into(), json!(per_lib));
    cov.insert(
        "rule".into(),
        json!("E1 BFS per library (LibT: WIT-derived records/variants/enums/flags/aliases/resources/use chains at versioned interface names; LibHand: core module, nested component, nested instance, type, resource and value imports/exports; LibFI: functions/instances/type definitions); every new state is encoded under {embedded, imported} x {validate, not}: Ok bytes must pass the reference validator and the E2 wiring/interface comparison, errors must be documented ones the model admits, ValidationFailure and panics are never admissible"),
    );
    ctx.finish(
        cov,
        vec![
            "for WIT-/WAT-derived packages the model treats item types as opaque text from the reference validator: argument compatibility and merge conflicts it cannot decide are accepted either way; validity of every Ok encoding is decided by wasmparser".into(),
            "type shapes are those of the three libraries".into(),
        ],
    );
}
