//! mc-graph: engines and checks over wac-graph / wac-types (library part, reused by mc-sem).
#![allow(dead_code)]
pub mod c01;
pub mod c02;
pub mod c03;
pub mod c06;
pub mod c07;
pub mod c08;
pub mod c09;
pub mod c10;
pub mod c14_bytes;
pub mod c15;
pub mod debug;
pub mod e1;
pub mod lib_spec;
pub mod refgraph;
pub mod wiring;
