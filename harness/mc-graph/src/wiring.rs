//! C02 / C03 oracles: provenance equality between the composition (read through public
//! queries and the model's export map) and the encoded bytes (read by E2), and the implied
//! import/export interface.

use crate::e1::{id_table, State, Universe, Viol};
use crate::lib_spec::Ty;
use crate::refgraph::*;
use mc_core::e2::{decode, Decoded, Kind, Prov};
use std::collections::{BTreeMap, BTreeSet};
use wac_graph::NodeKind;

pub fn track_key(n: &str) -> String {
    match track(n) {
        Some((base, ma, mi)) => format!("{base}@{ma}.{mi}"),
        None => n.to_string(),
    }
}

impl Ty {
    /// Same textual form as `mc_core::e2::Canon`; None when the model does not know the
    /// exact type (opaque items of type-exporting instances).
    pub fn canon(&self) -> Option<String> {
        Some(match self {
            Ty::Func(params, result) => {
                let p: Vec<String> = params.iter().map(|(n, t)| format!("{n}: {t}")).collect();
                let r = result.as_ref().map(|r| format!(" -> {r}")).unwrap_or_default();
                format!("func({}){r}", p.join(", "))
            }
            Ty::Inst(exports) => {
                let mut items: Vec<(String, String)> = Vec::new();
                for (n, t) in exports {
                    items.push((n.clone(), t.canon()?));
                }
                items.sort();
                format!("instance{{{}}}", items.iter().map(|(n, e)| format!("{n}: {e}")).collect::<Vec<_>>().join("; "))
            }
            Ty::Opaque(_, c) => {
                if c.starts_with('~') || c.contains("res") {
                    return None;
                }
                c.clone()
            }
        })
    }
    pub fn kind(&self) -> Kind {
        match self {
            Ty::Func(..) => Kind::Func,
            Ty::Inst(_) => Kind::Instance,
            Ty::Opaque(k, _) => match k.as_str() {
                "func" => Kind::Func,
                "instance" => Kind::Instance,
                "component" => Kind::Component,
                "module" => Kind::Module,
                "value" => Kind::Value,
                _ => Kind::Type,
            },
        }
    }
}

/// Name environment of one composition: explicit import names, and the tracks on which an
/// explicit import and an implicit import of a different name coexist (there the statement
/// does not say whether the two are shared, so both readings are identified).
pub struct NameEnv {
    pub explicit: BTreeSet<String>,
    pub ambiguous_tracks: BTreeSet<String>,
}

fn normalize(p: &Prov, env: &NameEnv) -> Prov {
    match p {
        Prov::Import(n) => {
            if n.starts_with("unlocked-dep=") {
                Prov::Import(n.clone())
            } else if env.ambiguous_tracks.contains(&track_key(n)) {
                Prov::Implicit(track_key(n))
            } else if env.explicit.contains(n) {
                Prov::Import(n.clone())
            } else {
                Prov::Implicit(track_key(n))
            }
        }
        Prov::Inst(c, args) => Prov::Inst(
            Box::new(normalize(c, env)),
            args.iter().map(|(k, v)| (k.clone(), normalize(v, env))).collect(),
        ),
        Prov::Alias(i, n) => Prov::Alias(Box::new(normalize(i, env)), n.clone()),
        Prov::Nth(k, i) => Prov::Nth(*k, Box::new(normalize(i, env))),
        Prov::TypeDef(_) => Prov::TypeDef(0),
        Prov::Bundle(m) => Prov::Bundle(m.iter().map(|(k, v)| (k.clone(), normalize(v, env))).collect()),
        other => other.clone(),
    }
}

struct Denoter<'a> {
    u: &'a Universe,
    st: &'a State,
    define: bool,
    /// package lib index -> component import name observed in the bytes (imported mode)
    comp_names: BTreeMap<usize, String>,
    env: &'a NameEnv,
    /// tell identically written instantiations apart
    siblings: bool,
}

impl<'a> Denoter<'a> {
    fn comp(&self, pkg: usize) -> Prov {
        if self.define {
            Prov::Embedded(mc_core::sha256_hex(self.u.packages[pkg].bytes()))
        } else {
            Prov::Import(self.comp_names.get(&pkg).cloned().unwrap_or_else(|| format!("<no component import for package {pkg}>")))
        }
    }

    fn denote(&self, n: u32) -> Prov {
        normalize(&self.denote_raw(n), self.env)
    }

    fn denote_raw(&self, n: u32) -> Prov {
        if self.siblings {
            return self.tagged_terms().remove(&n).expect("live node");
        }
        self.denote_plain(n)
    }

    fn deps(&self, n: u32) -> Vec<u32> {
        let ids = id_table(&self.st.real);
        let g = &self.st.real;
        let id = ids[&n];
        match g[id].kind() {
            NodeKind::Alias => vec![g.get_alias_source(id).expect("alias has a source").0.to_string().parse().unwrap()],
            NodeKind::Instantiation(_) => g.get_instantiation_arguments(id).map(|(_, a)| a.to_string().parse().unwrap()).collect(),
            _ => vec![],
        }
    }

    /// Terms of all nodes with identically written instantiations told apart (`Prov::Nth`):
    /// nodes are visited in dependency order (smallest identifier first among the ready ones);
    /// an instantiation whose term equals that of k earlier visited instantiations gets ordinal k.
    fn tagged_terms(&self) -> BTreeMap<u32, Prov> {
        let ids = id_table(&self.st.real);
        let g = &self.st.real;
        let mut done: BTreeMap<u32, Prov> = BTreeMap::new();
        let mut plain_seen: Vec<Prov> = Vec::new();
        let all: Vec<u32> = ids.keys().copied().collect();
        while done.len() < all.len() {
            let Some(n) = all.iter().copied().find(|n| !done.contains_key(n) && self.deps(*n).iter().all(|d| done.contains_key(d))) else {
                break; // cyclic: not encodable, never compared
            };
            let id = ids[&n];
            let node = &g[id];
            let term = match node.kind() {
                NodeKind::Import(name) => Prov::Import(name.clone()),
                NodeKind::Definition => Prov::TypeDef(0),
                NodeKind::Alias => {
                    let (src, export) = g.get_alias_source(id).expect("alias has a source");
                    Prov::Alias(Box::new(done[&src.to_string().parse::<u32>().unwrap()].clone()), export.to_string())
                }
                NodeKind::Instantiation(_) => {
                    let pid = node.package().unwrap();
                    let pkg = *self.st.pids.iter().find(|(_, v)| **v == pid).unwrap().0;
                    let satisfied: BTreeMap<String, u32> =
                        g.get_instantiation_arguments(id).map(|(s, a)| (s.to_string(), a.to_string().parse().unwrap())).collect();
                    let mut args = BTreeMap::new();
                    for slot in g.types()[self.u.packages[pkg].ty()].imports.keys() {
                        let p = match satisfied.get(slot) {
                            Some(a) => done[a].clone(),
                            None => Prov::Implicit(track_key(slot)),
                        };
                        args.insert(slot.clone(), p);
                    }
                    let plain = Prov::Inst(Box::new(self.comp(pkg)), args);
                    let np = normalize(&plain, self.env);
                    let earlier = plain_seen.iter().filter(|q| **q == np).count() as u32;
                    plain_seen.push(np);
                    if earlier > 0 {
                        Prov::Nth(earlier, Box::new(plain))
                    } else {
                        plain
                    }
                }
            };
            done.insert(n, term);
        }
        done
    }

    fn denote_plain(&self, n: u32) -> Prov {
        let ids = id_table(&self.st.real);
        let id = ids[&n];
        let g = &self.st.real;
        let node = &g[id];
        match node.kind() {
            NodeKind::Import(name) => Prov::Import(name.clone()),
            NodeKind::Definition => Prov::TypeDef(0),
            NodeKind::Alias => {
                let (src, export) = g.get_alias_source(id).expect("alias has a source");
                Prov::Alias(Box::new(self.denote_plain(src.to_string().parse().unwrap())), export.to_string())
            }
            NodeKind::Instantiation(_) => {
                let pid = node.package().unwrap();
                let pkg = *self.st.pids.iter().find(|(_, v)| **v == pid).unwrap().0;
                let satisfied: BTreeMap<String, u32> =
                    g.get_instantiation_arguments(id).map(|(s, a)| (s.to_string(), a.to_string().parse().unwrap())).collect();
                let mut args = BTreeMap::new();
                for slot in g.types()[self.u.packages[pkg].ty()].imports.keys() {
                    let p = match satisfied.get(slot) {
                        Some(a) => self.denote_plain(*a),
                        None => Prov::Implicit(track_key(slot)),
                    };
                    args.insert(slot.clone(), p);
                }
                Prov::Inst(Box::new(self.comp(pkg)), args)
            }
        }
    }
}

/// Removes the sibling ordinals (`Prov::Nth`) everywhere in a term.
fn strip_nth(p: &Prov) -> Prov {
    match p {
        Prov::Nth(_, i) => strip_nth(i),
        Prov::Inst(c, args) => Prov::Inst(Box::new(strip_nth(c)), args.iter().map(|(k, v)| (k.clone(), strip_nth(v))).collect()),
        Prov::Alias(i, n) => Prov::Alias(Box::new(strip_nth(i)), n.clone()),
        Prov::Bundle(m) => Prov::Bundle(m.iter().map(|(k, v)| (k.clone(), strip_nth(v))).collect()),
        other => other.clone(),
    }
}

/// Applies a renumbering of the sibling ordinals of ONE class of identically written,
/// argument-free-of-siblings instantiations (`class` = their untagged term; ordinal 0 is the
/// untagged occurrence): `perm[old] = new`.
fn renumber(p: &Prov, class: &Prov, perm: &[u32]) -> Prov {
    let tag = |k: u32, inner: Prov| if k == 0 { inner } else { Prov::Nth(k, Box::new(inner)) };
    match p {
        Prov::Nth(k, i) if **i == *class => tag(perm[*k as usize], (**i).clone()),
        Prov::Inst(..) if *p == *class => tag(perm[0], p.clone()),
        Prov::Nth(k, i) => Prov::Nth(*k, Box::new(renumber(i, class, perm))),
        Prov::Inst(c, args) => Prov::Inst(c.clone(), args.iter().map(|(k, v)| (k.clone(), renumber(v, class, perm))).collect()),
        Prov::Alias(i, n) => Prov::Alias(Box::new(renumber(i, class, perm)), n.clone()),
        Prov::Bundle(m) => Prov::Bundle(m.iter().map(|(k, v)| (k.clone(), renumber(v, class, perm))).collect()),
        other => other.clone(),
    }
}

fn multiset<T: Ord + Clone>(v: impl IntoIterator<Item = T>) -> BTreeMap<T, usize> {
    let mut m = BTreeMap::new();
    for x in v {
        *m.entry(x).or_insert(0) += 1;
    }
    m
}

pub type Iface = (BTreeMap<String, (Kind, Option<String>)>, BTreeMap<String, (Kind, Option<String>)>);

/// The interface the statement of C03 implies, from the model: (imports, exports) as
/// name -> (kind, canonical type if the model knows it). None = the statement gives no
/// verdict for this composition (not encodable, or an explicit import shares a semver
/// track with an implicit one under a different name).
pub fn implied_interface(u: &Universe, m: &Model) -> Option<Iface> {
    let cx = u.cx();
    let mut imports: BTreeMap<String, (Kind, Option<String>)> = BTreeMap::new();
    for (name, id) in &m.imports {
        if let RItem::Ty(t) = &m.nodes[id].item {
            imports.insert(name.clone(), (t.kind(), t.canon()));
        }
    }
    // implicit: one per track, named for the highest version, type = merge
    let mut groups: Vec<(String, Option<Ty>, Kind)> = Vec::new();
    for (_, n, ty) in m.unsatisfied(&cx) {
        match groups.iter_mut().find(|(g, _, _)| same_track(g, n)) {
            Some((g, t, _)) => {
                if let Some(cur) = t.clone() {
                    match merge_ty(&cur, ty) {
                        Merge::Ok(mt) => *t = Some(mt),
                        Merge::Conflict => return None,
                        Merge::Unknown => *t = None,
                    }
                }
                if version_triple(n) > version_triple(g) {
                    *g = n.to_string();
                }
            }
            None => groups.push((n.to_string(), Some(ty.clone()), ty.kind())),
        }
    }
    for (g, t, k) in groups {
        if imports.keys().any(|e| same_track(e, &g)) {
            return None;
        }
        imports.insert(g, (k, t.and_then(|t| t.canon())));
    }
    let mut exports = BTreeMap::new();
    for (name, id) in &m.exports {
        let e = match &m.nodes[id].item {
            RItem::Ty(t) => (t.kind(), t.canon()),
            RItem::TypeDef(_) => (Kind::Type, None),
        };
        exports.insert(name.clone(), e);
    }
    Some((imports, exports))
}

pub fn wiring_and_interface_check(u: &Universe, st: &State, bytes: &[u8], define: bool) -> Vec<Viol> {
    let p = u.prop;
    let mode = if define { "embedded" } else { "imported" };
    let mut v: Vec<Viol> = Vec::new();
    let d: Decoded = match decode(bytes) {
        Ok(d) => d,
        Err(e) => {
            v.push((format!("{p}/e2/reader-error/{mode}"), format!("E2 could not read the encoding: {e}")));
            return v;
        }
    };
    let m = &st.model;
    let explicit_names: BTreeSet<String> = m.imports.keys().cloned().collect();
    let cx0 = u.cx();
    let ambiguous_tracks: BTreeSet<String> = m
        .unsatisfied(&cx0)
        .iter()
        .filter(|(_, n, _)| explicit_names.iter().any(|e| e != n && same_track(e, n)))
        .map(|(_, n, _)| track_key(n))
        .collect();
    let env = NameEnv { explicit: explicit_names, ambiguous_tracks };
    let explicit = &env;

    // component imports (imported mode): one per instantiated package
    let inst_pkgs: BTreeSet<usize> = m.nodes.values().filter(|n| n.kind == RKind::Inst).map(|n| n.pkg.unwrap()).collect();
    let comp_imports: Vec<&String> =
        d.imports.iter().filter(|(n, k)| *k == Kind::Component && n.starts_with("unlocked-dep=")).map(|(n, _)| n).collect();
    let mut comp_names = BTreeMap::new();
    if define {
        let want: BTreeMap<String, usize> = multiset(inst_pkgs.iter().map(|p| mc_core::sha256_hex(u.packages[*p].bytes())));
        let got = multiset(d.embedded.iter().cloned());
        if want != got {
            v.push((
                format!("{p}/wiring/embedded-components/{mode}"),
                format!("embedded component hashes {got:?}; instantiated packages are {want:?}"),
            ));
        }
        if !comp_imports.is_empty() {
            v.push((format!("{p}/wiring/component-import-in-embedded-mode"), format!("unexpected component imports {comp_imports:?}")));
        }
    } else {
        if !d.embedded.is_empty() {
            v.push((format!("{p}/wiring/embedded-in-imported-mode"), "components embedded although dependencies are imported".into()));
        }
        if comp_imports.len() != inst_pkgs.len() {
            v.push((
                format!("{p}/wiring/component-imports/{mode}"),
                format!("{} component imports for {} instantiated packages", comp_imports.len(), inst_pkgs.len()),
            ));
        }
        for pk in &inst_pkgs {
            let name = &u.pkgs[*pk].name;
            let cands: Vec<&&String> = comp_imports
                .iter()
                .filter(|n| match &u.pkgs[*pk].version {
                    None => n.contains(&format!("<{name}>")),
                    Some(v) => n.contains(&format!("<{name}@")) && n.contains(v.as_str()),
                })
                .collect();
            if cands.len() == 1 {
                comp_names.insert(*pk, (**cands[0]).clone());
            } else {
                v.push((
                    format!("{p}/wiring/component-import-name/{mode}"),
                    format!("package {name}: component imports naming it: {cands:?}"),
                ));
            }
        }
    }
    let den = Denoter { u, st, define, comp_names: comp_names.clone(), env: explicit, siblings: false };

    let sections = |d: &Decoded, den: &Denoter| -> Vec<Viol> {
        let mut out: Vec<Viol> = Vec::new();
    // (a) instantiations as a multiset
        let want_insts = multiset(m.nodes.iter().filter(|(_, n)| n.kind == RKind::Inst).map(|(i, _)| den.denote(*i)));
        let got_insts = multiset(d.instantiations.iter().map(|x| normalize(x, explicit)));
        if want_insts != got_insts {
            let class = if want_insts.values().sum::<usize>() != got_insts.values().sum::<usize>() { "count" } else { "arguments" };
            out.push((
                format!("{p}/wiring/instantiations-{class}/{mode}"),
                format!("encoded instantiations {got_insts:?} differ from the composition's {want_insts:?}"),
            ));
        }

        // (b) exports: name -> provenance
        let got_exports: BTreeMap<String, (Kind, Prov)> =
            d.exports.iter().map(|(n, k, pr)| (n.clone(), (*k, normalize(pr, explicit)))).collect();
        for (name, node) in &m.exports {
            let want = den.denote(*node);
            match got_exports.get(name) {
                None => out.push((format!("{p}/interface/export-missing/{mode}"), format!("export `{name}` of node {node} is not exported by the encoding"))),
                Some((_, got)) => {
                    if *got != want {
                        out.push((
                            format!("{p}/wiring/export-binding/{mode}"),
                            format!("export `{name}` is bound to {got:?}; the composition designates {want:?}"),
                        ));
                    }
                }
            }
        }

        // (c) every alias node is realised as that alias
        let got_aliases = multiset(d.aliases.iter().map(|x| normalize(x, explicit)));
        for (i, n) in &m.nodes {
            if n.kind == RKind::Alias {
                let want = den.denote(*i);
                if !got_aliases.contains_key(&want) {
                    out.push((format!("{p}/wiring/alias/{mode}"), format!("alias node {i} = {want:?} not found among encoded aliases {got_aliases:?}")));
                }
            }
        }

        // (e) names
        let named: Vec<(u32, &RNode)> = m.nodes.iter().filter(|(_, n)| n.name.is_some()).map(|(i, n)| (*i, n)).collect();
        if named.len() != d.names.len() {
            out.push((format!("{p}/wiring/names-count/{mode}"), format!("{} named nodes, {} name-section entries", named.len(), d.names.len())));
        }
        for (i, n) in named {
            let want = den.denote(i);
            let kind = match &n.item {
                RItem::Ty(t) => t.kind(),
                RItem::TypeDef(_) => Kind::Type,
            };
            let name = n.name.as_ref().unwrap();
            let hit = d.names.iter().any(|(k, s, pr)| *k == kind && s == name && normalize(pr, explicit) == want);
            if !hit {
                out.push((
                    format!("{p}/wiring/name-section/{mode}"),
                    format!("node {i} named `{name}` ({kind:?}, {want:?}) is not named so in the name section {:?}", d.names),
                ));
            }
        }

        out
    };
    let plain = sections(&d, &den);
    if plain.is_empty() {
        // Everything agrees when identically written instantiations are identified. They are
        // still distinct instances: compare again with siblings told apart (encoding: order of
        // emission; composition: order of node identifiers), up to a renumbering of one class.
        if let Ok(ds) = mc_core::e2::decode_siblings(bytes, &|x| normalize(x, explicit)) {
            let den_s = Denoter { u, st, define, comp_names, env: explicit, siblings: true };
            let tagged = sections(&ds, &den_s);
            if !tagged.is_empty() {
                let mut classes: Vec<(Prov, u32)> = Vec::new();
                for i in &ds.instantiations {
                    if let Prov::Nth(k, inner) = normalize(i, explicit) {
                        match classes.iter_mut().find(|(c, _)| *c == *inner) {
                            Some((_, n)) => *n = (*n).max(k),
                            None => classes.push(((*inner).clone(), k)),
                        }
                    }
                }
                let mut explained = false;
                if classes.len() == 1 && classes[0].1 <= 2 && strip_nth(&classes[0].0) == classes[0].0 {
                    let (class, maxk) = (&classes[0].0, classes[0].1 as usize);
                    let perms: Vec<Vec<u32>> = if maxk == 1 { vec![vec![1, 0]] } else { vec![vec![0, 2, 1], vec![1, 0, 2], vec![1, 2, 0], vec![2, 0, 1], vec![2, 1, 0]] };
                    for perm in perms {
                        let mut dr = Decoded::default();
                        // (terms are normalised first: `sections` normalises again, which is idempotent)
                        let rn = |x: &Prov| renumber(&normalize(x, explicit), class, &perm);
                        dr.instantiations = ds.instantiations.iter().map(rn).collect();
                        dr.exports = ds.exports.iter().map(|(n, k, x)| (n.clone(), *k, rn(x))).collect();
                        dr.aliases = ds.aliases.iter().map(rn).collect();
                        dr.names = ds.names.iter().map(|(k, n, x)| (*k, n.clone(), rn(x))).collect();
                        if sections(&dr, &den_s).is_empty() {
                            explained = true;
                            break;
                        }
                    }
                }
                if !explained {
                    let (_, what) = &tagged[0];
                    v.push((
                        format!("{p}/wiring/identically-written-instances-confused/{mode}"),
                        format!("the encoding is right only if instantiations that are written alike are identified; told apart (k-th by emission / by node identifier): {what}"),
                    ));
                }
            }
        }
    } else {
        v.extend(plain);
    }

    let got_exports: BTreeMap<String, (Kind, Prov)> =
        d.exports.iter().map(|(n, k, pr)| (n.clone(), (*k, normalize(pr, explicit)))).collect();
    // C03: implied interface
    if let Some((want_imports, want_exports)) = implied_interface(u, m) {
        let got_imports: BTreeMap<String, (Kind, String)> = d
            .imports
            .iter()
            .filter(|(n, k)| !(*k == Kind::Component && !define && n.starts_with("unlocked-dep=")))
            .map(|(n, k)| (n.clone(), (*k, d.import_types.get(n).cloned().unwrap_or_default())))
            .collect();
        // imports the types depend on (interfaces reached through `use`) are allowed in
        // addition when the universe declares them
        let got_names: Vec<&String> = got_imports.keys().filter(|n| !u.dependency_imports.contains(*n) || want_imports.contains_key(*n)).collect();
        if got_names != want_imports.keys().collect::<Vec<_>>() {
            let missing: Vec<&String> = want_imports.keys().filter(|n| !got_imports.contains_key(*n)).collect();
            let extra: Vec<&&String> = got_names.iter().filter(|n| !want_imports.contains_key(**n)).collect();
            let class = |n: &String| -> &'static str {
                if m.imports.contains_key(n) {
                    "explicit"
                } else {
                    "implicit"
                }
            };
            let mc: BTreeSet<&str> = missing.iter().map(|n| class(n)).collect();
            v.push((
                format!(
                    "{p}/interface/import-names/{mode}/missing-{}/extra-{}",
                    if mc.is_empty() { "none".to_string() } else { mc.into_iter().collect::<Vec<_>>().join("+") },
                    extra.len()
                ),
                format!(
                    "imports {:?}; implied {:?} (missing {missing:?}, extra {extra:?})",
                    got_imports.keys().collect::<Vec<_>>(),
                    want_imports.keys().collect::<Vec<_>>()
                ),
            ));
        } else {
            for (name, (kind, ty)) in &want_imports {
                let (gk, gt) = &got_imports[name];
                if gk != kind {
                    v.push((format!("{p}/interface/import-kind/{mode}"), format!("import `{name}` has kind {gk:?}, implied {kind:?}")));
                } else if let Some(ty) = ty {
                    if gt != ty {
                        v.push((format!("{p}/interface/import-type/{mode}"), format!("import `{name}` has type {gt}; implied {ty}")));
                    }
                }
            }
        }
        v.extend(members_and_dependencies(u, m, &d, &want_imports, mode));
        if d.imports.len() != d.imports.iter().map(|(n, _)| n).collect::<BTreeSet<_>>().len() {
            v.push((format!("{p}/interface/duplicate-import/{mode}"), format!("{:?}", d.imports)));
        }
        let got_names: Vec<&String> = got_exports.keys().collect();
        if got_names != want_exports.keys().collect::<Vec<_>>() {
            v.push((
                format!("{p}/interface/export-names/{mode}"),
                format!("exports {got_names:?}; designated {:?}", want_exports.keys().collect::<Vec<_>>()),
            ));
        } else {
            for (name, (kind, ty)) in &want_exports {
                let (gk, _) = &got_exports[name];
                if gk != kind {
                    v.push((format!("{p}/interface/export-kind/{mode}"), format!("export `{name}` has kind {gk:?}, designated item is {kind:?}")));
                }
                if let Some(ty) = ty {
                    if d.export_types.get(name) != Some(ty) {
                        v.push((
                            format!("{p}/interface/export-type/{mode}"),
                            format!("export `{name}` has type {:?}, designated item has {ty}", d.export_types.get(name)),
                        ));
                    }
                }
            }
        }
        // the graph's own import listing, canonicalised by track, names the same imports
        let listing: BTreeSet<String> = st.real.imports().map(|(n, _, _)| track_key(n)).collect();
        let encoded: BTreeSet<String> = got_imports.keys().filter(|n| !u.dependency_imports.contains(*n)).map(|n| track_key(n)).collect();
        let listing_nodep: BTreeSet<String> = listing.iter().filter(|n| !u.dependency_imports.iter().any(|d| track_key(d) == **n)).cloned().collect();
        if listing_nodep != encoded {
            v.push((format!("{p}/interface/imports-listing/{mode}"), format!("imports() tracks {listing:?}; encoded {encoded:?}")));
        }
    }
    v
}

/// Members of instance imports and the dependency rule of C03 ("and the interfaces those types
/// depend on"), for libraries described through the reference validator (`PkgSpec::import_members`
/// / `import_deps`): (i) an implicit import offers exactly the union of the members its sharers
/// need, each at a type one of them requires; (ii) an explicit import offers exactly its kind's
/// members; (iii) whenever an import (implicit or explicit) has a type that depends on another
/// interface, that interface is imported (some name on its track), and an import that is neither
/// implied nor depended upon is an extra import; (iv) an import present only as a dependency
/// offers nothing the contributors' packages do not know of that interface.
fn members_and_dependencies(u: &Universe, m: &Model, d: &Decoded, want_imports: &BTreeMap<String, (Kind, Option<String>)>, mode: &str) -> Vec<Viol> {
    let p = u.prop;
    let mut v: Vec<Viol> = Vec::new();
    if u.pkgs.iter().all(|p| p.import_members.is_empty()) {
        return v;
    }
    let cx = u.cx();
    // track -> member -> admissible canonical types
    let mut need: BTreeMap<String, BTreeMap<String, BTreeSet<String>>> = BTreeMap::new();
    // track of a dependency -> (who needs it, members the packages know of it)
    let mut required: BTreeMap<String, (String, BTreeSet<String>, BTreeSet<String>)> = BTreeMap::new();
    // interfaces a type is used THROUGH (`k` uses `j.rec`, which `j` uses from `t`): the type may be
    // taken from any link of the chain, so only the root of the chain is required
    let mut through: BTreeSet<String> = BTreeSet::new();
    let mut add_deps = |who: String, pkg: &crate::lib_spec::PkgSpec, slot: &str, required: &mut BTreeMap<String, (String, BTreeSet<String>, BTreeSet<String>)>| {
        for (o, om) in pkg.import_uses.get(slot).into_iter().flat_map(|m| m.values()) {
            let (mut o, mut om) = (o.clone(), om.clone());
            let mut guard = 0;
            while let Some((o2, om2)) = pkg.import_uses.get(&o).and_then(|m| m.get(&om)).cloned() {
                through.insert(track_key(&o));
                o = o2;
                om = om2;
                guard += 1;
                if guard > 16 {
                    break;
                }
            }
            let e = required.entry(track_key(&o)).or_insert_with(|| (who.clone(), BTreeSet::new(), BTreeSet::new()));
            if let Some(mem) = pkg.import_members.get(&o) {
                e.1.extend(mem.keys().cloned());
            }
            e.2.insert(om);
        }
    };
    for (inst, slot, _) in m.unsatisfied(&cx) {
        let pkg = &u.pkgs[m.nodes[&inst].pkg.unwrap()];
        if let Some(mem) = pkg.import_members.get(slot) {
            let e = need.entry(track_key(slot)).or_default();
            for (k, c) in mem {
                e.entry(k.clone()).or_default().insert(c.clone());
            }
        }
        add_deps(format!("implicit import `{slot}` of instantiation {inst}"), pkg, slot, &mut required);
    }
    for (name, id) in &m.imports {
        let RItem::Ty(t) = &m.nodes[id].item else { continue };
        let Some(k) = u.import_kinds.iter().position(|x| x == t) else { continue };
        let Some((pk, slot)) = u.import_kind_origin.get(k).cloned().flatten() else { continue };
        let pkg = &u.pkgs[pk];
        if let (Some(mem), Some(got)) = (pkg.import_members.get(&slot), d.import_members.get(name)) {
            if mem != got {
                v.push((
                    format!("{p}/interface/explicit-import-members/{mode}"),
                    format!("explicit import `{name}` offers {got:?}; its kind has {mem:?}"),
                ));
            }
        }
        add_deps(format!("explicit import `{name}`"), pkg, &slot, &mut required);
    }
    // (i)
    for (name, (kind, _)) in want_imports {
        if *kind != Kind::Instance || m.imports.contains_key(name) {
            continue;
        }
        let (Some(want), Some(got)) = (need.get(&track_key(name)), d.import_members.get(name)) else { continue };
        // a dependant adds the types it uses (at least) and what its package knows of the interface (at most)
        let (known, used) = required.get(&track_key(name)).map(|(_, k, u)| (k.clone(), u.clone())).unwrap_or_default();
        let missing: Vec<&String> = want.keys().chain(used.iter()).filter(|n| !got.contains_key(*n)).collect();
        let extra: Vec<&String> = got.keys().filter(|n| !want.contains_key(*n) && !known.contains(*n)).collect();
        if !missing.is_empty() || !extra.is_empty() {
            v.push((
                format!("{p}/interface/implicit-import-members/{mode}/missing-{}/extra-{}", missing.len().min(1), extra.len().min(1)),
                format!(
                    "implicit import `{name}` offers members {:?}; its sharers need the union {:?} (types used by dependants: {used:?}); missing {missing:?}, extra {extra:?}",
                    got.keys().collect::<Vec<_>>(),
                    want.keys().collect::<Vec<_>>()
                ),
            ));
        } else {
            for (k, cands) in want {
                if !cands.contains(&got[k]) {
                    v.push((
                        format!("{p}/interface/implicit-import-member-type/{mode}"),
                        format!("member `{k}` of implicit import `{name}` has type {}; the sharers require {cands:?}", got[k]),
                    ));
                }
            }
        }
    }
    // (iii) + (iv)
    let want_tracks: BTreeSet<String> = want_imports.keys().map(|n| track_key(n)).collect();
    for (t, (who, known, used)) in &required {
        match d.imports.iter().find(|(n, _)| track_key(n) == *t) {
            None => v.push((
                format!("{p}/interface/dependency-import-missing/{mode}"),
                format!("the type of {who} depends on interface `{t}`, which the encoding does not import (imports: {:?})", d.imports),
            )),
            Some((n, _)) => {
                if !want_tracks.contains(t) {
                    if let Some(got) = d.import_members.get(n) {
                        let lacking: Vec<&String> = used.iter().filter(|k| !got.contains_key(*k)).collect();
                        if !lacking.is_empty() {
                            v.push((
                                format!("{p}/interface/dependency-import-lacks-used-type/{mode}"),
                                format!("import `{n}`, present because {who} depends on it, lacks the used types {lacking:?}"),
                            ));
                        }
                        let unknown: Vec<&String> = got.keys().filter(|k| !known.contains(*k)).collect();
                        if !unknown.is_empty() {
                            v.push((
                                format!("{p}/interface/dependency-import-members/{mode}"),
                                format!("import `{n}`, present only because {who} depends on it, offers {unknown:?}, which no contributor's view of that interface has"),
                            ));
                        }
                    }
                }
            }
        }
    }
    for (n, k) in &d.imports {
        if *k == Kind::Component && n.starts_with("unlocked-dep=") {
            continue;
        }
        let t = track_key(n);
        if !want_tracks.contains(&t) && !required.contains_key(&t) && !through.contains(&t) {
            v.push((
                format!("{p}/interface/import-neither-implied-nor-depended-upon/{mode}"),
                format!("import `{n}` is not an explicit import, not an unsatisfied argument and no imported type depends on it"),
            ));
        }
    }
    v
}
