//! C02 / C03 oracles: provenance equality between the composition (read through public
//! queries and the model's export map) and the encoded bytes (read by E2), and the implied
//! import/export interface.

use crate::e1::{id_table, State, Universe, Viol};
use crate::lib_spec::Ty;
use crate::refgraph::*;
use mc_core::e2::{decode, Decoded, Kind, Prov};
use std::collections::{BTreeMap, BTreeSet};
use wac_graph::NodeKind;

pub fn track_key(n: &str) -> String {
    match track(n) {
        Some((base, ma, mi)) => format!("{base}@{ma}.{mi}"),
        None => n.to_string(),
    }
}

impl Ty {
    /// Same textual form as `mc_core::e2::Canon`; None when the model does not know the
    /// exact type (opaque items of type-exporting instances).
    pub fn canon(&self) -> Option<String> {
        Some(match self {
            Ty::Func(params, result) => {
                let p: Vec<String> = params.iter().map(|(n, t)| format!("{n}: {t}")).collect();
                let r = result.as_ref().map(|r| format!(" -> {r}")).unwrap_or_default();
                format!("func({}){r}", p.join(", "))
            }
            Ty::Inst(exports) => {
                let mut items: Vec<(String, String)> = Vec::new();
                for (n, t) in exports {
                    items.push((n.clone(), t.canon()?));
                }
                items.sort();
                format!("instance{{{}}}", items.iter().map(|(n, e)| format!("{n}: {e}")).collect::<Vec<_>>().join("; "))
            }
            Ty::Opaque(_, c) => {
                if c.starts_with('~') || c.contains("res") {
                    return None;
                }
                c.clone()
            }
        })
    }
    pub fn kind(&self) -> Kind {
        match self {
            Ty::Func(..) => Kind::Func,
            Ty::Inst(_) => Kind::Instance,
            Ty::Opaque(k, _) => match k.as_str() {
                "func" => Kind::Func,
                "instance" => Kind::Instance,
                "component" => Kind::Component,
                "module" => Kind::Module,
                "value" => Kind::Value,
                _ => Kind::Type,
            },
        }
    }
}

/// Name environment of one composition: explicit import names, and the tracks on which an
/// explicit import and an implicit import of a different name coexist (there the statement
/// does not say whether the two are shared, so both readings are identified).
pub struct NameEnv {
    pub explicit: BTreeSet<String>,
    pub ambiguous_tracks: BTreeSet<String>,
}

fn normalize(p: &Prov, env: &NameEnv) -> Prov {
    match p {
        Prov::Import(n) => {
            if n.starts_with("unlocked-dep=") {
                Prov::Import(n.clone())
            } else if env.ambiguous_tracks.contains(&track_key(n)) {
                Prov::Implicit(track_key(n))
            } else if env.explicit.contains(n) {
                Prov::Import(n.clone())
            } else {
                Prov::Implicit(track_key(n))
            }
        }
        Prov::Inst(c, args) => Prov::Inst(
            Box::new(normalize(c, env)),
            args.iter().map(|(k, v)| (k.clone(), normalize(v, env))).collect(),
        ),
        Prov::Alias(i, n) => Prov::Alias(Box::new(normalize(i, env)), n.clone()),
        Prov::TypeDef(_) => Prov::TypeDef(0),
        Prov::Bundle(m) => Prov::Bundle(m.iter().map(|(k, v)| (k.clone(), normalize(v, env))).collect()),
        other => other.clone(),
    }
}

struct Denoter<'a> {
    u: &'a Universe,
    st: &'a State,
    define: bool,
    /// package lib index -> component import name observed in the bytes (imported mode)
    comp_names: BTreeMap<usize, String>,
    env: &'a NameEnv,
}

impl<'a> Denoter<'a> {
    fn comp(&self, pkg: usize) -> Prov {
        if self.define {
            Prov::Embedded(mc_core::sha256_hex(self.u.packages[pkg].bytes()))
        } else {
            Prov::Import(self.comp_names.get(&pkg).cloned().unwrap_or_else(|| format!("<no component import for package {pkg}>")))
        }
    }

    fn denote(&self, n: u32) -> Prov {
        normalize(&self.denote_raw(n), self.env)
    }

    fn denote_raw(&self, n: u32) -> Prov {
        let ids = id_table(&self.st.real);
        let id = ids[&n];
        let g = &self.st.real;
        let node = &g[id];
        match node.kind() {
            NodeKind::Import(name) => Prov::Import(name.clone()),
            NodeKind::Definition => Prov::TypeDef(0),
            NodeKind::Alias => {
                let (src, export) = g.get_alias_source(id).expect("alias has a source");
                Prov::Alias(Box::new(self.denote_raw(src.to_string().parse().unwrap())), export.to_string())
            }
            NodeKind::Instantiation(_) => {
                let pid = node.package().unwrap();
                let pkg = *self.st.pids.iter().find(|(_, v)| **v == pid).unwrap().0;
                let satisfied: BTreeMap<String, u32> =
                    g.get_instantiation_arguments(id).map(|(s, a)| (s.to_string(), a.to_string().parse().unwrap())).collect();
                let mut args = BTreeMap::new();
                for slot in g.types()[self.u.packages[pkg].ty()].imports.keys() {
                    let p = match satisfied.get(slot) {
                        Some(a) => self.denote_raw(*a),
                        None => Prov::Implicit(track_key(slot)),
                    };
                    args.insert(slot.clone(), p);
                }
                Prov::Inst(Box::new(self.comp(pkg)), args)
            }
        }
    }
}

fn multiset<T: Ord + Clone>(v: impl IntoIterator<Item = T>) -> BTreeMap<T, usize> {
    let mut m = BTreeMap::new();
    for x in v {
        *m.entry(x).or_insert(0) += 1;
    }
    m
}

pub type Iface = (BTreeMap<String, (Kind, Option<String>)>, BTreeMap<String, (Kind, Option<String>)>);

/// The interface the statement of C03 implies, from the model: (imports, exports) as
/// name -> (kind, canonical type if the model knows it). None = the statement gives no
/// verdict for this composition (not encodable, or an explicit import shares a semver
/// track with an implicit one under a different name).
pub fn implied_interface(u: &Universe, m: &Model) -> Option<Iface> {
    let cx = u.cx();
    let mut imports: BTreeMap<String, (Kind, Option<String>)> = BTreeMap::new();
    for (name, id) in &m.imports {
        if let RItem::Ty(t) = &m.nodes[id].item {
            imports.insert(name.clone(), (t.kind(), t.canon()));
        }
    }
    // implicit: one per track, named for the highest version, type = merge
    let mut groups: Vec<(String, Option<Ty>, Kind)> = Vec::new();
    for (_, n, ty) in m.unsatisfied(&cx) {
        match groups.iter_mut().find(|(g, _, _)| same_track(g, n)) {
            Some((g, t, _)) => {
                if let Some(cur) = t.clone() {
                    match merge_ty(&cur, ty) {
                        Merge::Ok(mt) => *t = Some(mt),
                        Merge::Conflict => return None,
                        Merge::Unknown => *t = None,
                    }
                }
                if version_triple(n) > version_triple(g) {
                    *g = n.to_string();
                }
            }
            None => groups.push((n.to_string(), Some(ty.clone()), ty.kind())),
        }
    }
    for (g, t, k) in groups {
        if imports.keys().any(|e| same_track(e, &g)) {
            return None;
        }
        imports.insert(g, (k, t.and_then(|t| t.canon())));
    }
    let mut exports = BTreeMap::new();
    for (name, id) in &m.exports {
        let e = match &m.nodes[id].item {
            RItem::Ty(t) => (t.kind(), t.canon()),
            RItem::TypeDef(_) => (Kind::Type, None),
        };
        exports.insert(name.clone(), e);
    }
    Some((imports, exports))
}

pub fn wiring_and_interface_check(u: &Universe, st: &State, bytes: &[u8], define: bool) -> Vec<Viol> {
    let p = u.prop;
    let mode = if define { "embedded" } else { "imported" };
    let mut v: Vec<Viol> = Vec::new();
    let d: Decoded = match decode(bytes) {
        Ok(d) => d,
        Err(e) => {
            v.push((format!("{p}/e2/reader-error/{mode}"), format!("E2 could not read the encoding: {e}")));
            return v;
        }
    };
    let m = &st.model;
    let explicit_names: BTreeSet<String> = m.imports.keys().cloned().collect();
    let cx0 = u.cx();
    let ambiguous_tracks: BTreeSet<String> = m
        .unsatisfied(&cx0)
        .iter()
        .filter(|(_, n, _)| explicit_names.iter().any(|e| e != n && same_track(e, n)))
        .map(|(_, n, _)| track_key(n))
        .collect();
    let env = NameEnv { explicit: explicit_names, ambiguous_tracks };
    let explicit = &env;

    // component imports (imported mode): one per instantiated package
    let inst_pkgs: BTreeSet<usize> = m.nodes.values().filter(|n| n.kind == RKind::Inst).map(|n| n.pkg.unwrap()).collect();
    let comp_imports: Vec<&String> =
        d.imports.iter().filter(|(n, k)| *k == Kind::Component && n.starts_with("unlocked-dep=")).map(|(n, _)| n).collect();
    let mut comp_names = BTreeMap::new();
    if define {
        let want: BTreeMap<String, usize> = multiset(inst_pkgs.iter().map(|p| mc_core::sha256_hex(u.packages[*p].bytes())));
        let got = multiset(d.embedded.iter().cloned());
        if want != got {
            v.push((
                format!("{p}/wiring/embedded-components/{mode}"),
                format!("embedded component hashes {got:?}; instantiated packages are {want:?}"),
            ));
        }
        if !comp_imports.is_empty() {
            v.push((format!("{p}/wiring/component-import-in-embedded-mode"), format!("unexpected component imports {comp_imports:?}")));
        }
    } else {
        if !d.embedded.is_empty() {
            v.push((format!("{p}/wiring/embedded-in-imported-mode"), "components embedded although dependencies are imported".into()));
        }
        if comp_imports.len() != inst_pkgs.len() {
            v.push((
                format!("{p}/wiring/component-imports/{mode}"),
                format!("{} component imports for {} instantiated packages", comp_imports.len(), inst_pkgs.len()),
            ));
        }
        for pk in &inst_pkgs {
            let name = &u.pkgs[*pk].name;
            let cands: Vec<&&String> = comp_imports
                .iter()
                .filter(|n| match &u.pkgs[*pk].version {
                    None => n.contains(&format!("<{name}>")),
                    Some(v) => n.contains(&format!("<{name}@")) && n.contains(v.as_str()),
                })
                .collect();
            if cands.len() == 1 {
                comp_names.insert(*pk, (**cands[0]).clone());
            } else {
                v.push((
                    format!("{p}/wiring/component-import-name/{mode}"),
                    format!("package {name}: component imports naming it: {cands:?}"),
                ));
            }
        }
    }
    let den = Denoter { u, st, define, comp_names, env: explicit };

    // (a) instantiations as a multiset
    let want_insts = multiset(m.nodes.iter().filter(|(_, n)| n.kind == RKind::Inst).map(|(i, _)| den.denote(*i)));
    let got_insts = multiset(d.instantiations.iter().map(|x| normalize(x, explicit)));
    if want_insts != got_insts {
        let class = if want_insts.values().sum::<usize>() != got_insts.values().sum::<usize>() { "count" } else { "arguments" };
        v.push((
            format!("{p}/wiring/instantiations-{class}/{mode}"),
            format!("encoded instantiations {got_insts:?} differ from the composition's {want_insts:?}"),
        ));
    }

    // (b) exports: name -> provenance
    let got_exports: BTreeMap<String, (Kind, Prov)> =
        d.exports.iter().map(|(n, k, pr)| (n.clone(), (*k, normalize(pr, explicit)))).collect();
    for (name, node) in &m.exports {
        let want = den.denote(*node);
        match got_exports.get(name) {
            None => v.push((format!("{p}/interface/export-missing/{mode}"), format!("export `{name}` of node {node} is not exported by the encoding"))),
            Some((_, got)) => {
                if *got != want {
                    v.push((
                        format!("{p}/wiring/export-binding/{mode}"),
                        format!("export `{name}` is bound to {got:?}; the composition designates {want:?}"),
                    ));
                }
            }
        }
    }

    // (c) every alias node is realised as that alias
    let got_aliases = multiset(d.aliases.iter().map(|x| normalize(x, explicit)));
    for (i, n) in &m.nodes {
        if n.kind == RKind::Alias {
            let want = den.denote(*i);
            if !got_aliases.contains_key(&want) {
                v.push((format!("{p}/wiring/alias/{mode}"), format!("alias node {i} = {want:?} not found among encoded aliases {got_aliases:?}")));
            }
        }
    }

    // (e) names
    let named: Vec<(u32, &RNode)> = m.nodes.iter().filter(|(_, n)| n.name.is_some()).map(|(i, n)| (*i, n)).collect();
    if named.len() != d.names.len() {
        v.push((format!("{p}/wiring/names-count/{mode}"), format!("{} named nodes, {} name-section entries", named.len(), d.names.len())));
    }
    for (i, n) in named {
        let want = den.denote(i);
        let kind = match &n.item {
            RItem::Ty(t) => t.kind(),
            RItem::TypeDef(_) => Kind::Type,
        };
        let name = n.name.as_ref().unwrap();
        let hit = d.names.iter().any(|(k, s, pr)| *k == kind && s == name && normalize(pr, explicit) == want);
        if !hit {
            v.push((
                format!("{p}/wiring/name-section/{mode}"),
                format!("node {i} named `{name}` ({kind:?}, {want:?}) is not named so in the name section {:?}", d.names),
            ));
        }
    }

    // C03: implied interface
    if let Some((want_imports, want_exports)) = implied_interface(u, m) {
        let got_imports: BTreeMap<String, (Kind, String)> = d
            .imports
            .iter()
            .filter(|(n, k)| !(*k == Kind::Component && !define && n.starts_with("unlocked-dep=")))
            .map(|(n, k)| (n.clone(), (*k, d.import_types.get(n).cloned().unwrap_or_default())))
            .collect();
        // imports the types depend on (interfaces reached through `use`) are allowed in
        // addition when the universe declares them
        let got_names: Vec<&String> = got_imports.keys().filter(|n| !u.dependency_imports.contains(*n) || want_imports.contains_key(*n)).collect();
        if got_names != want_imports.keys().collect::<Vec<_>>() {
            let missing: Vec<&String> = want_imports.keys().filter(|n| !got_imports.contains_key(*n)).collect();
            let extra: Vec<&&String> = got_names.iter().filter(|n| !want_imports.contains_key(**n)).collect();
            let class = |n: &String| -> &'static str {
                if m.imports.contains_key(n) {
                    "explicit"
                } else {
                    "implicit"
                }
            };
            let mc: BTreeSet<&str> = missing.iter().map(|n| class(n)).collect();
            v.push((
                format!(
                    "{p}/interface/import-names/{mode}/missing-{}/extra-{}",
                    if mc.is_empty() { "none".to_string() } else { mc.into_iter().collect::<Vec<_>>().join("+") },
                    extra.len()
                ),
                format!(
                    "imports {:?}; implied {:?} (missing {missing:?}, extra {extra:?})",
                    got_imports.keys().collect::<Vec<_>>(),
                    want_imports.keys().collect::<Vec<_>>()
                ),
            ));
        } else {
            for (name, (kind, ty)) in &want_imports {
                let (gk, gt) = &got_imports[name];
                if gk != kind {
                    v.push((format!("{p}/interface/import-kind/{mode}"), format!("import `{name}` has kind {gk:?}, implied {kind:?}")));
                } else if let Some(ty) = ty {
                    if gt != ty {
                        v.push((format!("{p}/interface/import-type/{mode}"), format!("import `{name}` has type {gt}; implied {ty}")));
                    }
                }
            }
        }
        if d.imports.len() != d.imports.iter().map(|(n, _)| n).collect::<BTreeSet<_>>().len() {
            v.push((format!("{p}/interface/duplicate-import/{mode}"), format!("{:?}", d.imports)));
        }
        let got_names: Vec<&String> = got_exports.keys().collect();
        if got_names != want_exports.keys().collect::<Vec<_>>() {
            v.push((
                format!("{p}/interface/export-names/{mode}"),
                format!("exports {got_names:?}; designated {:?}", want_exports.keys().collect::<Vec<_>>()),
            ));
        } else {
            for (name, (kind, ty)) in &want_exports {
                let (gk, _) = &got_exports[name];
                if gk != kind {
                    v.push((format!("{p}/interface/export-kind/{mode}"), format!("export `{name}` has kind {gk:?}, designated item is {kind:?}")));
                }
                if let Some(ty) = ty {
                    if d.export_types.get(name) != Some(ty) {
                        v.push((
                            format!("{p}/interface/export-type/{mode}"),
                            format!("export `{name}` has type {:?}, designated item has {ty}", d.export_types.get(name)),
                        ));
                    }
                }
            }
        }
        // the graph's own import listing, canonicalised by track, names the same imports
        let listing: BTreeSet<String> = st.real.imports().map(|(n, _, _)| track_key(n)).collect();
        let encoded: BTreeSet<String> = got_imports.keys().filter(|n| !u.dependency_imports.contains(*n)).map(|n| track_key(n)).collect();
        let listing_nodep: BTreeSet<String> = listing.iter().filter(|n| !u.dependency_imports.iter().any(|d| track_key(d) == **n)).cloned().collect();
        if listing_nodep != encoded {
            v.push((format!("{p}/interface/imports-listing/{mode}"), format!("imports() tracks {listing:?}; encoded {encoded:?}")));
        }
    }
    v
}
