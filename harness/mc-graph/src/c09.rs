//! C09 — merged import requirements satisfy every contributor, order-independently.
//!
//! All multisets of 2..k contributors from a small universe (each materialised in its own
//! `Types` collection by decoding a generated component) and all permutations of each.

use crate::lib_spec::{PkgSpec, Ty};
use crate::refgraph::{merge_ty, same_track, version_triple, Merge};
use mc_core::canon_wac::canon_kind;
use mc_core::libs::component_from_wit;
use mc_core::{catch, panic_site, Ctx, Samples, Tier};
use rayon::prelude::*;
use serde_json::{json, Map};
use std::collections::{BTreeMap, BTreeSet, HashSet};
use wac_graph::types::{ItemKind, Package, SubtypeChecker, TypeAggregator, Types};

pub struct Contributor {
    pub label: String,
    /// requirement names with the model's shape (None = the model only knows the name)
    pub reqs: Vec<(String, Option<Ty>)>,
    pub types: Types,
    pub kinds: Vec<ItemKind>,
}

fn from_spec(label: &str, name: &str, ty: Ty) -> Contributor {
    let spec = PkgSpec::new("c:contrib", None, &[(name, ty.clone())], &[]);
    let mut types = Types::default();
    let pkg = Package::from_bytes("c:contrib", None, spec.to_bytes(), &mut types).expect("contributor decodes");
    let kind = types[pkg.ty()].imports[name];
    Contributor { label: label.to_string(), reqs: vec![(name.to_string(), Some(ty))], types, kinds: vec![kind] }
}

/// A contributor written by hand (the descriptor says what it requires): used where the SHAPE
/// of the binary matters, e.g. one type index shared by several exports.
fn from_wat(label: &str, name: &str, ty: Ty, text: &str) -> Contributor {
    let bytes = mc_core::libs::wat(text).unwrap_or_else(|e| panic!("{label}: {e:?}"));
    let mut types = Types::default();
    let pkg = Package::from_bytes("c:contrib", None, bytes, &mut types).expect("contributor decodes");
    let kind = types[pkg.ty()].imports[name];
    Contributor { label: label.to_string(), reqs: vec![(name.to_string(), Some(ty))], types, kinds: vec![kind] }
}

fn from_wit(label: &str, wits: &[(&str, &str)], world: &str) -> Contributor {
    let bytes = component_from_wit(wits, world).unwrap_or_else(|e| panic!("{label}: {e:?}"));
    let mut types = Types::default();
    let pkg = Package::from_bytes("c:contrib", None, bytes, &mut types).expect("contributor decodes");
    let world = types[pkg.ty()].clone();
    let reqs = world.imports.keys().map(|n| (n.clone(), None)).collect();
    let kinds = world.imports.values().copied().collect();
    Contributor { label: label.to_string(), reqs, types, kinds }
}

pub fn universe() -> Vec<Contributor> {
    let f0 = Ty::func0();
    let f1 = Ty::func(&[("p", "u32")], None);
    let i = |e: &[(&str, Ty)]| Ty::inst(e);
    let ab = |v: &str| -> String {
        format!(
            r#"package a:b@{v};
interface i {{ record r {{ a: u32 }} record s {{ b: u8 }} f: func(); {} }}
world w {{ import i; }}"#,
            if v == "0.2.1" { "g: func();" } else { "" }
        )
    };
    // the same interface name and track, but it also uses a second type of `i` (a `use` only one
    // contributor has)
    let cd2 = |v: &str, uses: &str| -> String {
        format!(
            r#"package c:d@{v};
interface j {{ use a:b/i@{uses}.{{r, s}}; h: func(x: r); k: func(y: s) -> r; }}
world w {{ import j; }}"#
        )
    };
    let cd = |v: &str, uses: &str| -> String {
        format!(
            r#"package c:d@{v};
interface j {{ use a:b/i@{uses}.{{r}}; h: func(x: r); }}
world w {{ import j; }}"#
        )
    };
    vec![
        from_spec("i@0.2.0{f}", "a:b/i@0.2.0", i(&[("f", f0.clone())])),
        from_spec("i@0.2.1{f,g}", "a:b/i@0.2.1", i(&[("f", f0.clone()), ("g", f0.clone())])),
        from_spec("i@0.2.2{f:F1}", "a:b/i@0.2.2", i(&[("f", f1.clone())])),
        from_spec("i@0.3.0{f}", "a:b/i@0.3.0", i(&[("f", f0.clone())])),
        from_spec("i@1.0.0{f}", "a:b/i@1.0.0", i(&[("f", f0.clone())])),
        from_spec("i@1.2.0{g}", "a:b/i@1.2.0", i(&[("g", f0.clone())])),
        from_spec("i{f}", "a:b/i", i(&[("f", f0.clone())])),
        from_spec("i{g}", "a:b/i", i(&[("g", f0.clone())])),
        from_spec("i@0.0.1{f}", "a:b/i@0.0.1", i(&[("f", f0.clone())])),
        from_spec("i@1.0.0-rc.1{f}", "a:b/i@1.0.0-rc.1", i(&[("f", f0.clone())])),
        from_spec("x:F0", "x", f0.clone()),
        from_spec("x:F1", "x", f1.clone()),
        from_spec("i@0.2.1 as func", "a:b/i@0.2.1", f0.clone()),
        from_spec("i@1.1.0{f,n{x}}", "a:b/i@1.1.0", i(&[("f", f0.clone()), ("n", i(&[("x", f0.clone())]))])),
        from_spec("i@0.2.5{g}", "a:b/i@0.2.5", i(&[("g", f0.clone())])),
        from_spec("i@0.20.1{f}", "a:b/i@0.20.1", i(&[("f", f0.clone())])),
        from_spec("i@10.2.0{g}", "a:b/i@10.2.0", i(&[("g", f0.clone())])),
        // multi-digit components on an existing track (numeric, not textual, order)
        from_spec("i@0.2.10{f}", "a:b/i@0.2.10", i(&[("f", f0.clone())])),
        from_spec("i@1.10.0{f}", "a:b/i@1.10.0", i(&[("f", f0.clone())])),
        // one type index shared by two exports (what a deduplicating encoder writes), and a
        // contributor that agrees on the first of them and conflicts on the second
        from_wat(
            "i@0.2.3{g,f} sharing one type index",
            "a:b/i@0.2.3",
            i(&[("g", f0.clone()), ("f", f0.clone())]),
            r#"(component (import "a:b/i@0.2.3" (instance (type $t (func)) (export "g" (func (type $t))) (export "f" (func (type $t))))))"#,
        ),
        from_spec("i@0.2.4{g,f:F1}", "a:b/i@0.2.4", i(&[("g", f0.clone()), ("f", f1.clone())])),
        // WIT-derived: interfaces that `use` types of other (merged) interfaces
        from_wit("wit j@1.0.0 uses i@0.2.0", &[("ab.wit", &ab("0.2.0")), ("cd.wit", &cd("1.0.0", "0.2.0"))], "w"),
        from_wit("wit j@1.1.0 uses i@0.2.1", &[("ab.wit", &ab("0.2.1")), ("cd.wit", &cd("1.1.0", "0.2.1"))], "w"),
        from_wit("wit j@1.2.0 uses i@0.3.0", &[("ab.wit", &ab("0.3.0")), ("cd.wit", &cd("1.2.0", "0.3.0"))], "w"),
        from_wit("wit j@1.0.1 uses i@0.2.0 {r,s}", &[("ab.wit", &ab("0.2.0")), ("cd.wit", &cd2("1.0.1", "0.2.0"))], "w"),
    ]
}

/// Reference merge on descriptors: Some(true) merges, Some(false) conflicts, None = silent.
fn reference(universe: &[Contributor], pick: &[usize]) -> (Option<bool>, BTreeMap<String, String>) {
    let mut groups: Vec<(String, Option<Ty>, bool)> = Vec::new(); // (highest name, merged, known)
    let mut verdict = Some(true);
    // name -> canonical name
    let mut members: Vec<(String, usize)> = Vec::new();
    for &c in pick {
        for (n, ty) in &universe[c].reqs {
            match groups.iter().position(|(g, _, _)| same_track(g, n)) {
                Some(gi) => {
                    let (g, t, known) = &mut groups[gi];
                    match (t.clone(), ty) {
                        (Some(cur), Some(ty)) if *known => match merge_ty(&cur, ty) {
                            Merge::Ok(m) => *t = Some(m),
                            Merge::Conflict => verdict = Some(false),
                            Merge::Unknown => {
                                *known = false;
                            }
                        },
                        _ => {
                            *known = false;
                        }
                    }
                    if version_triple(n) > version_triple(g) {
                        *g = n.clone();
                    }
                    members.push((n.clone(), gi));
                }
                None => {
                    groups.push((n.clone(), ty.clone(), ty.is_some()));
                    members.push((n.clone(), groups.len() - 1));
                }
            }
        }
    }
    // WIT-derived contributors: j@1.x using i@0.2.x vs i@0.3.0 is a conflict by the statement
    let wit: Vec<usize> = pick.iter().copied().filter(|c| universe[*c].label.starts_with("wit ")).collect();
    let uses_03 = wit.iter().any(|c| universe[*c].label.contains("uses i@0.3.0"));
    let uses_02 = wit.iter().any(|c| universe[*c].label.contains("uses i@0.2."));
    if uses_03 && uses_02 {
        verdict = Some(false);
    }
    if verdict == Some(true) && groups.iter().any(|(_, _, known)| !*known) {
        // the model cannot rule a conflict in or out for opaque shapes, unless all opaque
        // members come from WIT packages known to be compatible (same record `r`, same funcs)
        let opaque_ok = groups.iter().filter(|(_, _, k)| !*k).all(|(g, _, _)| g.starts_with("c:d/j@") || g.starts_with("a:b/i@"));
        let mixes_spec_and_wit = pick.iter().any(|c| !universe[*c].label.starts_with("wit ")) && !wit.is_empty();
        if !opaque_ok || mixes_spec_and_wit {
            verdict = None;
        }
    }
    let canon: BTreeMap<String, String> = members.into_iter().map(|(n, gi)| (n, groups[gi].0.clone())).collect();
    (verdict, canon)
}

type RunOut = Result<(Vec<(String, String)>, BTreeMap<String, String>), String>;

/// Aggregates the contributors in the given order; returns (imports as (name, canon), redirects).
fn run_order(universe: &[Contributor], order: &[usize]) -> Result<RunOut, String> {
    catch(|| {
        let mut cache = HashSet::new();
        let mut checker = SubtypeChecker::new(&mut cache);
        let mut agg = TypeAggregator::default();
        for &c in order {
            let u = &universe[c];
            for ((name, _), kind) in u.reqs.iter().zip(&u.kinds) {
                agg = agg.aggregate(name, &u.types, *kind, &mut checker).map_err(|e| format!("{e:#}"))?;
            }
        }
        // every contributor is satisfied by the merged type
        for &c in order {
            let u = &universe[c];
            for ((name, _), kind) in u.reqs.iter().zip(&u.kinds) {
                let canonical = agg.canonical_import_name(name).to_string();
                let merged = agg.imports().find(|(n, _)| *n == canonical).map(|(_, k)| k);
                let Some(merged) = merged else {
                    return Err(format!("!oracle:missing-import:requirement `{name}` (canonical `{canonical}`) has no import in the aggregator"));
                };
                let mut c2 = HashSet::new();
                if let Err(e) = SubtypeChecker::new(&mut c2).is_subtype(merged, agg.types(), *kind, &u.types) {
                    return Err(format!("!oracle:not-satisfied:merged `{canonical}` does not satisfy contributor {} requirement `{name}`: {e:#}", u.label));
                }
            }
        }
        // idempotence
        let before: Vec<(String, String)> = agg.imports().map(|(n, k)| (n.to_string(), canon_kind(agg.types(), k))).collect();
        for &c in order {
            let u = &universe[c];
            for ((name, _), kind) in u.reqs.iter().zip(&u.kinds) {
                agg = agg.aggregate(name, &u.types, *kind, &mut checker).map_err(|e| format!("!oracle:idempotence-error:{e:#}"))?;
            }
        }
        let after: Vec<(String, String)> = agg.imports().map(|(n, k)| (n.to_string(), canon_kind(agg.types(), k))).collect();
        if before != after {
            return Err(format!("!oracle:not-idempotent:aggregating the contributors again changed the imports from {before:?} to {after:?}"));
        }
        let mut redirects = BTreeMap::new();
        for &c in order {
            for (name, _) in &universe[c].reqs {
                redirects.insert(name.clone(), agg.canonical_import_name(name).to_string());
            }
        }
        Ok((after, redirects))
    })
}

fn permutations(items: &[usize]) -> Vec<Vec<usize>> {
    if items.len() <= 1 {
        return vec![items.to_vec()];
    }
    let mut out = BTreeSet::new();
    for i in 0..items.len() {
        let mut rest = items.to_vec();
        let x = rest.remove(i);
        for mut p in permutations(&rest) {
            p.insert(0, x);
            out.insert(p);
        }
    }
    out.into_iter().collect()
}

fn multisets(n: usize, k: usize) -> Vec<Vec<usize>> {
    fn rec(n: usize, k: usize, start: usize, cur: &mut Vec<usize>, out: &mut Vec<Vec<usize>>) {
        if cur.len() == k {
            out.push(cur.clone());
            return;
        }
        for i in start..n {
            cur.push(i);
            rec(n, k, i, cur, out);
            cur.pop();
        }
    }
    let mut out = Vec::new();
    rec(n, k, 0, &mut Vec::new(), &mut out);
    out
}

struct CaseOut {
    viols: Vec<(String, String, Vec<usize>)>,
    runs: u64,
    merged_ok: bool,
    unspecified: bool,
}

fn check_multiset(universe: &[Contributor], pick: &[usize]) -> CaseOut {
    let (want, canon) = reference(universe, pick);
    let mut out = CaseOut { viols: vec![], runs: 0, merged_ok: false, unspecified: want.is_none() };
    let labels = |o: &[usize]| o.iter().map(|c| universe[*c].label.clone()).collect::<Vec<_>>();
    let mut first: Option<(Vec<usize>, Result<(BTreeMap<String, String>, BTreeMap<String, String>), ()>)> = None;
    for order in permutations(pick) {
        out.runs += 1;
        let res = match run_order(universe, &order) {
            Err(p) => {
                out.viols.push((format!("C09/panic/{}", panic_site(&p)), format!("aggregating {:?} panicked: {p}", labels(&order)), order.clone()));
                continue;
            }
            Ok(r) => r,
        };
        let summary = match &res {
            Ok((imports, redirects)) => {
                out.merged_ok = true;
                Ok((imports.iter().cloned().collect::<BTreeMap<_, _>>(), redirects.clone()))
            }
            Err(e) if e.starts_with("!oracle:") => {
                let rest = &e["!oracle:".len()..];
                let (class, msg) = rest.split_once(':').unwrap();
                out.viols.push((format!("C09/{class}"), format!("{msg} (order {:?})", labels(&order)), order.clone()));
                continue;
            }
            Err(_) => Err(()),
        };
        // verdict against the reference
        match (want, &res) {
            (Some(true), Err(e)) => out.viols.push((
                "C09/verdict/rejects-compatible".into(),
                format!("aggregating {:?} failed ({e}); the reference merge succeeds", labels(&order)),
                order.clone(),
            )),
            (Some(false), Ok(_)) => out.viols.push((
                "C09/verdict/accepts-conflicting".into(),
                format!("aggregating {:?} succeeded; the reference merge reports a conflict", labels(&order)),
                order.clone(),
            )),
            _ => {}
        }
        // canonical names
        if let Ok((imports, redirects)) = &summary {
            let want_names: BTreeSet<&String> = canon.values().collect();
            let got_names: BTreeSet<&String> = imports.keys().collect();
            if want_names != got_names {
                out.viols.push((
                    "C09/canonical-names".into(),
                    format!("imports {got_names:?} after {:?}; highest version per track is {want_names:?}", labels(&order)),
                    order.clone(),
                ));
            }
            for (n, c) in &canon {
                if redirects.get(n) != Some(c) {
                    out.viols.push((
                        "C09/redirect".into(),
                        format!("canonical_import_name({n}) = {:?}, expected {c} (order {:?})", redirects.get(n), labels(&order)),
                        order.clone(),
                    ));
                }
            }
        }
        // order independence
        match &first {
            None => first = Some((order.clone(), summary)),
            Some((o1, s1)) => {
                if *s1 != summary {
                    let class = match (s1, &summary) {
                        (Ok(_), Ok(_)) => "result-differs",
                        _ => "verdict-differs",
                    };
                    out.viols.push((
                        format!("C09/order-dependent/{class}"),
                        format!("order {:?} gives {:?}; order {:?} gives {:?}", labels(o1), s1, labels(&order), summary),
                        order.clone(),
                    ));
                }
            }
        }
    }
    out
}

pub fn run(args: &[String]) {
    let mut ctx = Ctx::new("C09", "model_checking", args);
    let universe = universe();
    if let Some(case) = ctx.replay_case().cloned() {
        let pick: Vec<usize> = serde_json::from_value(case["multiset"].clone()).unwrap_or_else(|e| mc_core::machinery_error(&format!("bad case: {e}")));
        let out = check_multiset(&universe, &pick);
        for (fp, what, order) in out.viols {
            ctx.violation(fp, what, json!({"multiset": pick, "order": order}));
        }
        ctx.finish(Map::new(), vec![]);
    }
    let tier = ctx.tier();
    let max_k = tier.pick(5, 5) /* the thorough bound takes < 10 s: both tiers run it */;
    let mut cases: Vec<Vec<usize>> = Vec::new();
    for k in 2..=max_k {
        cases.extend(multisets(universe.len(), k));
    }
    let outs: Vec<(Vec<usize>, CaseOut)> = cases.par_iter().map(|pick| (pick.clone(), check_multiset(&universe, pick))).collect();
    let mut runs = 0u64;
    let mut merged = 0u64;
    let mut conflicts = 0u64;
    let mut unspecified = 0u64;
    let mut samples = Samples::new(3);
    for (pick, out) in outs {
        runs += out.runs;
        if out.unspecified {
            unspecified += 1;
        }
        if out.merged_ok {
            merged += 1;
            if pick.len() == 3 && pick[0] != pick[1] {
                samples.offer(|| json!({"contributors": pick.iter().map(|c| universe[*c].label.clone()).collect::<Vec<_>>(), "merges": true}));
            }
        } else {
            conflicts += 1;
        }
        let labels: Vec<String> = pick.iter().map(|c| universe[*c].label.clone()).collect();
        for (fp, what, order) in out.viols {
            ctx.violation(fp, what, json!({"multiset": pick, "labels": labels, "order": order}));
        }
    }
    let mut cov = Map::new();
    cov.insert("states".into(), json!(cases.len()));
    cov.insert("transitions".into(), json!(runs));
    cov.insert("traces_validated_against_impl".into(), json!(runs));
    cov.insert("samples".into(), json!(samples.items));
    cov.insert("exhaustive".into(), json!(true));
    cov.insert("contributor_universe".into(), json!(universe.iter().map(|c| c.label.clone()).collect::<Vec<_>>()));
    cov.insert("multiset_sizes".into(), json!([2, max_k]));
    cov.insert("multisets".into(), json!(cases.len()));
    cov.insert("ordered_runs".into(), json!(runs));
    cov.insert("multisets_that_merge".into(), json!(merged));
    cov.insert("multisets_that_conflict".into(), json!(conflicts));
    cov.insert("unspecified_cases".into(), json!(unspecified));
    cov.insert("evaluations".into(), json!(runs));
    cov.insert("distinct_nontrivial".into(), json!(merged));
    cov.insert(
        "rule".into(),
        json!("every multiset of contributors (each decoded into its own Types collection) of the stated sizes and every permutation of it is aggregated on the real TypeAggregator; states = multisets, transitions = ordered runs; checked per run: verdict vs reference merge, canonical = highest version per track with lower names redirected, merged type satisfies every contributor (fresh SubtypeChecker), idempotence, and per multiset: identical verdict, names and canonical types for all permutations"),
    );
    ctx.finish(
        cov,
        vec![
            "reference merge = DESIGN.md A.3 on the generator's descriptors; for WIT-derived contributors the model knows only names and the stated compatibility of the used interface versions".into(),
            "satisfaction is decided with wac's own SubtypeChecker, whose agreement with the reference validator is C07".into(),
        ],
    );
}
