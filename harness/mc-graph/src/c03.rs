//! C03 — output imports/exports are exactly those implied; implicit imports are shared;
//! the interface does not depend on creation order of independent nodes.

use crate::c06::{classify_names, coverage};
use crate::e1::*;
use crate::lib_spec::{PkgSpec, Ty};
use crate::refgraph::*;
use crate::wiring::{implied_interface, track_key, wiring_and_interface_check};
use mc_core::e2::decode;
use mc_core::{Ctx, Tier};
use serde_json::{json, Map};
use std::collections::BTreeMap;
use std::sync::Mutex;

pub fn library() -> Vec<PkgSpec> {
    let f0 = Ty::func0();
    let fp = Ty::func(&[("p", "u32")], None);
    let i = |names: &[&str]| Ty::Inst(names.iter().map(|n| (n.to_string(), f0.clone())).collect());
    let o = [("o", f0.clone())];
    vec![
        PkgSpec::new("t:v020", None, &[("a:b/i@0.2.0", i(&["f"]))], &o),
        PkgSpec::new("t:v021", None, &[("a:b/i@0.2.1", i(&["f", "g"]))], &o),
        PkgSpec::new("t:v030", None, &[("a:b/i@0.3.0", i(&["f"]))], &o),
        PkgSpec::new("t:v100", None, &[("a:b/i@1.0.0", i(&["f"])), ("x", f0.clone())], &o),
        PkgSpec::new("t:v120", None, &[("a:b/i@1.2.0", i(&["f", "h"])), ("x", fp.clone())], &o),
        PkgSpec::new("t:unv", None, &[("a:b/i", i(&["f"])), ("x", f0.clone())], &o),
        PkgSpec::new("t:v001", None, &[("a:b/i@0.0.1", i(&["f"]))], &o),
        PkgSpec::new("t:vrc", None, &[("a:b/i@1.0.0-rc.1", i(&["f"]))], &o),
        // conflicting definition of f on the 0.2 track
        PkgSpec::new("t:v022bad", None, &[("a:b/i@0.2.2", Ty::inst(&[("f", fp.clone())]))], &o),
        // tracks whose textual key is a prefix of another track's (0.2 / 0.20, 1 / 10)
        PkgSpec::new("t:v0201", None, &[("a:b/i@0.20.1", i(&["f"]))], &o),
        PkgSpec::new("t:v1020", None, &[("a:b/i@10.2.0", i(&["f"]))], &o),
        // multi-digit patch on the 0.2 track
        PkgSpec::new("t:v0210", None, &[("a:b/i@0.2.10", i(&["f"]))], &o),
        // provider of a 1.x interface, for satisfied slots
        PkgSpec::new("t:prov", None, &[], &[("a:b/i@1.3.0", i(&["f", "h"]))]),
    ]
}

/// LibDep: interfaces that `use` types of other interfaces, in two versions on one semver
/// track, so that an import's type depends on another import ("and the interfaces those
/// types depend on").
pub fn lib_dep_wit(version: &str, extra_in_t: &str) -> String {
    format!(
        r#"
package a:b@{version};

interface t {{
  record rec {{ a: u32 }}
  enum en {{ p, q }}
  f: func() -> rec;
  {extra_in_t}
}}

interface j {{
  use t.{{rec}};
  record jr {{ r: rec }}
  g: func(r: rec) -> jr;
}}

interface k {{
  use t.{{en}};
  use j.{{rec, jr}};
  h: func(e: en, r: rec, x: jr);
}}

world wt {{ import t; export o: func(); }}
world wj {{ import j; export o: func(); }}
world wk {{ import k; export o: func(); }}
world prov {{ export t; }}
world provj {{ import t; export j; }}
"#
    )
}

pub fn lib_dep() -> Vec<PkgSpec> {
    use mc_core::libs::component_from_wit;
    let w0 = lib_dep_wit("0.2.0", "");
    let w1 = lib_dep_wit("0.2.1", "f2: func(e: en) -> en;");
    let mk = |wit: &str, world: &str| component_from_wit(&[("d.wit", wit)], world).unwrap_or_else(|e| panic!("LibDep {world}: {e:?}"));
    vec![
        PkgSpec::from_component("d:wt0", None, mk(&w0, "wt")),
        PkgSpec::from_component("d:wj0", None, mk(&w0, "wj")),
        PkgSpec::from_component("d:wk0", None, mk(&w0, "wk")),
        PkgSpec::from_component("d:wt1", None, mk(&w1, "wt")),
        PkgSpec::from_component("d:wj1", None, mk(&w1, "wj")),
        PkgSpec::from_component("d:prov0", None, mk(&w0, "prov")),
        PkgSpec::from_component("d:provj1", None, mk(&w1, "provj")),
    ]
}

pub fn universe(prop: &'static str, tier: Tier) -> Universe {
    let mut u = Universe::build(prop, library());
    u.add_import_kind_from_import(1, "a:b/i@0.2.1");
    u.add_import_kind_from_import(3, "x");
    let s = |v: &[&str]| v.iter().map(|x| x.to_string()).collect::<Vec<_>>();
    u.alias_names = s(&["o", "a:b/i@1.3.0"]);
    u.import_names = s(&["a:b/i@0.2.1", "x", "y"]);
    u.export_names = s(&["e1", "o"]);
    u.arg_names = s(&["a:b/i@1.0.0", "a:b/i@1.2.0", "a:b/i@0.2.0", "x"]);
    u.node_names = vec![];
    u.define_names = vec![];
    u.names = classify_names(&["o", "a:b/i@1.3.0", "a:b/i@0.2.1", "x", "y", "e1"]);
    u.max_nodes = tier.pick(5, 6);
    u.max_pkgs = 13;
    u.ops = ["Instantiate", "Alias", "Import", "SetArg", "Export"].into_iter().collect();
    u
}

pub fn universe_dep(prop: &'static str, tier: Tier) -> Universe {
    let mut u = Universe::build(prop, lib_dep());
    u.add_import_kind_from_import(1, "a:b/j@0.2.0");
    let s = |v: &[&str]| v.iter().map(|x| x.to_string()).collect::<Vec<_>>();
    u.alias_names = s(&["a:b/t@0.2.0", "a:b/j@0.2.1", "o"]);
    u.import_names = s(&["a:b/j@0.2.0"]);
    u.export_names = s(&["e1"]);
    u.arg_names = s(&["a:b/t@0.2.0", "a:b/j@0.2.0", "a:b/k@0.2.0", "a:b/t@0.2.1", "a:b/j@0.2.1"]);
    u.node_names = vec![];
    u.define_names = vec![];
    u.names = classify_names(&["a:b/t@0.2.0", "a:b/j@0.2.0", "a:b/k@0.2.0", "a:b/t@0.2.1", "a:b/j@0.2.1", "o", "e1"]);
    u.dependency_imports = s(&["a:b/t@0.2.0", "a:b/j@0.2.0", "a:b/t@0.2.1", "a:b/j@0.2.1"]).into_iter().collect();
    u.max_nodes = tier.pick(5, 6);
    u.max_pkgs = 7;
    u.ops = ["Instantiate", "Alias", "Import", "SetArg", "Export"].into_iter().collect();
    u
}

pub fn seeds_dep() -> Vec<Vec<Op>> {
    let reg: Vec<Op> = (0..7).map(Op::Register).collect();
    let with = |ops: Vec<Op>| -> Vec<Op> { reg.iter().cloned().chain(ops).collect() };
    vec![
        with(vec![]),
        // a provider of t whose export is ready to satisfy a dependency while the dependant stays implicit
        with(vec![Op::Instantiate(5), Op::Alias(0, "a:b/t@0.2.0".into())]),
    ]
}

pub fn seeds() -> Vec<Vec<Op>> {
    let reg: Vec<Op> = (0..13).map(Op::Register).collect();
    let with = |ops: Vec<Op>| -> Vec<Op> { reg.iter().cloned().chain(ops).collect() };
    vec![
        with(vec![]),
        with(vec![Op::Instantiate(12)]),
        with(vec![Op::Instantiate(0), Op::Instantiate(3)]),
    ]
}

pub fn run(args: &[String]) {
    let mut ctx = Ctx::new("C03", "model_checking", args);
    if let Some(case) = ctx.replay_case().cloned() {
        let rt = if case["tier"] == "thorough" { Tier::Thorough } else { Tier::Quick };
        let u = if case["library"] == "LibDep" { universe_dep("C03", rt) } else { universe("C03", rt) };
        let ops: Vec<Op> = serde_json::from_value(case["ops"].clone()).unwrap_or_else(|e| mc_core::machinery_error(&format!("bad ops: {e}")));
        let (_, v) = replay_history(&u, &ops, Some(&wiring_and_interface_check));
        for (fp, what) in v {
            ctx.violation(fp, what, case.clone());
        }
        ctx.finish(Map::new(), vec![]);
    }
    let tier = ctx.tier();
    let u = universe("C03", tier);
    let depth = tier.pick(4, 5);

    // order-insensitive groups: canonical composition -> (interface signature, first history)
    let groups: Mutex<BTreeMap<String, (String, Vec<Op>)>> = Mutex::new(BTreeMap::new());
    let group_members: Mutex<BTreeMap<String, usize>> = Mutex::new(BTreeMap::new());
    let extra = |u: &Universe, st: &State, bytes: &[u8], define: bool| -> Vec<Viol> {
        let mut v = wiring_and_interface_check(u, st, bytes, define);
        if !v.is_empty() {
            return v;
        }
        // canonical, creation-order-free form of the composition
        let cx = u.cx();
        let m = &st.model;
        let mut insts: Vec<String> = Vec::new();
        for (i, n) in &m.nodes {
            if n.kind == RKind::Inst {
                let mut args: Vec<String> = Vec::new();
                for (slot, _) in &cx.pkgs[n.pkg.unwrap()].imports {
                    let a = match m.args.get(&(*i, slot.clone())) {
                        Some(src) => describe(m, *src),
                        None => "implicit".into(),
                    };
                    args.push(format!("{slot}={a}"));
                }
                insts.push(format!("inst({}:{})", n.pkg.unwrap(), args.join(",")));
            }
        }
        insts.sort();
        let exports: Vec<String> = m.exports.iter().map(|(n, id)| format!("{n}={}", describe(m, *id))).collect();
        let imports: Vec<String> = m.imports.iter().map(|(n, id)| format!("{n}:{:?}", m.nodes[id].item)).collect();
        let canon = format!("{}|{define}|{}|{}|{}", u.pkgs[0].name, insts.join(";"), exports.join(";"), imports.join(";"));
        let d = decode(bytes).expect("decoded above");
        let mut imp: Vec<String> = d.imports.iter().map(|(n, k)| format!("{n}:{k:?}:{}", d.import_types.get(n).cloned().unwrap_or_default())).collect();
        imp.sort();
        let mut exp: Vec<String> = d.exports.iter().map(|(n, k, _)| format!("{n}:{k:?}:{}", d.export_types.get(n).cloned().unwrap_or_default())).collect();
        exp.sort();
        let sig = format!("{imp:?} {exp:?}");
        *group_members.lock().unwrap().entry(canon.clone()).or_insert(0) += 1;
        let mut g = groups.lock().unwrap();
        match g.get(&canon) {
            None => {
                g.insert(canon, (sig, st.hist.clone()));
            }
            Some((prev, h)) => {
                if *prev != sig {
                    v.push((
                        format!("{}/interface/creation-order-dependent/{}", u.prop, if define { "embedded" } else { "imported" }),
                        format!("same composition built in another order ({h:?}) has interface {prev}; this order gives {sig}"),
                    ));
                }
            }
        }
        let _ = (implied_interface(u, m), track_key(""));
        v
    };
    fn describe(m: &Model, n: u32) -> String {
        let node = &m.nodes[&n];
        match &node.kind {
            RKind::Import(name) => format!("import({name})"),
            RKind::Alias => {
                let (src, e) = &m.alias_of[&n];
                format!("alias({},{e})", describe(m, *src))
            }
            RKind::Inst => {
                let mut args: Vec<String> = m.args.iter().filter(|((d, _), _)| *d == n).map(|((_, s), a)| format!("{s}={}", describe(m, *a))).collect();
                args.sort();
                format!("inst({}:{})", node.pkg.unwrap(), args.join(","))
            }
            RKind::Def(t) => format!("def({t})"),
        }
    }

    let (stats, found) = bfs(&u, &seeds(), depth, Some(&extra), tier.pick(2_000_000, 30_000_000), None);
    for f in found {
        let mut case = f.case;
        case["tier"] = json!(tier.as_str());
        ctx.violation(f.fingerprint, f.what, case);
    }
    // LibDep: imports whose types depend on other interfaces
    let ud = universe_dep("C03", tier);
    let depth_dep = tier.pick(5, 6);
    let t0 = std::time::Instant::now();
    let (stats_dep, found_dep) = bfs(&ud, &seeds_dep(), depth_dep, Some(&extra), tier.pick(2_000_000, 30_000_000), None);
    eprintln!("C03 LibDep: {} states, {} transitions, {:.1}s", stats_dep.states, stats_dep.transitions, t0.elapsed().as_secs_f64());
    for f in found_dep {
        let mut case = f.case;
        case["tier"] = json!(tier.as_str());
        case["library"] = json!("LibDep");
        ctx.violation(f.fingerprint.replacen("C03/", "C03/LibDep/", 1), f.what, case);
    }
    let mut cov = coverage(&u, &stats, depth, seeds().len());
    cov.insert("states".into(), json!(stats.states + stats_dep.states));
    cov.insert("transitions".into(), json!(stats.transitions + stats_dep.transitions));
    cov.insert("evaluations".into(), json!(stats.transitions + stats_dep.transitions));
    cov.insert("distinct_nontrivial".into(), json!(stats.states + stats_dep.states));
    cov.insert("traces_validated_against_impl".into(), json!(stats.replayed + stats_dep.replayed));
    cov.insert("exhaustive".into(), json!(!stats.cap_hit && !stats_dep.cap_hit));
    cov.insert(
        "libdep".into(),
        json!({"states": stats_dep.states, "transitions": stats_dep.transitions, "depth_bound": depth_dep, "depth_completed": stats_dep.depth_completed,
            "cap_hit": stats_dep.cap_hit, "encode_outcomes": stats_dep.encode_classes, "per_operation_counts": stats_dep.per_op, "unspecified_cases": stats_dep.unspecified,
            "packages": ud.pkgs.iter().map(|p| p.name.clone()).collect::<Vec<_>>(),
            "rule": "second BFS over WIT-derived packages whose imported interfaces `use` types of each other (t; j uses t; k uses t and j) in versions 0.2.0 and 0.2.1: besides the checks of the first library, every instance import's members must be the union its sharers need at a type one of them requires, every interface an imported type depends on must be imported, and no other import may appear"}),
    );
    let gm = group_members.lock().unwrap();
    cov.insert("order_insensitive_groups".into(), json!(gm.len()));
    cov.insert("groups_with_several_creation_orders".into(), json!(gm.values().filter(|n| **n > 1).count()));
    cov.insert("largest_group".into(), json!(gm.values().max().copied().unwrap_or(0)));
    ctx.finish(
        cov,
        vec![
            "the implied interface is computed from the reference model and the reference merge (DESIGN.md A.3)".into(),
            "no interface verdict when an explicit import shares a semver track with an implicit one under a different name (the statement does not say whether they are shared); such compositions must still encode validly or fail with a documented error".into(),
            "the sequence of imports is not compared (matching is by name); byte-level order for a fixed history is C16".into(),
        ],
    );
}
