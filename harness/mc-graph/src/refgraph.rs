//! Reference model of the composition-graph API (DESIGN.md A.1), written from the rustdoc
//! of the public methods and the statement of C06. Boring on purpose: maps and sets.

use crate::lib_spec::{PkgSpec, Tri, Ty};
use serde::{Deserialize, Serialize};
use std::collections::{BTreeMap, BTreeSet};

#[derive(Clone, Debug, PartialEq, Eq, PartialOrd, Ord, Hash, Serialize, Deserialize)]
pub enum Op {
    Register(usize),
    Unregister(usize),
    Instantiate(usize),
    Alias(u32, String),
    Import(String, usize),
    SetArg(u32, String, u32),
    UnsetArg(u32, String, u32),
    Export(u32, String),
    Unexport(u32),
    DefineType(String, usize),
    SetName(u32, String),
    Remove(u32),
}

impl Op {
    /// Node identifiers the operation refers to.
    pub fn node_refs(&self) -> Vec<u32> {
        match self {
            Op::Alias(i, _) | Op::Export(i, _) | Op::Unexport(i) | Op::SetName(i, _) | Op::Remove(i) => vec![*i],
            Op::SetArg(i, _, a) | Op::UnsetArg(i, _, a) => vec![*i, *a],
            Op::Register(_) | Op::Unregister(_) | Op::Instantiate(_) | Op::Import(..) | Op::DefineType(..) => vec![],
        }
    }

    pub fn kind(&self) -> &'static str {
        match self {
            Op::Register(_) => "Register",
            Op::Unregister(_) => "Unregister",
            Op::Instantiate(_) => "Instantiate",
            Op::Alias(..) => "Alias",
            Op::Import(..) => "Import",
            Op::SetArg(..) => "SetArg",
            Op::UnsetArg(..) => "UnsetArg",
            Op::Export(..) => "Export",
            Op::Unexport(_) => "Unexport",
            Op::DefineType(..) => "DefineType",
            Op::SetName(..) => "SetName",
            Op::Remove(_) => "Remove",
        }
    }
}

/// Static description of a definable type of the universe.
#[derive(Clone, Debug)]
pub struct DefTypeSpec {
    pub label: &'static str,
    pub is_resource: bool,
    /// indexes of universe types whose definition node gets a dependency edge to this one
    /// under the *direct* reading of "referenced defined types"
    pub refs_direct: Vec<usize>,
    /// same under the transitive reading; where the two differ the model is silent
    pub refs_transitive: Vec<usize>,
}

/// Name tables (validity is tabulated, not re-implemented).
#[derive(Clone, Debug, Default)]
pub struct Names {
    pub valid_extern: BTreeSet<String>,
    /// valid as import names but not as export names (hash / url / dependency forms)
    pub import_only: BTreeSet<String>,
}

impl Names {
    pub fn import_ok(&self, n: &str) -> bool {
        self.valid_extern.contains(n) || self.import_only.contains(n)
    }
    pub fn export_ok(&self, n: &str) -> bool {
        self.valid_extern.contains(n)
    }
}

#[derive(Clone, Debug, PartialEq, Eq, Serialize)]
pub enum RKind {
    Def(usize),
    Import(String),
    Inst,
    Alias,
}

#[derive(Clone, Debug, PartialEq, Eq, Serialize)]
pub enum RItem {
    Ty(Ty),
    TypeDef(usize),
}

#[derive(Clone, Debug, PartialEq, Eq, Serialize)]
pub struct RNode {
    pub kind: RKind,
    pub pkg: Option<usize>,
    pub item: RItem,
    pub name: Option<String>,
    pub exports: BTreeSet<String>,
}

#[derive(Clone, Debug, Default, PartialEq, Eq, Serialize)]
pub struct Model {
    pub nodes: BTreeMap<u32, RNode>,
    /// (instantiation, slot name) -> source node
    pub args: BTreeMap<(u32, String), u32>,
    /// alias node -> (instance node, export name)
    pub alias_of: BTreeMap<u32, (u32, String)>,
    /// (base definition, dependant definition)
    pub deps: BTreeSet<(u32, u32)>,
    pub exports: BTreeMap<String, u32>,
    pub imports: BTreeMap<String, u32>,
    pub defined: BTreeMap<usize, u32>,
    pub registered: BTreeSet<usize>,
}

pub struct ModelCtx<'a> {
    pub pkgs: &'a [PkgSpec],
    pub import_kinds: &'a [Ty],
    pub def_types: &'a [DefTypeSpec],
    pub names: &'a Names,
}

/// What the documentation admits for an operation in a state.
#[derive(Debug, Clone)]
pub struct Expect {
    /// admissible result classes ("Ok" or an error variant name)
    pub admissible: BTreeSet<&'static str>,
    /// for `Alias`: the already existing alias node that must be returned
    pub existing: Option<u32>,
    /// Ok is admissible but the resulting state is not specified (model silent)
    pub unspecified: bool,
}

fn set(v: &[&'static str]) -> BTreeSet<&'static str> {
    v.iter().copied().collect()
}

impl Model {
    pub fn instance_ty<'a>(&'a self, n: u32) -> Option<&'a Ty> {
        match &self.nodes.get(&n)?.item {
            RItem::Ty(t) if t.is_inst() => Some(t),
            _ => None,
        }
    }

    pub fn expect(&self, op: &Op, cx: &ModelCtx) -> Expect {
        let mut e = Expect { admissible: BTreeSet::new(), existing: None, unspecified: false };
        match op {
            Op::Register(p) => {
                e.admissible = if self.registered.contains(p) { set(&["PackageAlreadyRegistered"]) } else { set(&["Ok"]) };
            }
            Op::Unregister(_) | Op::Instantiate(_) | Op::SetName(..) | Op::Remove(_) => {
                e.admissible = set(&["Ok"]);
            }
            Op::Alias(n, name) => match self.instance_ty(*n) {
                None => e.admissible = set(&["NodeIsNotAnInstance"]),
                Some(t) => {
                    if t.export(name).is_none() {
                        e.admissible = set(&["InstanceMissingExport"]);
                    } else {
                        e.admissible = set(&["Ok"]);
                        e.existing = self
                            .alias_of
                            .iter()
                            .find(|(_, (src, ex))| src == n && ex == name)
                            .map(|(a, _)| *a);
                    }
                }
            },
            Op::Import(name, _) => {
                if self.imports.contains_key(name) {
                    e.admissible.insert("ImportAlreadyExists");
                }
                if !cx.names.import_ok(name) {
                    e.admissible.insert("InvalidImportName");
                }
                if e.admissible.is_empty() {
                    e.admissible.insert("Ok");
                }
            }
            Op::SetArg(i, slot, a) => {
                let node = &self.nodes[i];
                if node.kind != RKind::Inst {
                    e.admissible = set(&["NodeIsNotAnInstantiation"]);
                } else {
                    let pkg = &cx.pkgs[node.pkg.unwrap()];
                    match pkg.import(slot) {
                        None => e.admissible = set(&["InvalidArgumentName"]),
                        Some(want) => match self.args.get(&(*i, slot.clone())) {
                            Some(src) if src == a => e.admissible = set(&["Ok"]),
                            held => {
                                if held.is_some() {
                                    e.admissible.insert("ArgumentAlreadyPassed");
                                }
                                let compatible = match &self.nodes[a].item {
                                    RItem::Ty(t) => t.subtype(want),
                                    RItem::TypeDef(_) => Tri::No,
                                };
                                if compatible != Tri::Yes {
                                    e.admissible.insert("ArgumentTypeMismatch");
                                }
                                if e.admissible.is_empty() || (compatible == Tri::Unknown && held.is_none()) {
                                    e.admissible.insert("Ok");
                                }
                            }
                        },
                    }
                }
            }
            Op::UnsetArg(i, slot, _) => {
                let node = &self.nodes[i];
                if node.kind != RKind::Inst {
                    e.admissible = set(&["NodeIsNotAnInstantiation"]);
                } else if cx.pkgs[node.pkg.unwrap()].import(slot).is_none() {
                    e.admissible = set(&["InvalidArgumentName"]);
                } else {
                    e.admissible = set(&["Ok"]);
                }
            }
            Op::Export(_, name) => {
                if self.exports.contains_key(name) {
                    e.admissible.insert("ExportAlreadyExists");
                }
                if !cx.names.export_ok(name) {
                    e.admissible.insert("InvalidExportName");
                }
                if e.admissible.is_empty() {
                    e.admissible.insert("Ok");
                }
            }
            Op::Unexport(n) => {
                e.admissible =
                    if matches!(self.nodes[n].kind, RKind::Def(_)) { set(&["MustExportDefinition"]) } else { set(&["Ok"]) };
            }
            Op::DefineType(name, t) => {
                if self.defined.contains_key(t) {
                    e.admissible.insert("TypeAlreadyDefined");
                }
                if cx.def_types[*t].is_resource {
                    e.admissible.insert("CannotDefineResource");
                }
                if self.exports.contains_key(name) {
                    e.admissible.insert("ExportConflict");
                }
                if !cx.names.export_ok(name) && !cx.names.import_only.contains(name) {
                    e.admissible.insert("InvalidExternName");
                }
                if e.admissible.is_empty() {
                    e.admissible.insert("Ok");
                    if cx.names.import_only.contains(name) {
                        // define_type documents "a valid extern name"; whether hash/url forms
                        // (valid extern names that may not be exported) are accepted is not said
                        e.admissible.insert("InvalidExternName");
                    }
                }
            }
        }
        e
    }

    /// Whether removing `n` has a documented outcome: it has not when a dependant would be
    /// removed under only one of the two readings of "referenced defined types".
    pub fn removal_specified(&self, n: u32, cx: &ModelCtx) -> bool {
        let mut stack = vec![n];
        let mut seen = BTreeSet::new();
        while let Some(x) = stack.pop() {
            if !seen.insert(x) {
                continue;
            }
            if let RKind::Def(t) = self.nodes[&x].kind {
                for (u, node) in &self.defined {
                    let spec = &cx.def_types[*u];
                    let direct = spec.refs_direct.contains(&t);
                    let trans = spec.refs_transitive.contains(&t);
                    if direct != trans {
                        return false;
                    }
                    if direct {
                        stack.push(*node);
                    }
                }
            }
            for (a, (src, _)) in &self.alias_of {
                if *src == x {
                    stack.push(*a);
                }
            }
        }
        true
    }

    fn remove_rec(&mut self, n: u32, removed: &mut Vec<u32>) {
        if !self.nodes.contains_key(&n) {
            return;
        }
        let dependants: Vec<u32> = self
            .alias_of
            .iter()
            .filter(|(_, (src, _))| *src == n)
            .map(|(a, _)| *a)
            .chain(self.deps.iter().filter(|(b, _)| *b == n).map(|(_, d)| *d))
            .collect();
        for d in dependants {
            self.remove_rec(d, removed);
        }
        let node = self.nodes.remove(&n).unwrap();
        removed.push(n);
        self.args.retain(|(dst, _), src| *dst != n && *src != n);
        self.alias_of.remove(&n);
        self.deps.retain(|(a, b)| *a != n && *b != n);
        for x in &node.exports {
            self.exports.remove(x);
        }
        if let RKind::Import(name) = &node.kind {
            self.imports.remove(name);
        }
        if let RKind::Def(t) = node.kind {
            self.defined.remove(&t);
        }
    }

    /// Applies an operation that returned Ok. `new_id` is the identifier the implementation
    /// returned for node-creating operations.
    pub fn commit(&mut self, op: &Op, new_id: Option<u32>, cx: &ModelCtx) -> Vec<u32> {
        let mut removed = Vec::new();
        match op {
            Op::Register(p) => {
                self.registered.insert(*p);
            }
            Op::Unregister(p) => {
                let victims: Vec<u32> = self.nodes.iter().filter(|(_, n)| n.pkg == Some(*p)).map(|(i, _)| *i).collect();
                for v in victims {
                    self.remove_rec(v, &mut removed);
                }
                self.registered.remove(p);
            }
            Op::Instantiate(p) => {
                self.nodes.insert(
                    new_id.unwrap(),
                    RNode {
                        kind: RKind::Inst,
                        pkg: Some(*p),
                        item: RItem::Ty(cx.pkgs[*p].instance_ty()),
                        name: None,
                        exports: BTreeSet::new(),
                    },
                );
            }
            Op::Alias(n, name) => {
                let id = new_id.unwrap();
                if !self.nodes.contains_key(&id) {
                    let ty = self.instance_ty(*n).unwrap().export(name).unwrap().clone();
                    let pkg = self.nodes[n].pkg;
                    self.nodes.insert(
                        id,
                        RNode { kind: RKind::Alias, pkg, item: RItem::Ty(ty), name: None, exports: BTreeSet::new() },
                    );
                    self.alias_of.insert(id, (*n, name.clone()));
                }
            }
            Op::Import(name, k) => {
                let id = new_id.unwrap();
                self.nodes.insert(
                    id,
                    RNode {
                        kind: RKind::Import(name.clone()),
                        pkg: None,
                        item: RItem::Ty(cx.import_kinds[*k].clone()),
                        name: None,
                        exports: BTreeSet::new(),
                    },
                );
                self.imports.insert(name.clone(), id);
            }
            Op::SetArg(i, slot, a) => {
                self.args.insert((*i, slot.clone()), *a);
            }
            Op::UnsetArg(i, slot, a) => {
                if self.args.get(&(*i, slot.clone())) == Some(a) {
                    self.args.remove(&(*i, slot.clone()));
                }
            }
            Op::Export(n, name) => {
                self.exports.insert(name.clone(), *n);
                self.nodes.get_mut(n).unwrap().exports.insert(name.clone());
            }
            Op::Unexport(n) => {
                let names = std::mem::take(&mut self.nodes.get_mut(n).unwrap().exports);
                for x in names {
                    self.exports.remove(&x);
                }
            }
            Op::DefineType(name, t) => {
                let id = new_id.unwrap();
                self.nodes.insert(
                    id,
                    RNode {
                        kind: RKind::Def(*t),
                        pkg: None,
                        item: RItem::TypeDef(*t),
                        name: None,
                        exports: [name.clone()].into(),
                    },
                );
                self.exports.insert(name.clone(), id);
                for r in &cx.def_types[*t].refs_direct {
                    if let Some(b) = self.defined.get(r) {
                        self.deps.insert((*b, id));
                    }
                }
                for (u, node) in &self.defined {
                    if cx.def_types[*u].refs_direct.contains(t) {
                        self.deps.insert((id, *node));
                    }
                }
                self.defined.insert(*t, id);
            }
            Op::SetName(n, s) => {
                self.nodes.get_mut(n).unwrap().name = Some(s.clone());
            }
            Op::Remove(n) => {
                self.remove_rec(*n, &mut removed);
            }
        }
        removed
    }

    /// Unsatisfied (instantiation, slot name, required type) triples, in node order.
    pub fn unsatisfied<'a>(&'a self, cx: &'a ModelCtx) -> Vec<(u32, &'a str, &'a Ty)> {
        let mut out = Vec::new();
        for (i, n) in &self.nodes {
            if n.kind == RKind::Inst {
                for (slot, ty) in &cx.pkgs[n.pkg.unwrap()].imports {
                    if !self.args.contains_key(&(*i, slot.clone())) {
                        out.push((*i, slot.as_str(), ty));
                    }
                }
            }
        }
        out
    }

    pub fn has_cycle(&self) -> bool {
        let mut edges: BTreeMap<u32, Vec<u32>> = BTreeMap::new();
        for ((dst, _), src) in &self.args {
            edges.entry(*src).or_default().push(*dst);
        }
        for (a, (src, _)) in &self.alias_of {
            edges.entry(*src).or_default().push(*a);
        }
        for (b, d) in &self.deps {
            edges.entry(*b).or_default().push(*d);
        }
        // iterative colouring
        let mut colour: BTreeMap<u32, u8> = BTreeMap::new();
        for start in self.nodes.keys() {
            if colour.contains_key(start) {
                continue;
            }
            let mut stack = vec![(*start, 0usize)];
            colour.insert(*start, 1);
            while let Some((n, i)) = stack.pop() {
                let succ = edges.get(&n).cloned().unwrap_or_default();
                if i < succ.len() {
                    stack.push((n, i + 1));
                    let s = succ[i];
                    match colour.get(&s) {
                        Some(1) => return true,
                        Some(_) => {}
                        None => {
                            colour.insert(s, 1);
                            stack.push((s, 0));
                        }
                    }
                } else {
                    colour.insert(n, 2);
                }
            }
        }
        false
    }
}

/// Reference semver track of an extern name (same relation as C15's reference).
pub fn track(name: &str) -> Option<(String, u64, u64)> {
    let at = name.find('@')?;
    let (base, v) = (&name[..at], &name[at + 1..]);
    let core = v.split('+').next().unwrap();
    if core.contains('-') {
        return None;
    }
    let parts: Vec<&str> = core.split('.').collect();
    if parts.len() != 3 {
        return None;
    }
    let p: Vec<u64> = parts.iter().filter_map(|s| s.parse().ok()).collect();
    if p.len() != 3 {
        return None;
    }
    if p[0] > 0 {
        Some((base.to_string(), p[0], 0))
    } else if p[1] > 0 {
        Some((base.to_string(), 0, p[1]))
    } else {
        None
    }
}

pub fn version_triple(name: &str) -> Option<(u64, u64, u64)> {
    let at = name.find('@')?;
    let core = name[at + 1..].split(['+', '-']).next().unwrap();
    let p: Vec<u64> = core.split('.').filter_map(|s| s.parse().ok()).collect();
    (p.len() == 3).then(|| (p[0], p[1], p[2]))
}

pub fn same_track(a: &str, b: &str) -> bool {
    a == b || matches!((track(a), track(b)), (Some(x), Some(y)) if x == y)
}

#[derive(Debug, Clone, PartialEq)]
pub enum Merge {
    Ok(Ty),
    Conflict,
    /// the model cannot tell (opaque types from different sources)
    Unknown,
}

/// Reference merge of two requirement types (A.3).
pub fn merge_ty(a: &Ty, b: &Ty) -> Merge {
    match (a, b) {
        (Ty::Func(..), Ty::Func(..)) => {
            if a == b {
                Merge::Ok(a.clone())
            } else {
                Merge::Conflict
            }
        }
        (Ty::Inst(x), Ty::Inst(y)) => {
            let mut out = x.clone();
            let mut unknown = false;
            for (n, ty) in y {
                match out.iter_mut().find(|(m, _)| m == n) {
                    Some((_, tx)) => match merge_ty(tx, ty) {
                        Merge::Ok(t) => *tx = t,
                        Merge::Conflict => return Merge::Conflict,
                        Merge::Unknown => unknown = true,
                    },
                    None => out.push((n.clone(), ty.clone())),
                }
            }
            if unknown {
                Merge::Unknown
            } else {
                Merge::Ok(Ty::Inst(out))
            }
        }
        (Ty::Opaque(ka, ca), Ty::Opaque(kb, cb)) => {
            if ka != kb {
                Merge::Conflict
            } else if ca == cb {
                Merge::Ok(a.clone())
            } else {
                Merge::Unknown
            }
        }
        (Ty::Opaque(k, _), o) | (o, Ty::Opaque(k, _)) => {
            if k == o.kind_str() {
                Merge::Unknown
            } else {
                Merge::Conflict
            }
        }
        _ => Merge::Conflict,
    }
}
