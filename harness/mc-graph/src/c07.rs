//! C07 — argument type checking agrees with the component-model subtype relation.
//!
//! A small-scope type universe is generated as the imports `t0..tn` of ONE component, so
//! one `Package::from_bytes` gives wac's item kinds and one reference validation gives the
//! entity types (same validator, R2). All ordered pairs are compared; reflexivity across two
//! independent decodes, transitivity, and a BFS over memo contents follow.

use mc_core::{catch, panic_site, Ctx, Samples, Tier};
use rayon::prelude::*;
use serde_json::{json, Map, Value};
use std::collections::{BTreeMap, BTreeSet, HashSet};
use std::fmt::Write;
use wac_graph::types::{ItemKind, Package, SubtypeChecker, Types};
use wasmparser::component_types::ComponentEntityType;

pub struct Item {
    pub name: String,
    pub class: &'static str,
    pub desc: String,
    pub has_resource: bool,
    /// function over handles of one of two fixed imported resources: the resources are the same
    /// on both sides of every pair of this family, so only the structure is compared
    pub handles: bool,
}

pub struct UniverseWat {
    pub wat: String,
    pub items: Vec<Item>,
}

struct Gen {
    wat: String,
    items: Vec<Item>,
    n: usize,
    tier: Tier,
}

impl Gen {
    /// Adds `(type $dK <def>) (import "tK" (type $tK (eq $dK)))`; returns "$tK".
    fn ty(&mut self, class: &'static str, def: &str) -> String {
        let k = self.n;
        self.n += 1;
        writeln!(self.wat, "  (type $d{k} {def})").unwrap();
        writeln!(self.wat, "  (import \"t{k}\" (type $t{k} (eq $d{k})))").unwrap();
        self.items.push(Item { name: format!("t{k}"), class, desc: def.to_string(), has_resource: false, handles: false });
        format!("$t{k}")
    }
    fn alias(&mut self, class: &'static str, of: &str) -> String {
        let k = self.n;
        self.n += 1;
        writeln!(self.wat, "  (import \"t{k}\" (type $t{k} (eq {of})))").unwrap();
        self.items.push(Item { name: format!("t{k}"), class, desc: format!("alias of {of}"), has_resource: false, handles: false });
        format!("$t{k}")
    }
    fn item(&mut self, class: &'static str, decl: &str, has_resource: bool) {
        let k = self.n;
        self.n += 1;
        writeln!(self.wat, "  (import \"t{k}\" {decl})").unwrap();
        self.items.push(Item { name: format!("t{k}"), class, desc: decl.to_string(), has_resource, handles: false });
    }
}

pub fn build_universe(tier: Tier) -> UniverseWat {
    let mut g = Gen { wat: String::from("(component\n"), items: vec![], n: 0, tier };
    // both tiers build the full universe: the whole check takes well under a second
    let thorough = g.tier == Tier::Thorough || g.tier == Tier::Quick;
    let prims: &[&str] = if thorough {
        &["bool", "u8", "s8", "u16", "s16", "u32", "s32", "u64", "s64", "f32", "f64", "char", "string"]
    } else {
        &["bool", "u32", "s64", "f32", "char", "string"]
    };
    // depth 0: aliases of primitives
    let mut prim_items = Vec::new();
    for p in prims {
        prim_items.push(g.ty("prim-alias", p));
    }
    // depth 1 over two element types
    let elems: &[&str] = if thorough { &["u32", "string", "bool"] } else { &["u32", "string"] };
    let mut d1: Vec<String> = Vec::new();
    let mut recs: Vec<String> = Vec::new();
    for e in elems {
        d1.push(g.ty("list", &format!("(list {e})")));
        d1.push(g.ty("list-fixed", &format!("(list {e} 4)")));
        d1.push(g.ty("option", &format!("(option {e})")));
        d1.push(g.ty("tuple1", &format!("(tuple {e})")));
        d1.push(g.ty("result-ok", &format!("(result {e})")));
        d1.push(g.ty("result-err", &format!("(result (error {e}))")));
        recs.push(g.ty("record1", &format!("(record (field \"a\" {e}))")));
        recs.push(g.ty("record1-renamed", &format!("(record (field \"b\" {e}))")));
        d1.push(g.ty("variant-typed", &format!("(variant (case \"a\" {e}))")));
        d1.push(g.ty("variant-mixed", &format!("(variant (case \"a\") (case \"b\" {e}))")));
        d1.push(g.ty("future", &format!("(future {e})")));
        d1.push(g.ty("stream", &format!("(stream {e})")));
    }
    d1.push(g.ty("list-fixed", "(list u32 5)"));
    d1.push(g.ty("tuple2", "(tuple u32 string)"));
    d1.push(g.ty("tuple2", "(tuple string u32)"));
    d1.push(g.ty("result-none", "(result)"));
    d1.push(g.ty("result-both", "(result u32 (error string))"));
    d1.push(g.ty("result-both", "(result string (error u32))"));
    recs.push(g.ty("record2", "(record (field \"a\" u32) (field \"b\" string))"));
    recs.push(g.ty("record2-reordered", "(record (field \"b\" string) (field \"a\" u32))"));
    recs.push(g.ty("record2-retyped", "(record (field \"a\" string) (field \"b\" u32))"));
    d1.push(g.ty("variant-untyped", "(variant (case \"a\") (case \"b\"))"));
    d1.push(g.ty("variant-untyped", "(variant (case \"b\") (case \"a\"))"));
    d1.push(g.ty("variant-one", "(variant (case \"a\"))"));
    d1.push(g.ty("enum", "(enum \"a\" \"b\")"));
    d1.push(g.ty("enum", "(enum \"b\" \"a\")"));
    d1.push(g.ty("enum", "(enum \"a\")"));
    d1.push(g.ty("flags", "(flags \"a\" \"b\")"));
    d1.push(g.ty("flags", "(flags \"b\" \"a\")"));
    d1.push(g.ty("flags", "(flags \"a\")"));
    d1.push(g.ty("future-empty", "(future)"));
    d1.push(g.ty("stream-empty", "(stream)"));
    // duplicates: structurally equal, separately imported
    let rec_dup = g.ty("record1", "(record (field \"a\" u32))");
    let list_dup = g.ty("list", "(list u32)");
    // alias chains
    let a1 = g.alias("alias1", &recs[0]);
    let a2 = g.alias("alias2", &a1);
    let _ = g.alias("alias1", &d1[0]);
    let _ = g.alias("alias1", &prim_items[1]);
    // depth 2: constructors over imported depth-1 items
    let r0 = recs[0].clone();
    let l0 = d1[0].clone();
    let o0 = d1[2].clone();
    for inner in [&r0, &l0, &o0, &rec_dup, &a2] {
        g.ty("list-of", &format!("(list {inner})"));
        g.ty("option-of", &format!("(option {inner})"));
        if thorough {
            g.ty("tuple-of", &format!("(tuple {inner} u32)"));
            g.ty("result-of", &format!("(result {inner} (error {inner}))"));
            g.ty("variant-of", &format!("(variant (case \"a\" {inner}))"));
            g.ty("future-of", &format!("(future {inner})"));
        }
        g.ty("record-of", &format!("(record (field \"a\" {inner}))"));
    }
    // functions
    let fsigs: Vec<String> = vec![
        "".into(),
        "(param \"a\" u32)".into(),
        "(param \"b\" u32)".into(),
        "(param \"a\" string)".into(),
        "(param \"a\" u32) (param \"b\" string)".into(),
        "(param \"b\" string) (param \"a\" u32)".into(),
        "(param \"a\" string) (param \"b\" u32)".into(),
        "(result u32)".into(),
        "(result string)".into(),
        "(param \"a\" u32) (result u32)".into(),
        format!("(param \"a\" {r0})"),
        format!("(param \"a\" {rec_dup})"),
        format!("(param \"a\" {a2})"),
        format!("(param \"a\" {})", recs[1]),
        format!("(param \"a\" {l0})"),
        format!("(param \"a\" {list_dup})"),
        format!("(result {r0})"),
        format!("(result {o0})"),
    ];
    for s in &fsigs {
        g.item("func", &format!("(func {s})"), false);
    }
    for s in fsigs.iter().take(if thorough { 10 } else { 4 }) {
        g.item("func-async", &format!("(func async {s})"), false);
    }
    // instances: width and depth
    let f0 = "(func)";
    let f1 = "(func (param \"a\" u32))";
    let insts: Vec<String> = vec![
        "(instance)".into(),
        format!("(instance (export \"x\" {f0}))"),
        format!("(instance (export \"y\" {f0}))"),
        format!("(instance (export \"x\" {f0}) (export \"y\" {f0}))"),
        format!("(instance (export \"y\" {f0}) (export \"x\" {f0}))"),
        format!("(instance (export \"x\" {f1}))"),
        format!("(instance (export \"x\" {f1}) (export \"y\" {f0}))"),
        format!("(instance (export \"x\" (instance (export \"x\" {f0}))))"),
        format!("(instance (export \"x\" (instance (export \"x\" {f0}) (export \"y\" {f0}))))"),
        format!("(instance (export \"x\" (instance (export \"x\" {f1}))))"),
        format!("(instance (export \"x\" (instance)))"),
        format!("(instance (export \"t\" (type (eq {r0}))))"),
        format!("(instance (export \"t\" (type (eq {rec_dup}))))"),
        format!("(instance (export \"t\" (type (eq {l0}))))"),
        format!("(instance (export \"t\" (type (eq {r0}))) (export \"x\" {f0}))"),
    ];
    for i in &insts {
        g.item("instance", i, false);
    }
    // components: import and export subsets (contravariance)
    let comps: Vec<String> = vec![
        "(component)".into(),
        format!("(component (import \"x\" {f0}))"),
        format!("(component (import \"x\" {f1}))"),
        format!("(component (import \"x\" {f0}) (import \"z\" {f0}))"),
        format!("(component (export \"y\" {f0}))"),
        format!("(component (export \"y\" {f1}))"),
        format!("(component (export \"y\" {f0}) (export \"w\" {f0}))"),
        format!("(component (import \"x\" {f0}) (export \"y\" {f0}))"),
        format!("(component (import \"x\" {f0}) (import \"z\" {f0}) (export \"y\" {f0}))"),
        format!("(component (import \"x\" {f0}) (export \"y\" {f0}) (export \"w\" {f0}))"),
        format!("(component (import \"x\" (instance (export \"x\" {f0}))) (export \"y\" {f0}))"),
        format!("(component (import \"x\" (instance (export \"x\" {f0}) (export \"y\" {f0}))) (export \"y\" {f0}))"),
        format!("(component (import \"x\" (instance)) (export \"y\" {f0}))"),
    ];
    for c in &comps {
        g.item("component", c, false);
    }
    // items that SHARE type identifiers: one instance type referenced by an instance import and
    // inside a component import (contravariant position) - memo keys can then collide
    writeln!(g.wat, "  (type $shw (instance (export \"x\" (func)) (export \"y\" (func))))").unwrap();
    writeln!(g.wat, "  (type $shn (instance (export \"x\" (func))))").unwrap();
    g.item("shared-instance", "(instance (type $shw))", false);
    g.item("shared-instance", "(instance (type $shn))", false);
    g.item("shared-component", "(component (import \"x\" (instance (type $shw))) (export \"y\" (func)))", false);
    g.item("shared-component", "(component (import \"x\" (instance (type $shn))) (export \"y\" (func)))", false);
    g.item("shared-component", "(component (import \"x\" (func)) (export \"y\" (instance (type $shw))))", false);
    g.item("shared-component", "(component (import \"x\" (func)) (export \"y\" (instance (type $shn))))", false);
    // core modules
    let mods: Vec<&str> = vec![
        "(core module)",
        "(core module (export \"f\" (func)))",
        "(core module (export \"f\" (func (param i32))))",
        "(core module (export \"f\" (func)) (export \"g\" (func)))",
        "(core module (import \"e\" \"f\" (func)))",
        "(core module (import \"e\" \"f\" (func)) (import \"e\" \"g\" (func)))",
        "(core module (import \"e\" \"f\" (func (param i32))))",
        "(core module (import \"e\" \"mem\" (memory 0)))",
        "(core module (import \"e\" \"mem\" (memory 1)))",
        "(core module (import \"e\" \"mem\" (memory 2)))",
        "(core module (import \"e\" \"mem\" (memory 1 1)))",
        "(core module (import \"e\" \"mem\" (memory 1 2)))",
        "(core module (import \"e\" \"mem\" (memory 0 2)))",
        "(core module (import \"e\" \"mem\" (memory 1 2 shared)))",
        "(core module (import \"e\" \"mem\" (memory i64 1)))",
        "(core module (import \"e\" \"mem\" (memory 1 (pagesize 1))))",
        "(core module (export \"mem\" (memory 0)))",
        "(core module (export \"mem\" (memory 1)))",
        "(core module (export \"mem\" (memory 2)))",
        "(core module (export \"mem\" (memory 1 1)))",
        "(core module (export \"mem\" (memory 1 2)))",
        "(core module (export \"mem\" (memory 1 2 shared)))",
        "(core module (export \"mem\" (memory i64 1)))",
        "(core module (export \"mem\" (memory 1 (pagesize 1))))",
        "(core module (import \"e\" \"t\" (table 1 funcref)))",
        "(core module (import \"e\" \"t\" (table 2 funcref)))",
        "(core module (import \"e\" \"t\" (table 1 2 funcref)))",
        "(core module (import \"e\" \"t\" (table 1 externref)))",
        "(core module (import \"e\" \"t\" (table i64 1 funcref)))",
        "(core module (export \"t\" (table 1 funcref)))",
        "(core module (export \"t\" (table 2 funcref)))",
        "(core module (export \"t\" (table 1 2 funcref)))",
        "(core module (export \"t\" (table i64 1 funcref)))",
        "(core module (import \"e\" \"g\" (global i32)))",
        "(core module (import \"e\" \"g\" (global (mut i32))))",
        "(core module (import \"e\" \"g\" (global i64)))",
        "(core module (import \"e\" \"g\" (global (shared i32))))",
        "(core module (export \"g\" (global i32)))",
        "(core module (export \"g\" (global (mut i32))))",
        "(core module (export \"g\" (global (shared i32))))",
        "(core module (import \"e\" \"x\" (tag (param i32))))",
        "(core module (import \"e\" \"x\" (tag)))",
        "(core module (export \"x\" (tag (param i32))))",
        "(core module (export \"x\" (tag)))",
    ];
    for m in &mods {
        g.item("module", m, false);
    }
    // values (linear: each value import is exported again below)
    let vals = ["u32", "string", "bool"];
    let first_val = g.n;
    for v in vals {
        g.item("value", &format!("(value {v})"), false);
    }
    g.item("value", "(value u32)", false);
    let nvals = g.n - first_val;
    // resources (excluded from the all-pairs claim, kept for panics/reflexivity)
    g.item("resource", "(type (sub resource))", true);
    // functions over handles of two fixed resources: own vs borrow, which resource, position
    writeln!(g.wat, "  (import \"res-a\" (type $ra (sub resource)))\n  (import \"res-b\" (type $rb (sub resource)))").unwrap();
    for decl in [
        "(func (param \"a\" (own $ra)))",
        "(func (param \"a\" (borrow $ra)))",
        "(func (param \"a\" (own $rb)))",
        "(func (param \"a\" (borrow $rb)))",
        "(func (result (own $ra)))",
        "(func (result (own $rb)))",
        "(func (param \"a\" (own $ra)) (result (own $ra)))",
        "(func (param \"a\" (borrow $ra)) (result (own $ra)))",
        "(func (param \"a\" (own $ra)) (param \"b\" (borrow $rb)))",
        "(func (param \"a\" (own $rb)) (param \"b\" (borrow $ra)))",
    ] {
        g.item("func-over-handles", decl, true);
        g.items.last_mut().unwrap().handles = true;
    }
    for i in 0..nvals {
        writeln!(g.wat, "  (export \"v{i}\" (value {i}))").unwrap();
    }
    g.wat.push_str(")\n");
    UniverseWat { wat: g.wat, items: g.items }
}

pub struct Decoded {
    pub types: Types,
    pub kinds: Vec<ItemKind>,
}

fn decode(bytes: &[u8], items: &[Item]) -> Decoded {
    let mut types = Types::default();
    let pkg = Package::from_bytes("u:universe", None, bytes.to_vec(), &mut types).unwrap_or_else(|e| mc_core::machinery_error(&format!("wac cannot decode the type universe: {e:?}")));
    let world = &types[pkg.ty()];
    let kinds = items.iter().map(|i| *world.imports.get(&i.name).unwrap_or_else(|| mc_core::machinery_error(&format!("import {} missing after decode", i.name)))).collect();
    Decoded { types, kinds }
}

fn wac_subtype(a: ItemKind, at: &Types, b: ItemKind, bt: &Types, cache: &mut HashSet<(ItemKind, ItemKind)>) -> Result<bool, String> {
    catch(|| SubtypeChecker::new(cache).is_subtype(a, at, b, bt).is_ok())
}

pub fn run(args: &[String]) {
    let mut ctx = Ctx::new("C07", "model_checking", args);
    let tier = if let Some(case) = ctx.replay_case() {
        if case["tier"] == "thorough" {
            Tier::Thorough
        } else {
            Tier::Quick
        }
    } else {
        ctx.tier()
    };
    let u = build_universe(tier);
    let bytes = wat::parse_str(&u.wat).unwrap_or_else(|e| {
        let _ = std::fs::write("/tmp/c07-universe.wat", &u.wat);
        mc_core::machinery_error(&format!("type universe WAT does not parse (dumped to /tmp/c07-universe.wat): {e}"))
    });
    let ref_types = wasmparser::Validator::new_with_features(wasmparser::WasmFeatures::all())
        .validate_all(&bytes)
        .unwrap_or_else(|e| mc_core::machinery_error(&format!("type universe does not validate: {e}")));
    let tr = ref_types.as_ref();
    let ents: Vec<ComponentEntityType> = u.items.iter().map(|i| tr.component_entity_type_of_import(&i.name).expect("entity")).collect();
    let d1 = decode(&bytes, &u.items);
    let d2 = decode(&bytes, &u.items);
    let n = u.items.len();

    let check_pair = |i: usize, j: usize| -> (bool, Option<(String, String)>) {
        let mut want = ComponentEntityType::is_subtype_of(&ents[i], tr, &ents[j], tr);
        // Reference quirk (wasmparser 0.247 `SubtypeCx::table_type` compares element type,
        // shared flag and limits but not the index type): core import matching requires
        // equal table index types, so a table64 mismatch at the same extern is a mismatch.
        {
            let (a, b) = (&u.items[i].desc, &u.items[j].desc);
            let pos = |d: &str| if d.contains("(import \"e\" \"t\" (table") { 1 } else if d.contains("(export \"t\" (table") { 2 } else { 0 };
            if pos(a) != 0 && pos(a) == pos(b) && a.contains("(table i64") != b.contains("(table i64") {
                want = false;
            }
            // same for the `shared` flag of globals (component SubtypeCx compares only
            // mutability and content type)
            let gpos = |d: &str| if d.contains("(import \"e\" \"g\" (global") { 1 } else if d.contains("(export \"g\" (global") { 2 } else { 0 };
            if gpos(a) != 0 && gpos(a) == gpos(b) && a.contains("(shared ") != b.contains("(shared ") {
                want = false;
            }
        }
        let mut cache = HashSet::new();
        match wac_subtype(d1.kinds[i], &d1.types, d1.kinds[j], &d1.types, &mut cache) {
            Err(p) => (want, Some((format!("C07/pair/panic/{}", panic_site(&p)), format!("is_subtype({}, {}) panicked: {p}", u.items[i].desc, u.items[j].desc)))),
            Ok(got) if got != want => (
                want,
                Some((
                    format!(
                        "C07/pair/{}/{}-vs-{}",
                        if got { "accepts-non-subtype" } else { "rejects-subtype" },
                        u.items[i].class,
                        u.items[j].class
                    ),
                    format!("is_subtype({} : {}, {} : {}) = {got}; reference validator says {want}", u.items[i].name, u.items[i].desc, u.items[j].name, u.items[j].desc),
                )),
            ),
            Ok(_) => (want, None),
        }
    };

    if let Some(case) = ctx.replay_case().cloned() {
        if case["kind"] == "pair" {
            let (i, j) = (case["i"].as_u64().unwrap() as usize, case["j"].as_u64().unwrap() as usize);
            if let (_, Some((fp, what))) = check_pair(i, j) {
                ctx.violation(fp, what, case.clone());
            }
        } else {
            mc_core::machinery_error("C07 replay supports pair cases; rerun the check for memo/transitivity cases");
        }
        ctx.finish(Map::new(), vec![]);
    }

    // (1) all ordered pairs of resource-free items
    let idx: Vec<usize> = (0..n).filter(|i| !u.items[*i].has_resource).collect();
    let mut results: Vec<(usize, usize, bool, Option<(String, String)>)> = idx
        .par_iter()
        .flat_map_iter(|&i| {
            let idx = &idx;
            let check_pair = &check_pair;
            idx.iter().map(move |&j| {
                let (want, v) = check_pair(i, j);
                (i, j, want, v)
            })
        })
        .collect();
    // (1b) all ordered pairs inside the handle family (the same two resources on both sides)
    let hidx: Vec<usize> = (0..n).filter(|i| u.items[*i].handles).collect();
    for &i in &hidx {
        for &j in &hidx {
            let (want, v) = check_pair(i, j);
            results.push((i, j, want, v));
        }
    }
    let mut accepted: BTreeSet<(usize, usize)> = BTreeSet::new();
    let mut pairs = 0u64;
    let mut offdiag = 0u64;
    let mut samples = Samples::new(3);
    let mut by_class: BTreeMap<String, u64> = BTreeMap::new();
    for (i, j, want, v) in results {
        pairs += 1;
        if want {
            accepted.insert((i, j));
            if i != j {
                offdiag += 1;
                *by_class.entry(u.items[i].class.to_string()).or_default() += 1;
                if i + 7 < j {
                    samples.offer(|| json!({"sub": u.items[i].desc, "sup": u.items[j].desc, "subtype": true}));
                }
            }
        }
        if let Some((fp, what)) = v {
            ctx.violation(fp, what, json!({"kind": "pair", "tier": tier.as_str(), "i": i, "j": j, "a": u.items[i].desc, "b": u.items[j].desc}));
        }
    }

    // (2) reflexivity across two independent decodes (all items, resources included: names equal)
    let mut reflexive = 0u64;
    for i in 0..n {
        for (a, at, b, bt, dir) in [(d1.kinds[i], &d1.types, d2.kinds[i], &d2.types, "1<=2"), (d2.kinds[i], &d2.types, d1.kinds[i], &d1.types, "2<=1")] {
            reflexive += 1;
            let mut cache = HashSet::new();
            match wac_subtype(a, at, b, bt, &mut cache) {
                Ok(true) => {}
                Ok(false) => ctx.violation(
                    format!("C07/reflexivity/{}", u.items[i].class),
                    format!("{} is not a subtype of an independently decoded copy of itself ({dir})", u.items[i].desc),
                    json!({"kind": "reflexive", "i": i}),
                ),
                Err(p) => ctx.violation(format!("C07/reflexivity/panic/{}", panic_site(&p)), p, json!({"kind": "reflexive", "i": i})),
            }
        }
    }

    // (3) transitivity of wac's own verdicts over all chains
    let wac_acc: BTreeSet<(usize, usize)> = idx
        .par_iter()
        .flat_map_iter(|&i| {
            let idx = &idx;
            let d1 = &d1;
            idx.iter().filter_map(move |&j| {
                let mut cache = HashSet::new();
                matches!(wac_subtype(d1.kinds[i], &d1.types, d1.kinds[j], &d1.types, &mut cache), Ok(true)).then_some((i, j))
            })
        })
        .collect();
    let mut chains = 0u64;
    let mut succ: BTreeMap<usize, Vec<usize>> = BTreeMap::new();
    for (i, j) in &wac_acc {
        succ.entry(*i).or_default().push(*j);
    }
    for (i, js) in &succ {
        for j in js {
            if let Some(ks) = succ.get(j) {
                for k in ks {
                    chains += 1;
                    if !wac_acc.contains(&(*i, *k)) {
                        ctx.violation(
                            format!("C07/transitivity/{}", u.items[*i].class),
                            format!("{} <= {} and {} <= {} accepted but {} <= {} rejected", u.items[*i].desc, u.items[*j].desc, u.items[*j].desc, u.items[*k].desc, u.items[*i].desc, u.items[*k].desc),
                            json!({"kind": "chain", "i": i, "j": j, "k": k}),
                        );
                    }
                }
            }
        }
    }

    // (4) memo exploration: BFS over memo contents, shared-subterm family
    let pick = |class: &str, nth: usize| -> usize { u.items.iter().enumerate().filter(|(_, it)| it.class == class).map(|(i, _)| i).nth(nth).unwrap() };
    let fam_items: Vec<usize> = vec![
        pick("instance", 1),
        pick("instance", 3),
        pick("instance", 5),
        pick("instance", 7),
        pick("instance", 8),
        pick("component", 1),
        pick("component", 3),
        pick("component", 7),
        pick("component", 10),
        pick("component", 11),
        pick("func", 0),
        pick("func", 1),
        pick("shared-instance", 0),
        pick("shared-instance", 1),
        pick("shared-component", 0),
        pick("shared-component", 1),
        pick("shared-component", 2),
        pick("shared-component", 3),
    ];
    let family: Vec<(usize, usize)> = {
        let mut f = Vec::new();
        for &a in &fam_items {
            for &b in &fam_items {
                if u.items[a].class == u.items[b].class && a != b {
                    f.push((a, b));
                }
            }
        }
        // keep a fixed-size family that mixes accepted and rejected pairs
        let shared = |p: &(usize, usize)| u.items[p.0].class.starts_with("shared");
        let mut acc: Vec<_> = f.iter().copied().filter(|p| !shared(p) && accepted.contains(p)).take(4).collect();
        let rej: Vec<_> = f.iter().copied().filter(|p| !shared(p) && !accepted.contains(p)).take(4).collect();
        acc.extend(rej);
        // every ordered pair of the items that share type identifiers
        acc.extend(f.iter().copied().filter(shared));
        acc
    };
    let memo_depth = tier.pick(4, 4);
    let mut memo_states: BTreeSet<Vec<String>> = BTreeSet::new();
    let mut memo_transitions = 0u64;
    let mut memo_checks = 0u64;
    let canon_memo = |c: &HashSet<(ItemKind, ItemKind)>| -> Vec<String> {
        let mut v: Vec<String> = c.iter().map(|p| format!("{p:?}")).collect();
        v.sort();
        v
    };
    let mut frontier: Vec<(HashSet<(ItemKind, ItemKind)>, Vec<usize>)> = vec![(HashSet::new(), vec![])];
    memo_states.insert(vec![]);
    for _ in 0..memo_depth {
        let mut next = Vec::new();
        for (memo, hist) in &frontier {
            for (fi, (a, b)) in family.iter().enumerate() {
                memo_transitions += 1;
                let mut m = memo.clone();
                let got = wac_subtype(d1.kinds[*a], &d1.types, d1.kinds[*b], &d1.types, &mut m);
                let mut h = hist.clone();
                h.push(fi);
                let want = accepted.contains(&(*a, *b));
                if got != Ok(want) {
                    ctx.violation(
                        "C07/memo/verdict-changed-by-earlier-checks",
                        format!("after checks {h:?} of the family, is_subtype({}, {}) = {got:?}; memo-free verdict {want}", u.items[*a].desc, u.items[*b].desc),
                        json!({"kind": "memo", "family": family, "history": h}),
                    );
                    continue;
                }
                // in the new memo state every family pair keeps its verdict
                for (x, y) in &family {
                    memo_checks += 1;
                    let mut mm = m.clone();
                    let g2 = wac_subtype(d1.kinds[*x], &d1.types, d1.kinds[*y], &d1.types, &mut mm);
                    if g2 != Ok(accepted.contains(&(*x, *y))) {
                        ctx.violation(
                            "C07/memo/verdict-changed-by-earlier-checks",
                            format!("with the memo left by {h:?}, is_subtype({}, {}) = {g2:?}", u.items[*x].desc, u.items[*y].desc),
                            json!({"kind": "memo", "family": family, "history": h, "probe": [x, y]}),
                        );
                    }
                }
                if memo_states.insert(canon_memo(&m)) {
                    next.push((m, h));
                }
            }
        }
        frontier = next;
    }

    let mut cov = Map::new();
    cov.insert("states".into(), json!(memo_states.len()));
    cov.insert("transitions".into(), json!(memo_transitions));
    cov.insert("traces_validated_against_impl".into(), json!(memo_transitions));
    cov.insert("samples".into(), json!(samples.items));
    cov.insert("exhaustive".into(), json!(true));
    cov.insert("universe_items".into(), json!(n));
    cov.insert("items_by_class".into(), {
        let mut m: BTreeMap<&str, u64> = BTreeMap::new();
        for it in &u.items {
            *m.entry(it.class).or_default() += 1;
        }
        json!(m)
    });
    cov.insert("ordered_pairs_checked".into(), json!(pairs));
    cov.insert("reference_subtype_pairs_offdiagonal".into(), json!(offdiag));
    cov.insert("offdiagonal_subtypes_by_class".into(), json!(by_class));
    cov.insert("reflexivity_checks_across_decodes".into(), json!(reflexive));
    cov.insert("transitivity_chains".into(), json!(chains));
    cov.insert("memo_family_pairs".into(), json!(family.len()));
    cov.insert("memo_depth".into(), json!(memo_depth));
    cov.insert("memo_probe_checks".into(), json!(memo_checks));
    cov.insert("evaluations".into(), json!(pairs + reflexive + chains + memo_checks));
    cov.insert("distinct_nontrivial".into(), json!(offdiag + memo_states.len() as u64));
    cov.insert(
        "rule".into(),
        json!("all ordered pairs of the resource-free items of a generated type universe (every constructor to depth 2, renames, reorderings, arity, async, alias chains, instance width/depth, component import/export subsets, core module limits/flags/globals/tags, values) against wasmparser's is_subtype_of in one validator; BFS over memo contents (states = distinct memo sets) with every family pair re-probed in every memo state"),
    );
    let _: Value = json!(null);
    ctx.finish(
        cov,
        vec![
            "reference relation = wasmparser 0.247 ComponentEntityType::is_subtype_of with all features, corrected for one known quirk: it ignores the table index type (table64) and the `shared` flag of globals, which core import matching requires to be equal".into(),
            "resources take part only in reflexivity (the statement's all-pairs clause is for resource-free kinds); resourceful argument passing is exercised by C01's LibT".into(),
        ],
    );
}
