//! E1 — explicit-state BFS over the real `CompositionGraph`, stepped in lock-step with the
//! reference model (`refgraph`). Level-synchronous, deterministic (DESIGN.md R6).

use crate::lib_spec::{PkgSpec, Ty};
use crate::refgraph::*;
use mc_core::{catch, panic_site, sha256_hex};
use rayon::prelude::*;
use serde_json::{json, Value};
use std::collections::{BTreeMap, BTreeSet, HashSet};
use wac_graph::types::{ItemKind, Package, Type};
use wac_graph::{CompositionGraph, EncodeError, EncodeOptions, NodeId, NodeKind, PackageId};

pub struct Universe {
    pub prop: &'static str,
    pub pkgs: Vec<PkgSpec>,
    pub packages: Vec<Package>,
    pub base: CompositionGraph,
    pub import_kinds: Vec<Ty>,
    pub import_item_kinds: Vec<ItemKind>,
    pub def_types: Vec<DefTypeSpec>,
    pub def_type_ids: Vec<Type>,
    pub names: Names,
    pub alias_names: Vec<String>,
    pub import_names: Vec<String>,
    pub export_names: Vec<String>,
    pub arg_names: Vec<String>,
    pub node_names: Vec<String>,
    pub define_names: Vec<String>,
    pub max_nodes: usize,
    pub max_pkgs: usize,
    pub ops: BTreeSet<&'static str>,
    /// check queries / invariants / encoding in every state
    pub check_encode: bool,
    /// import names that exist only because other imported types depend on them
    pub dependency_imports: BTreeSet<String>,
    /// for each import kind: the interface id wac attaches to it (Some for instance kinds
    /// taken from a package import/export named like an interface)
    pub import_kind_iface_id: Vec<Option<String>>,
    /// for each import kind taken from a package import: (package, import name)
    pub import_kind_origin: Vec<Option<(usize, String)>>,
    /// (import name, kind) pairs not generated in-process because they are known to abort
    /// the process (stack overflow); they are run in supervised subprocesses instead
    pub isolated_imports: Vec<(String, usize)>,
    /// keep the history of every explored (non-violating) state in `Stats::histories`
    pub collect_histories: bool,
}

impl Universe {
    pub fn cx(&self) -> ModelCtx<'_> {
        ModelCtx { pkgs: &self.pkgs, import_kinds: &self.import_kinds, def_types: &self.def_types, names: &self.names }
    }

    /// Decodes the packages into a fresh graph's type collection.
    pub fn build(prop: &'static str, pkgs: Vec<PkgSpec>) -> Universe {
        let mut base = CompositionGraph::new();
        let mut packages = Vec::new();
        for p in &pkgs {
            let version = p.version.as_ref().map(|v| semver::Version::parse(v).unwrap());
            let pkg = Package::from_bytes(&p.name, version.as_ref(), p.to_bytes(), base.types_mut())
                .unwrap_or_else(|e| panic!("library package {} does not decode: {e:?}", p.name));
            // cross-check the description against the decoded world (names and kinds)
            let world = &base.types()[pkg.ty()];
            let got_i: Vec<_> = world.imports.keys().cloned().collect();
            let want_i: Vec<_> = p.imports.iter().map(|(n, _)| n.clone()).collect();
            assert_eq!(got_i, want_i, "imports of {}", p.name);
            let got_e: Vec<_> = world.exports.keys().cloned().collect();
            let want_e: Vec<_> = p.exports.iter().map(|(n, _)| n.clone()).collect();
            assert_eq!(got_e, want_e, "exports of {}", p.name);
            packages.push(pkg);
        }
        Universe {
            prop,
            pkgs,
            packages,
            base,
            import_kinds: vec![],
            import_item_kinds: vec![],
            def_types: vec![],
            def_type_ids: vec![],
            names: Names::default(),
            alias_names: vec![],
            import_names: vec![],
            export_names: vec![],
            arg_names: vec![],
            node_names: vec![],
            define_names: vec![],
            max_nodes: 4,
            max_pkgs: 2,
            ops: BTreeSet::new(),
            check_encode: true,
            dependency_imports: BTreeSet::new(),
            import_kind_iface_id: vec![],
            import_kind_origin: vec![],
            isolated_imports: vec![],
            collect_histories: false,
        }
    }

    /// Adds an import kind taken from import `name` of package `p`.
    pub fn add_import_kind_from_import(&mut self, p: usize, name: &str) {
        let world = &self.base.types()[self.packages[p].ty()];
        self.import_item_kinds.push(world.imports[name]);
        self.import_kinds.push(self.pkgs[p].import(name).unwrap().clone());
        self.import_kind_origin.push(Some((p, name.to_string())));
        self.import_kind_iface_id.push(match world.imports[name] {
            ItemKind::Instance(id) => self.base.types()[id].id.clone(),
            _ => None,
        });
    }
    pub fn add_import_kind_from_export(&mut self, p: usize, name: &str) {
        let world = &self.base.types()[self.packages[p].ty()];
        self.import_item_kinds.push(world.exports[name]);
        self.import_kinds.push(self.pkgs[p].exports.iter().find(|(n, _)| n == name).unwrap().1.clone());
        self.import_kind_origin.push(None);
        self.import_kind_iface_id.push(match world.exports[name] {
            ItemKind::Instance(id) => self.base.types()[id].id.clone(),
            _ => None,
        });
    }
}

#[derive(Clone)]
pub struct State {
    pub real: CompositionGraph,
    pub pids: BTreeMap<usize, PackageId>,
    pub model: Model,
    pub hist: Vec<Op>,
    pub seed: usize,
}

pub type Viol = (String, String); // (fingerprint, what)

fn node_index(id: NodeId) -> u32 {
    id.to_string().parse().unwrap()
}

pub fn id_table(g: &CompositionGraph) -> BTreeMap<u32, NodeId> {
    g.node_ids().map(|n| (node_index(n), n)).collect()
}

/// Applies `op` to the real graph. Returns (result class, new node index).
pub fn apply_real(
    u: &Universe,
    real: &mut CompositionGraph,
    pids: &mut BTreeMap<usize, PackageId>,
    op: &Op,
) -> Result<(&'static str, Option<u32>), String> {
    let ids = id_table(real);
    let nid = |i: &u32| -> NodeId { *ids.get(i).unwrap_or_else(|| panic!("harness: node {i} is not live")) };
    catch(|| match op {
        Op::Register(p) => match real.register_package(u.packages[*p].clone()) {
            Ok(id) => {
                pids.insert(*p, id);
                ("Ok", None)
            }
            Err(wac_graph::RegisterPackageError::PackageAlreadyRegistered { .. }) => ("PackageAlreadyRegistered", None),
        },
        Op::Unregister(p) => {
            let id = pids.remove(p).expect("harness: package not registered");
            real.unregister_package(id);
            ("Ok", None)
        }
        Op::Instantiate(p) => {
            let id = real.instantiate(pids[p]);
            ("Ok", Some(node_index(id)))
        }
        Op::Alias(n, name) => match real.alias_instance_export(nid(n), name) {
            Ok(id) => ("Ok", Some(node_index(id))),
            Err(wac_graph::AliasError::NodeIsNotAnInstance { .. }) => ("NodeIsNotAnInstance", None),
            Err(wac_graph::AliasError::InstanceMissingExport { .. }) => ("InstanceMissingExport", None),
        },
        Op::Import(name, k) => match real.import(name.clone(), u.import_item_kinds[*k]) {
            Ok(id) => ("Ok", Some(node_index(id))),
            Err(wac_graph::ImportError::ImportAlreadyExists { .. }) => ("ImportAlreadyExists", None),
            Err(wac_graph::ImportError::InvalidImportName { .. }) => ("InvalidImportName", None),
        },
        Op::SetArg(i, slot, a) => match real.set_instantiation_argument(nid(i), slot, nid(a)) {
            Ok(()) => ("Ok", None),
            Err(e) => (arg_err(&e), None),
        },
        Op::UnsetArg(i, slot, a) => match real.unset_instantiation_argument(nid(i), slot, nid(a)) {
            Ok(()) => ("Ok", None),
            Err(e) => (arg_err(&e), None),
        },
        Op::Export(n, name) => match real.export(nid(n), name.clone()) {
            Ok(()) => ("Ok", None),
            Err(wac_graph::ExportError::ExportAlreadyExists { .. }) => ("ExportAlreadyExists", None),
            Err(wac_graph::ExportError::InvalidExportName { .. }) => ("InvalidExportName", None),
        },
        Op::Unexport(n) => match real.unexport(nid(n)) {
            Ok(()) => ("Ok", None),
            Err(wac_graph::UnexportError::MustExportDefinition) => ("MustExportDefinition", None),
        },
        Op::DefineType(name, t) => match real.define_type(name.clone(), u.def_type_ids[*t]) {
            Ok(id) => ("Ok", Some(node_index(id))),
            Err(wac_graph::DefineTypeError::TypeAlreadyDefined) => ("TypeAlreadyDefined", None),
            Err(wac_graph::DefineTypeError::CannotDefineResource) => ("CannotDefineResource", None),
            Err(wac_graph::DefineTypeError::ExportConflict { .. }) => ("ExportConflict", None),
            Err(wac_graph::DefineTypeError::InvalidExternName { .. }) => ("InvalidExternName", None),
        },
        Op::SetName(n, s) => {
            real.set_node_name(nid(n), s.clone());
            ("Ok", None)
        }
        Op::Remove(n) => {
            real.remove_node(nid(n));
            ("Ok", None)
        }
    })
}

fn arg_err(e: &wac_graph::InstantiationArgumentError) -> &'static str {
    use wac_graph::InstantiationArgumentError::*;
    match e {
        NodeIsNotAnInstantiation { .. } => "NodeIsNotAnInstantiation",
        InvalidArgumentName { .. } => "InvalidArgumentName",
        ArgumentTypeMismatch { .. } => "ArgumentTypeMismatch",
        ArgumentAlreadyPassed { .. } => "ArgumentAlreadyPassed",
    }
}

/// Salient precondition of an operation, for fingerprints.
fn precondition(model: &Model, op: &Op) -> String {
    let node_tags = |n: &u32| -> String {
        let mut t = Vec::new();
        if let Some(node) = model.nodes.get(n) {
            t.push(match node.kind {
                RKind::Def(_) => "def",
                RKind::Import(_) => "import",
                RKind::Inst => "inst",
                RKind::Alias => "alias",
            });
            if model.args.values().any(|s| s == n) {
                t.push("arg-source");
            }
            if model.args.keys().any(|(d, _)| d == n) {
                t.push("has-args");
            }
            if node.exports.len() == 1 {
                t.push("exported");
            }
            if node.exports.len() > 1 {
                t.push("multi-exported");
            }
            if model.alias_of.values().any(|(s, _)| s == n) {
                t.push("aliased");
            }
            if model.deps.iter().any(|(b, _)| b == n) {
                t.push("has-dependants");
            }
        }
        t.join("+")
    };
    match op {
        Op::Remove(n) | Op::Unexport(n) => format!("{}[{}]", op.kind(), node_tags(n)),
        Op::Unregister(p) => {
            let mut tags = BTreeSet::new();
            for (i, n) in &model.nodes {
                if n.pkg == Some(*p) {
                    for t in node_tags(i).split('+') {
                        tags.insert(t.to_string());
                    }
                }
            }
            format!("Unregister[{}]", tags.into_iter().collect::<Vec<_>>().join("+"))
        }
        Op::Export(n, _) => format!("Export[{}]", node_tags(n)),
        Op::SetArg(i, _, a) => {
            if i == a {
                "SetArg[self]".to_string()
            } else {
                format!("SetArg[src:{}]", node_tags(a))
            }
        }
        other => other.kind().to_string(),
    }
}

/// One transition on clones of the state. Returns the successor (None if the step itself
/// violated and the branch is pruned) and violations.
pub fn step(u: &Universe, st: &State, op: &Op) -> (Option<State>, Vec<Viol>) {
    let cx = u.cx();
    let mut v = Vec::new();
    // operations are only ever generated on identifiers that were live when the history was
    // recorded: an unknown identifier here means that replaying the same history handed out
    // different identifiers (identifier assignment is not a function of the history)
    if let Some(i) = op.node_refs().into_iter().find(|i| !st.model.nodes.contains_key(i)) {
        v.push((
            format!("{}/replay/identifier-assignment-differs-between-replays/{}", u.prop, op.kind()),
            format!("{op:?} refers to node {i}, which this replay of the same history did not create"),
        ));
        return (None, v);
    }
    let exp = st.model.expect(op, &cx);
    let mut real = st.real.clone();
    let mut pids = st.pids.clone();
    let pre = precondition(&st.model, op);
    let p = u.prop;
    let (class, new_id) = match apply_real(u, &mut real, &mut pids, op) {
        Err(panic) => {
            v.push((
                format!("{p}/panic/{pre}/{}", panic_site(&panic)),
                format!("{op:?} panicked with live identifiers: {panic}"),
            ));
            return (None, v);
        }
        Ok(r) => r,
    };
    if !exp.admissible.contains(class) {
        v.push((
            format!("{p}/result/{pre}/got-{class}/want-{}", exp.admissible.iter().copied().collect::<Vec<_>>().join("|")),
            format!("{op:?} returned {class}; the documentation admits {:?}", exp.admissible),
        ));
        return (None, v);
    }
    let mut model = st.model.clone();
    if class == "Ok" {
        // identifier discipline: fresh ids are fresh, a repeated alias returns the old node
        if let Some(id) = new_id {
            match (op, exp.existing) {
                (Op::Alias(..), Some(ex)) => {
                    if id != ex {
                        v.push((format!("{p}/alias-dedupe/{pre}"), format!("{op:?} returned node {id}, existing alias is {ex}")));
                        return (None, v);
                    }
                }
                _ => {
                    if st.model.nodes.contains_key(&id) {
                        v.push((format!("{p}/id-reuse-live/{pre}"), format!("{op:?} returned node id {id} which is still live")));
                        return (None, v);
                    }
                }
            }
        }
        if let Op::Register(pk) = op {
            let id = pids[pk];
            if st.pids.values().any(|x| *x == id) {
                v.push((format!("{p}/pkgid-reuse-live/{pre}"), format!("{op:?} returned a package id that is still live")));
                return (None, v);
            }
        }
        model.commit(op, new_id, &cx);
    }
    let mut hist = st.hist.clone();
    hist.push(op.clone());
    (Some(State { real, pids, model, hist, seed: st.seed }), v)
}

/// Compares every public query with the model (c) and the H1 invariants (d).
pub fn check_queries(u: &Universe, st: &State, last: &str) -> Vec<Viol> {
    let p = u.prop;
    let mut v = Vec::new();
    let g = &st.real;
    let m = &st.model;
    let r = catch(|| {
        let mut v: Vec<Viol> = Vec::new();
        let ids = id_table(g);
        let live: BTreeSet<u32> = ids.keys().copied().collect();
        let want: BTreeSet<u32> = m.nodes.keys().copied().collect();
        if live != want {
            v.push((format!("{p}/query/node_ids/after-{last}"), format!("live nodes {live:?}, model {want:?}")));
            return v;
        }
        if g.nodes().count() != want.len() {
            v.push((format!("{p}/query/nodes-count/after-{last}"), "nodes() count differs from node_ids()".into()));
        }
        for (i, id) in &ids {
            let node = &g[*id];
            let mn = &m.nodes[i];
            let kind_ok = match (node.kind(), &mn.kind) {
                (NodeKind::Definition, RKind::Def(_)) => true,
                (NodeKind::Import(a), RKind::Import(b)) => a == b,
                (NodeKind::Instantiation(_), RKind::Inst) => true,
                (NodeKind::Alias, RKind::Alias) => true,
                _ => false,
            };
            if !kind_ok {
                v.push((format!("{p}/query/kind/after-{last}"), format!("node {i}: kind {:?}, model {:?}", node.kind(), mn.kind)));
            }
            let pkg = node.package().and_then(|pid| st.pids.iter().find(|(_, x)| **x == pid).map(|(k, _)| *k));
            if node.package().is_some() != mn.pkg.is_some() || pkg != mn.pkg {
                v.push((format!("{p}/query/package/after-{last}"), format!("node {i}: package {:?}, model {:?}", node.package(), mn.pkg)));
            }
            let desc = node.item_kind().desc(g.types());
            let want_desc = match &mn.item {
                RItem::Ty(Ty::Func(..)) => "function",
                RItem::Ty(Ty::Inst(_)) => "instance",
                RItem::Ty(Ty::Opaque(k, _)) => match k.as_str() {
                    "func" => "function",
                    "instance" => "instance",
                    "component" => "component",
                    "module" => "module",
                    "value" => "value",
                    _ => desc,
                },
                RItem::TypeDef(_) => desc,
            };
            if desc != want_desc {
                v.push((format!("{p}/query/item_kind/after-{last}"), format!("node {i}: item kind {desc}, model {want_desc}")));
            }
            if node.name() != mn.name.as_deref() {
                v.push((format!("{p}/query/name/after-{last}"), format!("node {i}: name {:?}, model {:?}", node.name(), mn.name)));
            }
            let imp = match &mn.kind {
                RKind::Import(n) => Some(n.as_str()),
                _ => None,
            };
            if node.import_name() != imp || g.get_import_name(*id) != imp {
                v.push((format!("{p}/query/import_name/after-{last}"), format!("node {i}: import name {:?}, model {imp:?}", node.import_name())));
            }
            match node.export_name() {
                None if mn.exports.is_empty() => {}
                Some(x) if mn.exports.contains(x) => {}
                other => v.push((
                    format!("{p}/query/export_name/after-{last}"),
                    format!("node {i}: export name {other:?}, model {:?}", mn.exports),
                )),
            }
            let src = g.get_alias_source(*id).map(|(s, e)| (node_index(s), e.to_string()));
            if src.as_ref() != m.alias_of.get(i) {
                v.push((format!("{p}/query/alias_source/after-{last}"), format!("node {i}: alias source {src:?}, model {:?}", m.alias_of.get(i))));
            }
            let mut args: Vec<(String, u32)> = g.get_instantiation_arguments(*id).map(|(n, s)| (n.to_string(), node_index(s))).collect();
            args.sort();
            let mut want_args: Vec<(String, u32)> =
                m.args.iter().filter(|((d, _), _)| d == i).map(|((_, s), a)| (s.clone(), *a)).collect();
            want_args.sort();
            if args != want_args {
                v.push((format!("{p}/query/arguments/after-{last}"), format!("node {i}: arguments {args:?}, model {want_args:?}")));
            }
        }
        let mut names: BTreeSet<&String> = u.export_names.iter().chain(u.define_names.iter()).collect();
        names.extend(m.exports.keys());
        for n in names {
            let got = g.get_export(n).map(node_index);
            if got != m.exports.get(n).copied() {
                v.push((format!("{p}/query/get_export/after-{last}"), format!("get_export({n:?}) = {got:?}, model {:?}", m.exports.get(n))));
            }
        }
        let mut got_imports: Vec<(String, Option<u32>)> = g.imports().map(|(n, _, id)| (n.to_string(), id.map(node_index))).collect();
        got_imports.sort();
        let cx = u.cx();
        let mut want_imports: Vec<(String, Option<u32>)> =
            m.unsatisfied(&cx).into_iter().map(|(_, n, _)| (n.to_string(), None)).collect();
        want_imports.extend(m.imports.iter().map(|(n, i)| (n.clone(), Some(*i))));
        want_imports.sort();
        if got_imports != want_imports {
            v.push((format!("{p}/query/imports/after-{last}"), format!("imports() = {got_imports:?}, model {want_imports:?}")));
        }
        let mut got_pk: Vec<String> = g.packages().map(|p| p.key().to_string()).collect();
        got_pk.sort();
        let mut want_pk: Vec<String> = m
            .registered
            .iter()
            .map(|i| match &u.pkgs[*i].version {
                Some(v) => format!("{}@{v}", u.pkgs[*i].name),
                None => u.pkgs[*i].name.clone(),
            })
            .collect();
        want_pk.sort();
        if got_pk != want_pk {
            v.push((format!("{p}/query/packages/after-{last}"), format!("packages() = {got_pk:?}, model {want_pk:?}")));
        }
        for (i, spec) in u.pkgs.iter().enumerate() {
            let ver = spec.version.as_ref().map(|v| semver::Version::parse(v).unwrap());
            let got = g.get_package_by_name(&spec.name, ver.as_ref()).map(|(id, _)| id);
            if got != st.pids.get(&i).copied() || got.is_some() != m.registered.contains(&i) {
                v.push((format!("{p}/query/get_package_by_name/after-{last}"), format!("get_package_by_name({}) = {got:?}", spec.name)));
            }
        }
        for s in g.verif_invariant_violations() {
            let words: Vec<&str> = s.split(' ').filter(|w| !w.chars().any(|c| c.is_ascii_digit())).take(8).collect();
            v.push((format!("{p}/invariant/{}/after-{last}", words.join("-")), s));
        }
        v
    });
    match r {
        Ok(x) => v.extend(x),
        Err(panic) => v.push((format!("{p}/panic/query/after-{last}/{}", panic_site(&panic)), format!("a query panicked: {panic}"))),
    }
    v
}

pub fn encode_class(e: &EncodeError) -> &'static str {
    match e {
        EncodeError::ValidationFailure { .. } => "ValidationFailure",
        EncodeError::GraphContainsCycle { .. } => "GraphContainsCycle",
        EncodeError::ImplicitImportConflict { .. } => "ImplicitImportConflict",
        EncodeError::ImportTypeMergeConflict { .. } => "ImportTypeMergeConflict",
    }
}

/// Encode errors the model admits, and whether it is certain that one of them must occur
/// (`must_fail`), that none may occur (`adm` empty), or silent (`may_fail` set).
pub struct EncodeExpect {
    pub adm: BTreeSet<&'static str>,
    pub must_fail: bool,
}

pub fn encode_admissible(u: &Universe, m: &Model) -> EncodeExpect {
    let cx = u.cx();
    let mut adm = BTreeSet::new();
    let mut must_fail = false;
    if m.has_cycle() {
        adm.insert("GraphContainsCycle");
        must_fail = true;
    }
    let uns = m.unsatisfied(&cx);
    if uns.iter().any(|(_, n, _)| m.imports.contains_key(*n)) {
        adm.insert("ImplicitImportConflict");
        must_fail = true;
    }
    // merge of unsatisfied requirements per track (implicit) — explicit imports take part
    // in the aggregation too; a type clash between an explicit import and an implicit one
    // on the same track but under a different name must be one of the two documented errors
    let mut groups: Vec<(String, Option<Ty>)> = Vec::new();
    for (_, n, ty) in &uns {
        match groups.iter_mut().find(|(g, _)| same_track(g, n)) {
            Some((_, t)) => {
                if let Some(cur) = t.clone() {
                    match merge_ty(&cur, ty) {
                        Merge::Ok(mt) => *t = Some(mt),
                        Merge::Conflict => {
                            adm.insert("ImportTypeMergeConflict");
                            must_fail = true;
                            *t = None;
                        }
                        Merge::Unknown => {
                            adm.insert("ImportTypeMergeConflict");
                            *t = None;
                        }
                    }
                }
            }
            None => groups.push((n.to_string(), Some((*ty).clone()))),
        }
    }
    for (name, id) in &m.imports {
        if let RItem::Ty(ty) = &m.nodes[id].item {
            for (g, t) in &groups {
                if g != name && same_track(g, name) {
                    let clash = match t {
                        Some(t) => merge_ty(t, ty),
                        None => Merge::Unknown,
                    };
                    match clash {
                        Merge::Ok(_) => {}
                        Merge::Conflict => {
                            adm.insert("ImportTypeMergeConflict");
                            adm.insert("ImplicitImportConflict");
                            must_fail = true;
                        }
                        Merge::Unknown => {
                            adm.insert("ImportTypeMergeConflict");
                            adm.insert("ImplicitImportConflict");
                        }
                    }
                }
            }
        }
    }
    EncodeExpect { adm, must_fail }
}

/// Salient precondition of an encoding failure: universe types that a defined type refers
/// to directly but that are not themselves defined; otherwise the last operation.
fn encode_tag(u: &Universe, m: &Model, last: &str) -> String {
    let mut missing = BTreeSet::new();
    for t in m.defined.keys() {
        for r in &u.def_types[*t].refs_direct {
            if !m.defined.contains_key(r) {
                missing.insert(u.def_types[*r].label.split('=').next().unwrap());
            }
        }
    }
    if missing.is_empty() {
        format!("after-{last}")
    } else {
        // (which types are missing does not change the cause)
        "undefined-referenced-types".to_string()
    }
}

pub type ExtraCheck<'a> = dyn Fn(&Universe, &State, &[u8], bool) -> Vec<Viol> + Sync + 'a;

pub struct EncodeStats {
    pub ok: u64,
    pub by_class: BTreeMap<&'static str, u64>,
}

/// (e) encodes the state under {embedded, imported} x {validate, not}.
pub fn check_encode(u: &Universe, st: &State, last: &str, extra: Option<&ExtraCheck>) -> (Vec<Viol>, Vec<&'static str>) {
    let (v, classes) = check_encode_inner(u, st, last, extra);
    // One cause, many symptoms: wac identifies interfaces by id, so an explicit import of a
    // named interface under another name is merged with (or replaced by) imports of that
    // interface. Every encode/interface/wiring symptom in such a state is one fingerprint.
    let renamed_iface = st.hist.iter().any(|op| match op {
        Op::Import(name, k) => {
            let id = u.import_kind_iface_id.get(*k).cloned().flatten();
            st.model.imports.contains_key(name) && ((id.is_some() && id.as_deref() != Some(name)) || (name.contains('/') && name.contains(':') && !name.contains('<') && id.as_deref() != Some(name)))
        }
        _ => false,
    });
    if renamed_iface && !v.is_empty() {
        let what = v.iter().map(|(f, w)| format!("{f}: {w}")).collect::<Vec<_>>().join(" || ");
        return (vec![(format!("{}/explicit-import-of-named-interface-under-another-name", u.prop), what)], classes);
    }
    // An exported (or explicitly imported) function whose type mentions a resource handle is
    // only valid when that resource is itself exported (imported) under a name: wac accepts the
    // export and produces a component the validator rejects. One cause, one fingerprint.
    if v.iter().any(|(f, _)| f.contains("ValidationFailure[func-not-valid-to-be-used-as-export]")) {
        let handle_func = |n: &u32| match &st.model.nodes[n].item {
            crate::refgraph::RItem::Ty(Ty::Opaque(k, text)) => k == "func" && (text.contains("own<") || text.contains("borrow<")),
            _ => false,
        };
        if st.model.exports.values().any(handle_func) {
            let what = v.iter().map(|(f, w)| format!("{f}: {w}")).collect::<Vec<_>>().join(" || ");
            return (vec![(format!("{}/export-of-a-function-over-a-resource-that-is-not-exported", u.prop), what)], classes);
        }
    }
    // Resource identity across separately bound arguments: whether a function or interface over
    // a resource fits depends on what the resource itself (or the interface defining it) is bound
    // to, and that is another argument, set by another operation or left to an implicit import
    // shared with other instantiations. wac accepts each step (it compares resources by shape)
    // and the validator rejects the result ("resource types are not the same"). One cause;
    // only in states where some argument is bound at all.
    if v.iter().any(|(_, w)| w.contains("resource types are not the same")) && !st.model.args.is_empty() {
        let what = v.iter().map(|(f, w)| format!("{f}: {w}")).collect::<Vec<_>>().join(" || ");
        return (vec![(format!("{}/resource-identity-across-separately-bound-arguments", u.prop), what)], classes);
    }
    // Component-model values are linear: a value-kinded node that is not consumed exactly
    // once makes the output invalid. One cause, one fingerprint.
    if v.iter().any(|(f, _)| f.contains("ValidationFailure[value-")) {
        let what = v.iter().map(|(f, w)| format!("{f}: {w}")).collect::<Vec<_>>().join(" || ");
        return (vec![(format!("{}/value-linearity", u.prop), what)], classes);
    }
    (v, classes)
}

fn check_encode_inner(u: &Universe, st: &State, last: &str, extra: Option<&ExtraCheck>) -> (Vec<Viol>, Vec<&'static str>) {
    let p = u.prop;
    if std::env::var_os("VERIF_TRACE_ENCODE").is_some() {
        eprintln!("TRACE encode {}", serde_json::to_string(&st.hist).unwrap());
    }
    let mut v = Vec::new();
    let mut classes = Vec::new();
    let expect = encode_admissible(u, &st.model);
    let adm = &expect.adm;
    let tag = encode_tag(u, &st.model, last);
    let last = tag.as_str();
    // panics and validation failures are identified by their message; the last operation
    // is only kept for outcome mismatches
    let cause = if tag.starts_with("after-") { "any-state" } else { tag.as_str() };
    for define in [true, false] {
        let mode = if define { "embedded" } else { "imported" };
        let mut results: Vec<Result<Vec<u8>, &'static str>> = Vec::new();
        for validate in [true, false] {
            let opts = EncodeOptions { define_components: define, validate, processor: None };
            match catch(|| st.real.encode(opts)) {
                Err(panic) => {
                    v.push((
                        format!("{p}/encode/panic/{mode}/{cause}/{}", panic_site(&panic)),
                        format!("encode({mode}, validate={validate}) panicked: {panic}"),
                    ));
                    results.push(Err("panic"));
                }
                Ok(Ok(bytes)) => results.push(Ok(bytes)),
                Ok(Err(e)) => {
                    let c = encode_class(&e);
                    if c == "ValidationFailure" || !adm.contains(c) {
                        let detail = match &e {
                            EncodeError::ValidationFailure { source } => {
                                let m = mc_core::msg_class(source.message());
                                format!("[{m}]")
                            }
                            _ => String::new(),
                        };
                        let at = if c == "ValidationFailure" { cause } else { last };
                        v.push((
                            format!("{p}/encode/{c}{detail}/{mode}/{at}/want-{}", if adm.is_empty() { "Ok".to_string() } else { adm.iter().copied().collect::<Vec<_>>().join("|") }),
                            format!("encode({mode}, validate={validate}) failed with {c}: {e:?}; model admits {adm:?}"),
                        ));
                    }
                    results.push(Err(c));
                }
            }
        }
        match (&results[0], &results[1]) {
            (Ok(a), Ok(b)) => {
                if a != b {
                    v.push((format!("{p}/encode/validate-changes-bytes/{mode}"), "validate on/off produced different bytes".into()));
                }
                if expect.must_fail {
                    v.push((
                        format!("{p}/encode/Ok/{mode}/{last}/want-{}", adm.iter().copied().collect::<Vec<_>>().join("|")),
                        format!("encode({mode}) succeeded; the model requires one of {adm:?}"),
                    ));
                }
                classes.push("Ok");
                // independent validation (C01)
                if let Err(e) = wasmparser::Validator::new_with_features(wasmparser::WasmFeatures::all()).validate_all(b) {
                    v.push((
                        format!("{p}/encode/invalid-output/{mode}/{last}"),
                        format!("encode({mode}) produced bytes the reference validator rejects: {e}"),
                    ));
                } else if let Some(extra) = extra {
                    v.extend(extra(u, st, b, define));
                }
            }
            (Ok(_), Err(c)) if *c != "panic" => {
                if *c != "ValidationFailure" {
                    v.push((format!("{p}/encode/validate-changes-result/{mode}"), format!("validate=true Ok, validate=false {c}")));
                }
                classes.push(c);
            }
            (Err(c), Ok(b)) if *c != "panic" => {
                // validate=true failed, validate=false produced bytes: check them ourselves
                // (a ValidationFailure already reported above is the same defect)
                if *c != "ValidationFailure"
                    && wasmparser::Validator::new_with_features(wasmparser::WasmFeatures::all()).validate_all(b).is_err()
                {
                    v.push((
                        format!("{p}/encode/invalid-output/{mode}/{last}"),
                        "encode without validation returned an invalid component".into(),
                    ));
                }
                classes.push(c);
            }
            (Err(a), Err(b)) => {
                if a != b && *a != "panic" && *b != "panic" {
                    v.push((format!("{p}/encode/validate-changes-result/{mode}"), format!("validate=true {a}, validate=false {b}")));
                }
                classes.push(a);
            }
            _ => {}
        }
    }
    (v, classes)
}

/// Enumerates every enabled operation of the alphabet in `st`.
pub fn enabled_ops(u: &Universe, st: &State) -> (Vec<Op>, usize) {
    let cx = u.cx();
    let m = &st.model;
    let mut ops = Vec::new();
    let mut unspecified = 0usize;
    let on = |k: &str| u.ops.contains(k);
    let nodes: Vec<u32> = m.nodes.keys().copied().collect();
    let room = nodes.len() < u.max_nodes;
    for p in 0..u.pkgs.len() {
        if on("Register") && (m.registered.contains(&p) || m.registered.len() < u.max_pkgs) {
            ops.push(Op::Register(p));
        }
        if m.registered.contains(&p) {
            if on("Unregister") {
                // unspecified when a removal inside is unspecified
                if m.nodes.iter().filter(|(_, n)| n.pkg == Some(p)).all(|(i, _)| m.removal_specified(*i, &cx)) {
                    ops.push(Op::Unregister(p));
                } else {
                    unspecified += 1;
                }
            }
            if on("Instantiate") && room {
                ops.push(Op::Instantiate(p));
            }
        }
    }
    if on("Import") && room {
        for n in &u.import_names {
            for k in 0..u.import_kinds.len() {
                if u.isolated_imports.iter().any(|(x, y)| x == n && *y == k) {
                    unspecified += 1;
                    continue;
                }
                ops.push(Op::Import(n.clone(), k));
            }
        }
    } else if on("Import") {
        // still exercise the error paths that create nothing
        for n in &u.import_names {
            if m.imports.contains_key(n) || !u.names.import_ok(n) {
                ops.push(Op::Import(n.clone(), 0));
            }
        }
    }
    if on("DefineType") {
        for n in &u.define_names {
            for t in 0..u.def_types.len() {
                let exp = m.expect(&Op::DefineType(n.clone(), t), &cx);
                if room || !exp.admissible.contains("Ok") {
                    ops.push(Op::DefineType(n.clone(), t));
                }
            }
        }
    }
    for n in &nodes {
        if on("Alias") {
            for a in &u.alias_names {
                let exp = m.expect(&Op::Alias(*n, a.clone()), &cx);
                if room || !exp.admissible.contains("Ok") || exp.existing.is_some() {
                    ops.push(Op::Alias(*n, a.clone()));
                }
            }
        }
        if on("Export") {
            for x in &u.export_names {
                ops.push(Op::Export(*n, x.clone()));
            }
        }
        if on("Unexport") {
            ops.push(Op::Unexport(*n));
        }
        if on("SetName") {
            for s in &u.node_names {
                if m.nodes[n].name.as_deref() != Some(s.as_str()) {
                    ops.push(Op::SetName(*n, s.clone()));
                }
            }
        }
        if on("Remove") {
            if m.removal_specified(*n, &cx) {
                ops.push(Op::Remove(*n));
            } else {
                unspecified += 1;
            }
        }
        let is_inst = m.nodes[n].kind == RKind::Inst;
        for s in &u.arg_names {
            for a in &nodes {
                // a non-instantiation target fails before looking at name or source:
                // one representative source per name is enough
                if !is_inst && a != &nodes[0] {
                    continue;
                }
                if on("SetArg") {
                    ops.push(Op::SetArg(*n, s.clone(), *a));
                }
                if on("UnsetArg") {
                    ops.push(Op::UnsetArg(*n, s.clone(), *a));
                }
            }
        }
    }
    (ops, unspecified)
}

pub fn state_key(st: &State) -> String {
    let m = format!("{:?}", st.model);
    let pids: Vec<_> = st.pids.iter().map(|(k, v)| format!("{k}:{v:?}")).collect();
    sha256_hex(format!("{m}\n{}\n{}", pids.join(","), st.real.verif_dump()).as_bytes())
}

#[derive(Default)]
pub struct Stats {
    pub states: u64,
    pub transitions: u64,
    pub replayed: u64,
    pub unspecified: u64,
    pub per_op: BTreeMap<&'static str, u64>,
    pub result_classes: BTreeMap<String, u64>,
    pub encode_classes: BTreeMap<&'static str, u64>,
    pub depth_completed: usize,
    pub levels: Vec<(usize, usize)>,
    pub samples: Vec<Value>,
    pub cap_hit: bool,
    pub histories: Vec<Vec<Op>>,
}

pub struct Found {
    pub fingerprint: String,
    pub what: String,
    pub case: Value,
}

pub fn case_json(u: &Universe, seed_ops: &[Op], hist: &[Op]) -> Value {
    json!({"engine": "E1", "universe": u.prop, "seed_ops": seed_ops, "ops": hist})
}

/// Replays a history from the empty graph; returns the final state and any violations.
pub fn replay_history(u: &Universe, ops: &[Op], extra: Option<&ExtraCheck>) -> (Option<State>, Vec<Viol>) {
    let mut st = State { real: u.base.clone(), pids: BTreeMap::new(), model: Model::default(), hist: vec![], seed: 0 };
    let mut all = Vec::new();
    for op in ops {
        let (next, v) = step(u, &st, op);
        all.extend(v);
        match next {
            None => return (None, all),
            Some(n) => st = n,
        }
        let pre = precondition(&st.model, op);
        let _ = pre;
        all.extend(check_queries(u, &st, op.kind()));
        if u.check_encode {
            all.extend(check_encode(u, &st, op.kind(), extra).0);
        }
        if !all.is_empty() {
            return (Some(st), all);
        }
    }
    (Some(st), all)
}

/// Rebuilds a state by replaying its history from the empty graph (no checks).
pub fn rebuild(u: &Universe, hist: &[Op]) -> Option<State> {
    let mut st = State { real: u.base.clone(), pids: BTreeMap::new(), model: Model::default(), hist: vec![], seed: 0 };
    for op in hist {
        let (next, _) = step(u, &st, op);
        st = next?;
    }
    Some(st)
}

/// Level-synchronous BFS from each seed history to `depth`.
///
/// Memory discipline: the frontier holds histories only; a state is rebuilt by replaying
/// its history on a fresh graph when it is expanded and when it is checked. The key of a
/// successor is computed on the clone-and-step path during expansion and recomputed on the
/// replay path when the state is checked: a mismatch is the clone-vs-replay differential.
pub fn bfs(
    u: &Universe,
    seeds: &[Vec<Op>],
    depth: usize,
    extra: Option<&ExtraCheck>,
    state_cap: usize,
    _on_state: Option<&mut dyn FnMut(&State)>,
) -> (Stats, Vec<Found>) {
    let mut stats = Stats::default();
    let mut found: Vec<Found> = Vec::new();
    let mut seen: HashSet<String> = HashSet::new();
    let mut frontier: Vec<Vec<Op>> = Vec::new();

    // seeds are built through the same step function (model follows)
    for seed_ops in seeds.iter() {
        let mut st = State { real: u.base.clone(), pids: BTreeMap::new(), model: Model::default(), hist: vec![], seed: 0 };
        let mut ok = true;
        for op in seed_ops {
            let (next, v) = step(u, &st, op);
            for (fp, what) in v {
                found.push(Found { fingerprint: fp, what, case: case_json(u, &[], &st.hist) });
                ok = false;
            }
            match next {
                Some(n) => st = n,
                None => {
                    ok = false;
                    break;
                }
            }
        }
        if !ok {
            continue;
        }
        let key = state_key(&st);
        if seen.insert(key) {
            let mut v = check_queries(u, &st, "seed");
            if u.check_encode {
                let (ev, classes) = check_encode(u, &st, "seed", extra);
                v.extend(ev);
                for c in classes {
                    *stats.encode_classes.entry(c).or_default() += 1;
                }
            }
            stats.states += 1;
            if v.is_empty() {
                if u.collect_histories {
                    stats.histories.push(st.hist.clone());
                }
                frontier.push(st.hist.clone());
            } else {
                for (fp, what) in v {
                    found.push(Found { fingerprint: fp, what, case: case_json(u, &[], &st.hist) });
                }
            }
        }
    }

    for level in 1..=depth {
        // expand in parallel: (key, op) per successor
        type Exp = (Vec<(String, Op)>, Vec<(Viol, Vec<Op>)>, u64, BTreeMap<&'static str, u64>, BTreeMap<String, u64>);
        let expanded: Vec<Exp> = frontier
            .par_iter()
            .map(|hist| {
                let st = match rebuild(u, hist) {
                    Some(s) => s,
                    // it replayed when it was checked: replaying is not a function of the history
                    None => {
                        let viol = vec![((format!("{}/clone-vs-replay/frontier", u.prop), "a history that replayed once does not replay a second time".to_string()), hist.clone())];
                        return (Vec::new(), viol, 0, BTreeMap::new(), BTreeMap::new());
                    }
                };
                let (ops, unspec) = enabled_ops(u, &st);
                let mut succ = Vec::new();
                let mut viol = Vec::new();
                let mut per_op: BTreeMap<&'static str, u64> = BTreeMap::new();
                let mut classes: BTreeMap<String, u64> = BTreeMap::new();
                for op in ops {
                    *per_op.entry(op.kind()).or_default() += 1;
                    let (next, v) = step(u, &st, &op);
                    for x in v {
                        let mut h = st.hist.clone();
                        h.push(op.clone());
                        viol.push((x, h));
                    }
                    if let Some(n) = next {
                        let changed = n.model != st.model;
                        *classes.entry(format!("{}:{}", op.kind(), if changed { "Ok" } else { "no-change" })).or_default() += 1;
                        if changed {
                            succ.push((state_key(&n), op));
                        } else if state_key(&n) != state_key(&st) {
                            // the model did not change: the implementation must not have either
                            let mut h = st.hist.clone();
                            h.push(op.clone());
                            viol.push(((format!("{}/silent-change/{}", u.prop, op.kind()), format!("{op:?} left the model unchanged but changed the graph's internal state")), h));
                        }
                    }
                }
                (succ, viol, unspec as u64, per_op, classes)
            })
            .collect();
        let mut fresh: Vec<(usize, Op, String)> = Vec::new();
        {
            let mut candidates: Vec<(String, usize, Op)> = Vec::new();
            for (pi, (succ, viol, unspec, per_op, classes)) in expanded.into_iter().enumerate() {
                stats.transitions += per_op.values().sum::<u64>();
                stats.unspecified += unspec;
                for (k, n) in per_op {
                    *stats.per_op.entry(k).or_default() += n;
                }
                for (k, n) in classes {
                    *stats.result_classes.entry(k).or_default() += n;
                }
                for ((fp, what), h) in viol {
                    found.push(Found { fingerprint: fp, what, case: case_json(u, &[], &h) });
                }
                for (key, op) in succ {
                    candidates.push((key, pi, op));
                }
            }
            // deterministic order: by key, then by (parent history, op)
            candidates.sort_by(|a, b| a.0.cmp(&b.0).then_with(|| frontier[a.1].cmp(&frontier[b.1])).then_with(|| a.2.cmp(&b.2)));
            for (key, pi, op) in candidates {
                if seen.insert(key.clone()) {
                    fresh.push((pi, op, key));
                }
            }
        }
        // check every new state on the replay path
        let checked: Vec<(Vec<Viol>, Vec<&'static str>)> = fresh
            .par_iter()
            .map(|(pi, op, key)| {
                let mut hist = frontier[*pi].clone();
                hist.push(op.clone());
                let last = op.kind();
                let st = match rebuild(u, &hist) {
                    Some(s) => s,
                    None => return (vec![(format!("{}/clone-vs-replay/after-{last}", u.prop), "history does not replay".into())], vec![]),
                };
                let mut v = Vec::new();
                if state_key(&st) != *key {
                    v.push((
                        format!("{}/clone-vs-replay/after-{last}", u.prop),
                        "state reached through clones differs from the same history replayed on a fresh graph".into(),
                    ));
                }
                v.extend(check_queries(u, &st, last));
                let mut classes = Vec::new();
                if u.check_encode {
                    let (ev, c) = check_encode(u, &st, last, extra);
                    v.extend(ev);
                    classes = c;
                }
                (v, classes)
            })
            .collect();
        let mut next = Vec::new();
        for ((pi, op, _), (v, classes)) in fresh.into_iter().zip(checked) {
            stats.states += 1;
            stats.replayed += 1;
            for c in classes {
                *stats.encode_classes.entry(c).or_default() += 1;
            }
            let mut hist = frontier[pi].clone();
            hist.push(op);
            if v.is_empty() {
                if stats.samples.len() < 3 && hist.len() >= 2 && (stats.states % 97 == 0 || level == depth) {
                    stats.samples.push(json!({"history": hist}));
                }
                if u.collect_histories {
                    stats.histories.push(hist.clone());
                }
                next.push(hist);
            } else {
                // R4: a violating state is recorded and not expanded
                for (fp, what) in v {
                    found.push(Found { fingerprint: fp, what, case: case_json(u, &[], &hist) });
                }
            }
        }
        stats.levels.push((level, next.len()));
        stats.depth_completed = level;
        frontier = next;
        if seen.len() > state_cap {
            stats.cap_hit = true;
            break;
        }
        if frontier.is_empty() {
            break;
        }
    }
    (stats, found)
}
