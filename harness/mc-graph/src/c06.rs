//! C06 — graph API stays consistent over every operation history (E1, full alphabet).

use crate::e1::*;
use crate::lib_spec::{PkgSpec, Ty};
use crate::refgraph::*;
use mc_core::{Ctx, Tier};
use serde_json::{json, Map};
use wac_graph::types::{DefinedType, FuncType, PrimitiveType, Record, Resource, Type, ValueType};

pub fn library() -> Vec<PkgSpec> {
    let f0 = Ty::func0();
    let fp = Ty::func(&[("p", "u32")], None);
    vec![
        PkgSpec::new(
            "t:p",
            None,
            &[("f", f0.clone()), ("i", Ty::inst(&[("x", f0.clone())]))],
            &[("g", f0.clone()), ("j", Ty::inst(&[("x", f0.clone())]))],
        ),
        PkgSpec::new(
            "t:q",
            Some("1.0.0"),
            // two same-typed imports: one node can satisfy both arguments of one instantiation
            &[("h", f0.clone()), ("h2", f0.clone())],
            &[("f", f0.clone()), ("i", Ty::inst(&[("x", f0.clone()), ("y", f0.clone())]))],
        ),
        PkgSpec::new("t:r", None, &[("h", fp.clone())], &[("f", fp.clone())]),
    ]
}

/// Classifies names with the reference name parser (wasmparser), not with wac.
pub fn classify_names(all: &[&str]) -> Names {
    use wasmparser::names::{ComponentName, ComponentNameKind};
    let mut n = Names::default();
    for s in all {
        if let Ok(c) = ComponentName::new(s, 0) {
            match c.kind() {
                ComponentNameKind::Hash(_) | ComponentNameKind::Url(_) | ComponentNameKind::Dependency(_) => {
                    n.import_only.insert(s.to_string());
                }
                _ => {
                    n.valid_extern.insert(s.to_string());
                }
            }
        }
    }
    n
}

pub fn universe(prop: &'static str, tier: Tier) -> Universe {
    let mut u = Universe::build(prop, library());
    u.add_import_kind_from_import(0, "f");
    u.add_import_kind_from_import(0, "i");
    u.add_import_kind_from_import(2, "h");
    // definable types
    let t = u.base.types_mut();
    let t0 = t.add_defined_type(DefinedType::Alias(ValueType::Primitive(PrimitiveType::U32)));
    let t1 = t.add_defined_type(DefinedType::Record(Record {
        fields: [("a".to_string(), ValueType::Defined(t0))].into_iter().collect(),
    }));
    let t2 = t.add_defined_type(DefinedType::Alias(ValueType::Defined(t0)));
    let t3 = t.add_func_type(FuncType {
        params: [("a".to_string(), ValueType::Defined(t1))].into_iter().collect(),
        result: None,
        is_async: false,
    });
    let t4 = t.add_resource(Resource { name: "r".into(), alias: None });
    // mentions two distinct defined types, one of which mentions the other: a diamond of
    // dependencies (direct and transitive reading agree)
    let t5 = t.add_defined_type(DefinedType::Tuple(vec![ValueType::Defined(t0), ValueType::Defined(t1)]));
    u.def_type_ids = vec![
        Type::Value(ValueType::Defined(t0)),
        Type::Value(ValueType::Defined(t1)),
        Type::Value(ValueType::Defined(t2)),
        Type::Func(t3),
        Type::Resource(t4),
        Type::Value(ValueType::Defined(t5)),
    ];
    u.def_types = vec![
        DefTypeSpec { label: "T0=u32", is_resource: false, refs_direct: vec![], refs_transitive: vec![] },
        DefTypeSpec { label: "T1=record{a:T0}", is_resource: false, refs_direct: vec![0], refs_transitive: vec![0] },
        DefTypeSpec { label: "T2=alias T0", is_resource: false, refs_direct: vec![], refs_transitive: vec![0] },
        DefTypeSpec { label: "T3=func(a:T1)", is_resource: false, refs_direct: vec![1], refs_transitive: vec![0, 1] },
        DefTypeSpec { label: "T4=resource", is_resource: true, refs_direct: vec![], refs_transitive: vec![] },
        DefTypeSpec { label: "T5=tuple<T0,T1>", is_resource: false, refs_direct: vec![0, 1], refs_transitive: vec![0, 1] },
    ];
    let s = |v: &[&str]| v.iter().map(|x| x.to_string()).collect::<Vec<_>>();
    u.alias_names = s(&["g", "j", "f", "i", "x", "zz"]);
    u.import_names = s(&["f", "h", "Not_Valid", "url=<https://e.x>"]);
    u.export_names = s(&["e1", "e2", "Not_Valid", "url=<https://e.x>"]);
    u.arg_names = s(&["f", "i", "h", "h2", "zz"]);
    u.node_names = s(&["n1"]);
    u.define_names = s(&["e1", "t1"]);
    u.names = classify_names(&["g", "j", "f", "i", "x", "zz", "h", "h2", "Not_Valid", "url=<https://e.x>", "e1", "e2", "t1", ""]);
    u.max_nodes = tier.pick(5, 5);
    u.max_pkgs = 3;
    u.ops = [
        "Register", "Unregister", "Instantiate", "Alias", "Import", "SetArg", "UnsetArg", "Export", "Unexport", "DefineType",
        "SetName", "Remove",
    ]
    .into_iter()
    .collect();
    u
}

pub fn seeds() -> Vec<Vec<Op>> {
    let s = |x: &str| x.to_string();
    vec![
        vec![],
        vec![Op::Register(0), Op::Register(1)],
        // producer -> consumer with alias, argument and export
        vec![
            Op::Register(0),
            Op::Register(1),
            Op::Instantiate(1),
            Op::Alias(0, s("f")),
            Op::Instantiate(0),
            Op::SetArg(2, s("f"), 1),
            Op::Export(2, s("e1")),
        ],
        // diamond: one producer export feeds two consumers
        vec![
            Op::Register(0),
            Op::Register(1),
            Op::Instantiate(1),
            Op::Alias(0, s("f")),
            Op::Instantiate(0),
            Op::Instantiate(0),
            Op::SetArg(2, s("f"), 1),
            Op::SetArg(3, s("f"), 1),
        ],
        // types defined dependants first
        vec![Op::DefineType(s("t1"), 1), Op::DefineType(s("e1"), 0)],
        // a diamond of definitions, dependants first: T5 = tuple<T0, T1>, T1 = record{T0}, T0
        vec![Op::DefineType(s("e2"), 5), Op::DefineType(s("t1"), 1), Op::DefineType(s("e1"), 0)],
        // a node exported under two names, and an explicit import used as argument
        vec![
            Op::Register(0),
            Op::Instantiate(0),
            Op::Export(0, s("e1")),
            Op::Export(0, s("e2")),
            Op::Import(s("h"), 0),
            Op::SetArg(0, s("f"), 1),
        ],
        // one node satisfies two arguments of the same instantiation
        vec![Op::Register(1), Op::Instantiate(1), Op::Import(s("h"), 0), Op::SetArg(0, s("h"), 1), Op::SetArg(0, s("h2"), 1)],
        // two packages, re-registration after unregister (slot / generation reuse)
        vec![Op::Register(2), Op::Register(1), Op::Unregister(2), Op::Register(0), Op::Instantiate(0), Op::Instantiate(1)],
    ]
}

pub fn run(args: &[String]) {
    let mut ctx = Ctx::new("C06", "model_checking", args);
    if let Some(case) = ctx.replay_case().cloned() {
        let u = universe("C06", if case["tier"] == "thorough" { Tier::Thorough } else { Tier::Quick });
        let ops: Vec<Op> = serde_json::from_value(case["ops"].clone()).unwrap_or_else(|e| mc_core::machinery_error(&format!("bad ops: {e}")));
        let (_, v) = replay_history(&u, &ops, None);
        for (fp, what) in v {
            ctx.violation(fp, what, case.clone());
        }
        ctx.finish(Map::new(), vec![]);
    }
    let tier = ctx.tier();
    let u = universe("C06", tier);
    let depth = tier.pick(4, 5);
    let (stats, found) = bfs(&u, &seeds(), depth, None, tier.pick(2_000_000, 30_000_000), None);
    for f in found {
        let mut case = f.case;
        case["tier"] = json!(tier.as_str());
        ctx.violation(f.fingerprint, f.what, case);
    }
    let cov = coverage(&u, &stats, depth, seeds().len());
    ctx.finish(
        cov,
        vec![
            "reference model written from the rustdoc of the public API (DESIGN.md A.1); where several documented errors apply, any of them is admissible".into(),
            "only live identifiers are passed (the property promises nothing for dead ones)".into(),
            "removal of a type whose dependants differ under the direct/transitive reading of 'referenced defined types' is not generated (counted as unspecified)".into(),
        ],
    );
}

pub fn coverage(u: &Universe, stats: &Stats, depth: usize, nseeds: usize) -> Map<String, serde_json::Value> {
    let mut cov = Map::new();
    cov.insert("states".into(), json!(stats.states));
    cov.insert("transitions".into(), json!(stats.transitions));
    cov.insert("traces_validated_against_impl".into(), json!(stats.replayed));
    cov.insert("samples".into(), json!(stats.samples));
    cov.insert("exhaustive".into(), json!(!stats.cap_hit));
    cov.insert("cap_hit".into(), json!(stats.cap_hit));
    cov.insert("depth_bound".into(), json!(depth));
    cov.insert("depth_completed".into(), json!(stats.depth_completed));
    cov.insert("seed_states".into(), json!(nseeds));
    cov.insert("max_live_nodes".into(), json!(u.max_nodes));
    cov.insert("max_registered_packages".into(), json!(u.max_pkgs));
    cov.insert("new_states_per_level".into(), json!(stats.levels));
    cov.insert("per_operation_counts".into(), json!(stats.per_op));
    cov.insert("transition_outcomes".into(), json!(stats.result_classes));
    cov.insert("encode_outcomes".into(), json!(stats.encode_classes));
    cov.insert("unspecified_cases".into(), json!(stats.unspecified));
    cov.insert("evaluations".into(), json!(stats.transitions));
    cov.insert("distinct_nontrivial".into(), json!(stats.states));
    cov.insert(
        "rule".into(),
        json!("level-synchronous BFS over the real CompositionGraph; every enabled operation of the alphabet with every live identifier; states deduplicated on (reference model, internal dump); every new state: all public queries vs model, H1 invariants, encode x4 options vs predicted outcome and the reference validator, and its history replayed on a fresh graph (traces_validated_against_impl)"),
    );
    cov
}
