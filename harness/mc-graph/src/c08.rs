//! C08 — decoding a package preserves its component type; re-encoding stays satisfiable.

use crate::lib_spec::top_level_names;
use mc_core::canon_wac::CanonWac;
use mc_core::e2::Canon;
use mc_core::libs::component_from_wit;
use mc_core::witgen;
use mc_core::{catch, panic_site, Ctx, Samples, Tier};
use rayon::prelude::*;
use serde_json::{json, Map};
use std::collections::BTreeMap;
use wac_graph::types::{ItemKind, Package, Types};
use wac_graph::{CompositionGraph, EncodeOptions};
use wasmparser::component_types::{ComponentAnyTypeId, ComponentEntityType};

type Viol = (String, String);

fn kind_class(e: &ComponentEntityType) -> &'static str {
    match e {
        ComponentEntityType::Module(_) => "module",
        ComponentEntityType::Func(_) => "func",
        ComponentEntityType::Value(_) => "value",
        ComponentEntityType::Type { .. } => "type",
        ComponentEntityType::Instance(_) => "instance",
        ComponentEntityType::Component(_) => "component",
    }
}

pub struct CaseStats {
    pub items: u64,
    pub uses_expected: u64,
    pub imported_ok: u64,
    pub imported_failed: u64,
}

/// Checks one component. `label` goes into messages only.
pub fn check_component(bytes: &[u8], label: &str, check_imported: bool) -> (Vec<Viol>, CaseStats) {
    let mut v: Vec<Viol> = Vec::new();
    let mut stats = CaseStats { items: 0, uses_expected: 0, imported_ok: 0, imported_failed: 0 };
    let ref_types = match wasmparser::Validator::new_with_features(wasmparser::WasmFeatures::all()).validate_all(bytes) {
        Ok(t) => t,
        Err(e) => mc_core::machinery_error(&format!("generated component {label} is invalid: {e}")),
    };
    let tr = ref_types.as_ref();
    let mut types = Types::default();
    let pkg = match catch(|| Package::from_bytes("t:pkg", None, bytes.to_vec(), &mut types)) {
        Err(p) => {
            v.push((format!("C08/decode/panic/{}", panic_site(&p)), format!("{label}: Package::from_bytes panicked: {p}")));
            return (v, stats);
        }
        Ok(Err(e)) => {
            v.push(("C08/decode/error".into(), format!("{label}: a valid component does not load as a package: {e:#}")));
            return (v, stats);
        }
        Ok(Ok(p)) => p,
    };
    let world = types[pkg.ty()].clone();
    // names, in order
    let want_imports = top_level_names(bytes, true);
    let mut want_exports = top_level_names(bytes, false);
    want_exports.dedup();
    let got_imports: Vec<String> = world.imports.keys().cloned().collect();
    let got_exports: Vec<String> = world.exports.keys().cloned().collect();
    if got_imports != want_imports {
        v.push(("C08/names/imports".into(), format!("{label}: world imports {got_imports:?}; component imports {want_imports:?}")));
    }
    if got_exports != want_exports {
        v.push(("C08/names/exports".into(), format!("{label}: world exports {got_exports:?}; component exports {want_exports:?}")));
    }
    // canonical types, one printer context per side for the whole world so that resource
    // identity / aliasing across items is part of what is compared
    let mut cw = Canon::new(tr);
    let mut cc = CanonWac::new(&types);
    for (dir, names, items) in [("import", &got_imports, &world.imports), ("export", &got_exports, &world.exports)] {
        for n in names {
            let e = if dir == "import" { tr.component_entity_type_of_import(n) } else { tr.component_entity_type_of_export(n) };
            let Some(e) = e else { continue };
            stats.items += 1;
            let want = cw.entity(&e);
            let got = cc.kind(items[n]);
            if want != got {
                v.push((
                    format!("C08/item-type/{dir}/{}", kind_class(&e)),
                    format!("{label}: {dir} `{n}` decodes to `{got}`; the reference validator has `{want}`"),
                ));
            }
        }
    }
    // instance type = exports
    let inst = types[pkg.instance_type()].clone();
    if inst.exports.keys().collect::<Vec<_>>() != world.exports.keys().collect::<Vec<_>>() || inst.exports.values().zip(world.exports.values()).any(|(a, b)| a != b) {
        v.push(("C08/instance-type".into(), format!("{label}: the package's instance type does not equal its exports")));
    }
    // used-type provenance: reference use edges from type identity
    let mut created: Vec<(String, String, ComponentAnyTypeId)> = Vec::new(); // (instance name, export, created id)
    let mut links: Vec<(ComponentAnyTypeId, ComponentAnyTypeId)> = Vec::new(); // created -> referenced
    let mut order: Vec<(String, ComponentEntityType)> = Vec::new();
    for n in &want_imports {
        if let Some(e) = tr.component_entity_type_of_import(n) {
            order.push((n.clone(), e));
        }
    }
    for n in &want_exports {
        if let Some(e) = tr.component_entity_type_of_export(n) {
            order.push((n.clone(), e));
        }
    }
    for (iname, e) in &order {
        let ComponentEntityType::Instance(id) = e else { continue };
        let it = tr.get(*id).unwrap();
        let wac_iface = world.imports.get(iname).or_else(|| world.exports.get(iname)).and_then(|k| match k {
            ItemKind::Instance(i) => Some(types[*i].clone()),
            _ => None,
        });
        for (ename, ee) in &it.exports {
            if let ComponentEntityType::Type { referenced, created: c } = ee {
                if let Some((src_iface, src_name, _)) = created.iter().find(|(i, _, cid)| cid == referenced && i != iname) {
                    stats.uses_expected += 1;
                    match &wac_iface {
                        Some(wi) => match wi.uses.get(ename) {
                            None => v.push((
                                "C08/uses/missing".into(),
                                format!("{label}: `{iname}`.{ename} is the type `{src_name}` of `{src_iface}` but the decoded interface records no use"),
                            )),
                            Some(u) => {
                                let uname = u.name.clone().unwrap_or_else(|| ename.clone());
                                let uiface = types[u.interface].id.clone().unwrap_or_default();
                                let exports_it = types[u.interface].exports.contains_key(&uname);
                                if !exports_it {
                                    v.push((
                                        "C08/uses/dangling".into(),
                                        format!("{label}: `{iname}`.{ename} is recorded as used from `{uiface}`.{uname}, which that interface does not export"),
                                    ));
                                } else if uiface != *src_iface || uname != *src_name {
                                    // chains: the recorded source may be any link of the chain of
                                    // uses that leads to the original definition
                                    let mut chain = vec![*referenced];
                                    loop {
                                        let last = *chain.last().unwrap();
                                        match links.iter().find(|(c, _)| *c == last) {
                                            Some((_, r)) if !chain.contains(r) => chain.push(*r),
                                            _ => break,
                                        }
                                    }
                                    let ok = created.iter().any(|(i, n2, cid)| *i == uiface && *n2 == uname && chain.contains(cid));
                                    if !ok {
                                        v.push((
                                            "C08/uses/wrong-source".into(),
                                            format!("{label}: `{iname}`.{ename} is `{src_iface}`.{src_name} in the component but recorded as `{uiface}`.{uname}"),
                                        ));
                                    }
                                }
                            }
                        },
                        None => {}
                    }
                }
                created.push((iname.clone(), ename.clone(), *c));
                links.push((*c, *referenced));
            }
        }
        // every recorded use must be backed by the component
        if let Some(wi) = &wac_iface {
            for (uname, u) in &wi.uses {
                let src = types[u.interface].id.clone().unwrap_or_default();
                let oname = u.name.clone().unwrap_or_else(|| uname.clone());
                if !types[u.interface].exports.contains_key(&oname) {
                    v.push(("C08/uses/dangling".into(), format!("{label}: `{iname}` records use of `{src}`.{oname} which is not exported there")));
                }
            }
        }
    }
    // (iv) with imported dependencies the written component type is one the original satisfies
    if check_imported && v.is_empty() {
        let r = catch(|| {
            let mut g = CompositionGraph::new();
            let pkg = Package::from_bytes("t:pkg", None, bytes.to_vec(), g.types_mut()).unwrap();
            let id = g.register_package(pkg).unwrap();
            let _ = g.instantiate(id);
            g.encode(EncodeOptions { define_components: false, validate: false, processor: None })
        });
        match r {
            Err(p) => v.push((format!("C08/imported/panic/{}", panic_site(&p)), format!("{label}: encoding with imported dependencies panicked: {p}"))),
            Ok(Err(e)) => v.push(("C08/imported/encode-error".into(), format!("{label}: {e:?}"))),
            Ok(Ok(out)) => {
                // nest {original, output} in one wrapper and ask the reference validator
                let mut b = wasm_encoder::ComponentBuilder::default();
                b.component_raw(None, bytes);
                b.component_raw(None, &out);
                let wrapper = b.finish();
                // cause qualifier: does the world export an interface together with an
                // interface it uses a type of? (the one listed finding of this family)
                let exported: Vec<String> = world.exports.keys().cloned().collect();
                let uses_exported = world.exports.values().any(|k| match k {
                    wac_graph::types::ItemKind::Instance(i) => types[*i].uses.values().any(|u| types[u.interface].id.as_ref().is_some_and(|n| exported.contains(n))),
                    _ => false,
                });
                match wasmparser::Validator::new_with_features(wasmparser::WasmFeatures::all()).validate_all(&wrapper) {
                    Err(e) => {
                        stats.imported_failed += 1;
                        let m = mc_core::msg_class(e.message());
                        let cause = if uses_exported { "world-exports-an-interface-and-one-it-uses" } else { "other-world-shape" };
                        v.push((format!("C08/imported/output-invalid[{m}]/{cause}"), format!("{label}: the encoding with imported dependencies is invalid: {e}")));
                    }
                    Ok(wt) => {
                        let wr = wt.as_ref();
                        let real = ComponentEntityType::Component(wr.component_at(0));
                        let outc = wr.get(wr.component_at(1)).unwrap();
                        let dep = outc.imports.iter().find(|(n, _)| n.starts_with("unlocked-dep=")).map(|(_, e)| *e);
                        match dep {
                            None => v.push(("C08/imported/no-dependency-import".into(), format!("{label}: output has no unlocked-dep import"))),
                            Some(dep) => {
                                if ComponentEntityType::is_subtype_of(&real, wr, &dep, wr) {
                                    stats.imported_ok += 1;
                                } else {
                                    stats.imported_failed += 1;
                                    v.push((
                                        if uses_exported { "C08/imported/original-does-not-satisfy-written-type/world-exports-an-interface-and-one-it-uses".to_string() } else { "C08/imported/original-does-not-satisfy-written-type".to_string() },
                                        format!("{label}: the original component is not a subtype of the component type written for its `unlocked-dep` import"),
                                    ));
                                }
                            }
                        }
                    }
                }
            }
        }
    }
    (v, stats)
}

pub fn run(args: &[String]) {
    let mut ctx = Ctx::new("C08", "exploration", args);
    if let Some(case) = ctx.replay_case().cloned() {
        let bytes = if let Some(wit) = case["wit"].as_str() {
            component_from_wit(&[("t.wit", wit)], case["world"].as_str().unwrap()).unwrap_or_else(|e| mc_core::machinery_error(&format!("{e:?}")))
        } else {
            wat::parse_str(case["wat"].as_str().unwrap()).unwrap_or_else(|e| mc_core::machinery_error(&format!("{e}")))
        };
        let (v, _) = check_component(&bytes, "replay", true);
        for (fp, what) in v {
            ctx.violation(fp, what, case.clone());
        }
        ctx.finish(Map::new(), vec![]);
    }
    let tier = ctx.tier();
    let mut cases = witgen::enumerate(tier);
    let template_cases = cases.len();
    cases.extend(witgen::enumerate_worlds(tier));
    let jobs: Vec<(usize, String)> = cases.iter().enumerate().flat_map(|(i, c)| c.worlds.iter().map(move |w| (i, w.clone()))).collect();
    let outs: Vec<(usize, String, Result<(Vec<Viol>, CaseStats), String>)> = jobs
        .par_iter()
        .map(|(i, w)| {
            let c = &cases[*i];
            match component_from_wit(&[("t.wit", &c.text)], w) {
                Err(e) => (*i, w.clone(), Err(format!("{e:#}"))),
                Ok(bytes) => (*i, w.clone(), Ok(check_component(&bytes, &format!("{} world {w}", c.id), true))),
            }
        })
        .collect();
    let mut evaluated = 0u64;
    let mut items = 0u64;
    let mut uses = 0u64;
    let mut imported_ok = 0u64;
    let mut gen_errors = 0u64;
    let mut product_rejected = 0u64;
    let mut by_tag: BTreeMap<String, u64> = BTreeMap::new();
    let mut samples = Samples::new(3);
    for (i, w, r) in outs {
        let c = &cases[i];
        match r {
            Err(_) if i >= template_cases => product_rejected += 1,
            Err(e) => {
                gen_errors += 1;
                if gen_errors <= 3 {
                    eprintln!("note: reference toolchain rejects generated case {} world {w}: {e}", c.id);
                }
            }
            Ok((v, st)) => {
                evaluated += 1;
                items += st.items;
                uses += st.uses_expected;
                imported_ok += st.imported_ok;
                for t in &c.tags {
                    *by_tag.entry(t.clone()).or_default() += 1;
                }
                if c.tags.iter().any(|t| t == "use-chain3") {
                    samples.offer(|| json!({"case": c.id, "world": w, "wit": c.text}));
                }
                for (fp, what) in v {
                    ctx.violation(fp, what, json!({"case": c.id, "world": w, "wit": c.text}));
                }
            }
        }
    }
    if gen_errors as usize * 10 > jobs.len() {
        mc_core::machinery_error(&format!("{gen_errors} of {} generated worlds are rejected by the reference toolchain", jobs.len()));
    }
    // hand-shaped family: the C07 type universe (every import kind at nesting <= 2)
    let u = crate::c07::build_universe(tier);
    let ubytes = wat::parse_str(&u.wat).unwrap_or_else(|e| mc_core::machinery_error(&format!("universe: {e}")));
    let (v, st) = check_component(&ubytes, "type-universe", false);
    evaluated += 1;
    items += st.items;
    for (fp, what) in v {
        ctx.violation(fp, what, json!({"case": "type-universe", "wat": u.wat}));
    }
    for (name, wat_text) in crate::c01::hand_wats() {
        let b = wat::parse_str(wat_text).unwrap();
        let (v, st) = check_component(&b, name, true);
        evaluated += 1;
        items += st.items;
        imported_ok += st.imported_ok;
        for (fp, what) in v {
            ctx.violation(fp, what, json!({"case": name, "wat": wat_text}));
        }
    }
    let mut cov = Map::new();
    cov.insert("evaluations".into(), json!(evaluated));
    cov.insert("distinct_nontrivial".into(), json!(evaluated));
    cov.insert("samples".into(), json!(samples.items));
    cov.insert("exhaustive".into(), json!(true));
    cov.insert("wit_packages".into(), json!(cases.len()));
    cov.insert("worlds_built_into_components".into(), json!(jobs.len()));
    cov.insert("rejected_by_reference_toolchain".into(), json!(gen_errors));
    cov.insert("world_product_sequences_rejected_by_reference_toolchain".into(), json!(product_rejected));
    cov.insert("world_items_compared".into(), json!(items));
    cov.insert("use_edges_expected_by_reference".into(), json!(uses));
    cov.insert("imported_dependency_type_satisfied".into(), json!(imported_ok));
    cov.insert("cases_by_tag".into(), json!(by_tag));
    cov.insert(
        "rule".into(),
        json!("every world of every generated WIT package (mc-core witgen: all type declarations x function shapes, dependent declarations, use chains/diamonds/renames/derived types, world shapes incl. include-with; plus the world-shape product family: every ordered sequence of 1..3 distinct world items from a 17-item alphabet the reference toolchain accepts) is built into a real component (wit-component dummy module), loaded with Package::from_bytes, and every import/export is compared, in order, with the reference validator's entity type through two independent canonical printers sharing one resource numbering per world; use provenance is compared with type identity in the validator; with define_components=false the original must be a subtype of the written unlocked-dep component type inside one wrapper; plus the hand-shaped type universe of C07 and the LibHand components"),
    );
    let _ = Tier::Quick;
    ctx.finish(
        cov,
        vec![
            "reference = wasmparser 0.247 type tables; canonical printers: mc-core e2::Canon (reference side) and canon_wac::CanonWac (wac side, public Types API)".into(),
            "known finding shared with C01: exported interface using a type of another exported interface breaks define_components=false".into(),
        ],
    );
}
