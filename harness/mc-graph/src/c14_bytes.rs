//! C14 (bytes half) — decoding any byte string as a package never panics, aborts or hangs,
//! and a successfully decoded package can be instantiated and encoded without panic.
//!
//! Fault enumeration over valid components: all prefixes, all single-bit flips, all
//! single-byte substitutions by a fixed interesting set, plus core modules, empty input and
//! header variants. This module only provides the deterministic case list and the per-case
//! oracle; process supervision (a case that kills the process) is the caller's business.

use crate::lib_spec::PkgSpec;
use mc_core::{catch, panic_site, Tier};
use wac_graph::types::{Package, Types};
use wac_graph::{CompositionGraph, EncodeOptions};

#[derive(Clone, Debug)]
pub struct Seed {
    pub name: String,
    pub bytes: Vec<u8>,
}

pub fn seeds(tier: Tier) -> Vec<Seed> {
    let mut v = Vec::new();
    for p in crate::c01::lib_hand() {
        v.push(Seed { name: p.name.clone(), bytes: p.to_bytes() });
    }
    for p in crate::c06::library() {
        v.push(Seed { name: p.name.clone(), bytes: p.to_bytes() });
    }
    // quick: the consumer only (imports of every WIT shape); thorough: all four
    let lt = crate::c01::lib_t();
    let (skip, take) = if tier == Tier::Thorough { (0, lt.len()) } else { (1, 1) };
    for p in lt.into_iter().skip(skip).take(take) {
        v.push(Seed { name: p.name.clone(), bytes: p.to_bytes() });
    }
    // the repository's own fixtures
    for f in ["dummy_wasi_http@0.2.0.wasm", "dummy_wasi_http@0.2.3.wasm"] {
        if let Ok(b) = std::fs::read(format!("/repo/crates/wac-types/tests/{f}")) {
            if tier == Tier::Thorough || b.len() < 20_000 {
                v.push(Seed { name: f.to_string(), bytes: b });
            }
        }
    }
    // a core module, a WIT package binary, degenerate inputs
    v.push(Seed { name: "core-module".into(), bytes: wat::parse_str("(module (func (export \"f\")))").unwrap() });
    v.push(Seed { name: "empty".into(), bytes: vec![] });
    v.push(Seed { name: "header-only".into(), bytes: b"\0asm\x0d\0\x01\0".to_vec() });
    v.push(Seed { name: "header-module".into(), bytes: b"\0asm\x01\0\0\0".to_vec() });
    v.push(Seed { name: "header-bad-version".into(), bytes: b"\0asm\xff\xff\xff\xff".to_vec() });
    let spec = PkgSpec::new("x:y", None, &[], &[]);
    v.push(Seed { name: "empty-component".into(), bytes: spec.to_bytes() });
    v
}

#[derive(Clone, Debug, serde::Serialize, serde::Deserialize)]
pub enum Mutation {
    Identity,
    Prefix(usize),
    BitFlip(usize, u8),
    ByteSub(usize, u8),
}

pub const SUBS: [u8; 5] = [0x00, 0x01, 0x7F, 0x80, 0xFF];

/// Number of cases of one seed (identity + prefixes + bit flips + substitutions).
pub fn case_count(seed: &Seed, tier: Tier) -> usize {
    let n = seed.bytes.len();
    let flips = if tier == Tier::Thorough || n <= 4096 { n * 8 } else { 4096 * 8 };
    1 + n + flips + n * SUBS.len()
}

pub fn nth_case(seed: &Seed, tier: Tier, k: usize) -> Mutation {
    let n = seed.bytes.len();
    let flips = if tier == Tier::Thorough || n <= 4096 { n * 8 } else { 4096 * 8 };
    if k == 0 {
        Mutation::Identity
    } else if k <= n {
        Mutation::Prefix(k - 1)
    } else if k <= n + flips {
        let j = k - n - 1;
        Mutation::BitFlip(j / 8, (j % 8) as u8)
    } else {
        let j = k - n - flips - 1;
        Mutation::ByteSub(j / SUBS.len(), SUBS[j % SUBS.len()])
    }
}

pub fn apply(seed: &[u8], m: &Mutation) -> Vec<u8> {
    let mut b = seed.to_vec();
    match m {
        Mutation::Identity => {}
        Mutation::Prefix(n) => b.truncate(*n),
        Mutation::BitFlip(i, bit) => b[*i] ^= 1 << bit,
        Mutation::ByteSub(i, v) => b[*i] = *v,
    }
    b
}

pub struct CaseResult {
    pub violation: Option<(String, String)>,
    pub decoded: bool,
    pub encoded: bool,
}

/// The oracle for one byte string.
pub fn run_case(bytes: &[u8], label: &str) -> CaseResult {
    let mut out = CaseResult { violation: None, decoded: false, encoded: false };
    let r = catch(|| {
        let mut types = Types::default();
        Package::from_bytes("t:pkg", None, bytes.to_vec(), &mut types).is_ok()
    });
    match r {
        Err(p) => {
            out.violation = Some((format!("C14/bytes/decode-panic/{}", panic_site(&p)), format!("{label}: Package::from_bytes panicked: {p}")));
            return out;
        }
        Ok(false) => return out,
        Ok(true) => out.decoded = true,
    }
    // a decoded package can be registered, instantiated and encoded (both modes) without panic
    let r = catch(|| {
        let mut g = CompositionGraph::new();
        let pkg = Package::from_bytes("t:pkg", None, bytes.to_vec(), g.types_mut()).unwrap();
        let id = g.register_package(pkg).unwrap();
        let _ = g.instantiate(id);
        let a = g.encode(EncodeOptions { define_components: true, validate: false, processor: None }).is_ok();
        let b = g.encode(EncodeOptions { define_components: false, validate: false, processor: None }).is_ok();
        a && b
    });
    match r {
        Err(p) => out.violation = Some((format!("C14/bytes/encode-panic/{}", panic_site(&p)), format!("{label}: instantiating and encoding a decodable package panicked: {p}"))),
        Ok(e) => out.encoded = e,
    }
    out
}
