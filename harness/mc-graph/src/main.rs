use mc_graph::*;

fn main() {
    let args: Vec<String> = std::env::args().skip(1).collect();
    let Some(prop) = args.first().cloned() else {
        mc_core::machinery_error("usage: mc-graph <Cxx> quick|thorough|--replay <file>");
    };
    mc_core::quiet_panics();
    let rest = &args[1..];
    match prop.as_str() {
        "C01" => c01::run(rest),
        "C02" => c02::run(rest),
        "C03" => c03::run(rest),
        "C06" => c06::run(rest),
        "C07" => c07::run(rest),
        "C08" => c08::run(rest),
        "C09" => c09::run(rest),
        "C10" => c10::run(rest),
        "C15" => c15::run(rest),
        "debug" => debug::run(rest),
        _ => mc_core::machinery_error(&format!("mc-graph does not serve {prop}")),
    }
}
