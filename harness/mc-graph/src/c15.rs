//! C15 — semver-compatible name matching is the semver track relation; highest wins.
//!
//! (a) all ordered pairs of a small name universe against an independent implementation of
//!     the track relation (DESIGN.md A.6);
//! (b) explicit-state exploration of `NameMap` insertion histories: in every reached state,
//!     `get` of every name of the universe equals the reference answer, and states reached
//!     by different orders of the same insertions answer identically.

use mc_core::{catch, panic_site, Ctx, Samples, Tier};
use rayon::prelude::*;
use serde_json::{json, Map, Value};
use std::collections::{BTreeMap, BTreeSet};
use wac_types::{are_semver_compatible, NameMap, NameMapNoIntern};

// ---------------------------------------------------------------- reference (A.6)

#[derive(Clone, Debug, PartialEq, Eq)]
struct RefVersion {
    major: u64,
    minor: u64,
    patch: u64,
    pre: bool,
}

fn numeric(s: &str) -> Option<u64> {
    if s.is_empty() || !s.bytes().all(|b| b.is_ascii_digit()) {
        return None;
    }
    if s.len() > 1 && s.starts_with('0') {
        return None;
    }
    s.parse().ok()
}

fn ident_ok(s: &str, numeric_no_leading_zero: bool) -> bool {
    if s.is_empty() {
        return false;
    }
    if !s.bytes().all(|b| b.is_ascii_alphanumeric() || b == b'-') {
        return false;
    }
    if numeric_no_leading_zero && s.bytes().all(|b| b.is_ascii_digit()) && s.len() > 1 && s.starts_with('0') {
        return false;
    }
    true
}

/// semver.org grammar, written independently of the `semver` crate.
fn ref_parse_version(v: &str) -> Option<RefVersion> {
    let (rest, build) = match v.find('+') {
        Some(i) => (&v[..i], Some(&v[i + 1..])),
        None => (v, None),
    };
    if let Some(b) = build {
        if !b.split('.').all(|id| ident_ok(id, false)) {
            return None;
        }
    }
    let (core, pre) = match rest.find('-') {
        Some(i) => (&rest[..i], Some(&rest[i + 1..])),
        None => (rest, None),
    };
    if let Some(p) = pre {
        if !p.split('.').all(|id| ident_ok(id, true)) {
            return None;
        }
    }
    let parts: Vec<&str> = core.split('.').collect();
    if parts.len() != 3 {
        return None;
    }
    Some(RefVersion {
        major: numeric(parts[0])?,
        minor: numeric(parts[1])?,
        patch: numeric(parts[2])?,
        pre: pre.is_some(),
    })
}

fn split_name(n: &str) -> (&str, Option<&str>) {
    match n.find('@') {
        Some(i) => (&n[..i], Some(&n[i + 1..])),
        None => (n, None),
    }
}

/// The compatibility track of a name: (base, major, minor-if-major-is-0).
fn ref_track(n: &str) -> Option<(String, u64, u64)> {
    let (base, v) = split_name(n);
    let v = ref_parse_version(v?)?;
    if v.pre {
        return None;
    }
    if v.major > 0 {
        Some((base.to_string(), v.major, 0))
    } else if v.minor > 0 {
        Some((base.to_string(), 0, v.minor))
    } else {
        None
    }
}

fn ref_compatible(a: &str, b: &str) -> bool {
    if a == b {
        return true;
    }
    match (ref_track(a), ref_track(b)) {
        (Some(x), Some(y)) => x == y,
        _ => false,
    }
}

fn ref_triple(n: &str) -> Option<(u64, u64, u64)> {
    let (_, v) = split_name(n);
    let v = ref_parse_version(v?)?;
    Some((v.major, v.minor, v.patch))
}

// ---------------------------------------------------------------- universe

fn versions() -> Vec<String> {
    let mut cores = Vec::new();
    for ma in 0..3 {
        for mi in 0..3 {
            for pa in 0..3 {
                cores.push(format!("{ma}.{mi}.{pa}"));
            }
        }
    }
    for c in ["10.0.0", "0.10.0", "1.10.0"] {
        cores.push(c.to_string());
    }
    let mut out = Vec::new();
    for c in &cores {
        for pre in ["", "-rc.1"] {
            for build in ["", "+meta"] {
                out.push(format!("{c}{pre}{build}"));
            }
        }
    }
    out
}

const MALFORMED: [&str; 9] = ["1", "1.0", "01.0.0", "1.0.0.0", "v1.0.0", "", "1.0.x", "1.0.0-", "1.00.0"];

fn universe() -> Vec<String> {
    let mut n = Vec::new();
    for base in ["a:b/c", "x:y/c"] {
        n.push(base.to_string());
        for v in versions() {
            n.push(format!("{base}@{v}"));
        }
        for m in MALFORMED {
            n.push(format!("{base}@{m}"));
        }
    }
    // prefix traps: a base that is a prefix/extension of another base, and plain names
    for extra in [
        "a:b/cc", "a:b/cc@1.0.0", "a:b/cc@1.2.0", "a:b/cc@0.2.0", "a:b/c1@1.0.0", "a:b/c@1.0.0@1.0.0", "f", "f@1.0.0",
        "f@1.1.0", "a:b/c@1.0.0+meta.2", "a:b/c@1.0.0-rc.1+meta.2", "a:b/c@0.2.0+b.7",
    ] {
        n.push(extra.to_string());
    }
    n
}

/// The sub-universe inserted into maps: names on colliding tracks, build-metadata ties,
/// a pre-release, a 0.0.x, another base on the same version and an unversioned name.
fn insert_universe() -> Vec<&'static str> {
    vec![
        "a:b/c@1.0.0",
        "a:b/c@1.2.0",
        "a:b/c@1.0.1",
        "a:b/c@1.10.0",
        "a:b/c@1.2.0+meta",
        "a:b/c@2.0.0",
        "a:b/c@0.2.0",
        "a:b/c@0.2.1",
        "a:b/c@0.10.0",
        "a:b/c@0.0.1",
        "a:b/c@1.0.0-rc.1",
        "a:b/c",
        "a:b/cc@1.1.0",
        "x:y/c@1.1.0",
        "a:b/c@1",
        "a:b/c@1.0.0+meta",
    ]
}

// ---------------------------------------------------------------- pair check

fn check_pair(a: &str, b: &str) -> Option<(String, String)> {
    match catch(|| are_semver_compatible(a, b)) {
        Err(p) => Some((format!("C15/pair/panic/{}", panic_site(&p)), format!("are_semver_compatible({a:?},{b:?}) panicked: {p}"))),
        Ok(got) => {
            let want = ref_compatible(a, b);
            if got != want {
                let class = pair_class(a, b);
                Some((
                    format!("C15/pair/{}/{class}", if got { "accepted-but-incompatible" } else { "rejected-but-compatible" }),
                    format!("are_semver_compatible({a:?},{b:?}) = {got}, track relation says {want}"),
                ))
            } else {
                None
            }
        }
    }
}

fn pair_class(a: &str, b: &str) -> String {
    let (ba, _) = split_name(a);
    let (bb, _) = split_name(b);
    let d = |n: &str| match ref_track(n) {
        Some((_, ma, mi)) if ma > 0 => "major".to_string() + if mi == 0 { "" } else { "?" },
        Some(_) => "zero-minor".to_string(),
        None => match split_name(n).1.map(ref_parse_version) {
            None => "unversioned".into(),
            Some(None) => "malformed".into(),
            Some(Some(v)) if v.pre => "prerelease".into(),
            Some(Some(_)) => "zero-zero".into(),
        },
    };
    format!("{}-base/{}-vs-{}", if ba == bb { "same" } else { "different" }, d(a), d(b))
}

// ---------------------------------------------------------------- map exploration

type Op = (usize, bool); // (index into insert universe, allow_shadowing)

struct MapState {
    real: NameMap<String, String>,
    /// reference: name -> value (value = "<name>#<k>", k = number of successful inserts of name)
    model: BTreeMap<String, String>,
    counts: BTreeMap<String, usize>,
}

fn apply(st: &MapState, names: &[&str], op: Op) -> Result<MapState, (String, String)> {
    let name = names[op.0];
    let mut real = st.real.clone();
    let mut model = st.model.clone();
    let mut counts = st.counts.clone();
    let k = counts.get(name).copied().unwrap_or(0) + 1;
    let value = format!("{name}#{k}");
    let want_ok = op.1 || !model.contains_key(name);
    let got = catch(|| {
        let mut cx = NameMapNoIntern;
        real.insert(name, &mut cx, op.1, value.clone()).map_err(|e| e.to_string())
    });
    match got {
        Err(p) => Err((format!("C15/map/insert/panic/{}", panic_site(&p)), format!("NameMap::insert({name:?}) panicked: {p}"))),
        Ok(r) => {
            if r.is_ok() != want_ok {
                return Err((
                    format!("C15/map/insert/result/{}", if want_ok { "unexpected-error" } else { "duplicate-accepted" }),
                    format!("insert({name:?}, allow_shadowing={}) returned {r:?}", op.1),
                ));
            }
            if want_ok {
                if let Ok(key) = &r {
                    if key != name {
                        return Err(("C15/map/insert/key".into(), format!("insert({name:?}) returned key {key:?}")));
                    }
                }
                model.insert(name.to_string(), value);
                counts.insert(name.to_string(), k);
            }
            Ok(MapState { real, model, counts })
        }
    }
}

/// Reference lookup: Ok(Some(set of admissible entry names)) / Ok(None).
fn ref_get(model: &BTreeMap<String, String>, q: &str) -> Option<BTreeSet<String>> {
    if model.contains_key(q) {
        return Some([q.to_string()].into());
    }
    let track = ref_track(q)?;
    let mut best: Option<(u64, u64, u64)> = None;
    for n in model.keys() {
        if ref_track(n).as_ref() == Some(&track) {
            let t = ref_triple(n).unwrap();
            if best.map_or(true, |b| t > b) {
                best = Some(t);
            }
        }
    }
    let best = best?;
    Some(
        model
            .keys()
            .filter(|n| ref_track(n).as_ref() == Some(&track) && ref_triple(n) == Some(best))
            .cloned()
            .collect(),
    )
}

struct MapStats {
    transitions: u64,
    lookups: u64,
    lookups_semver_hit: u64,
    states: BTreeSet<String>,
    /// inserted name set -> (query -> entry name returned) for order independence
    by_set: BTreeMap<String, BTreeMap<String, Option<String>>>,
    violations: Vec<(String, String, Value)>,
    samples: Vec<Value>,
}

fn check_state(st: &MapState, hist: &[Op], names: &[&str], queries: &[String], stats: &mut MapStats) -> bool {
    let key = serde_json::to_string(&st.model).unwrap();
    stats.states.insert(key);
    let set_key = st.model.keys().cloned().collect::<Vec<_>>().join(",");
    let cx = NameMapNoIntern;
    let mut ok = true;
    for q in queries {
        stats.lookups += 1;
        let got = match catch(|| st.real.get(q, &cx).cloned()) {
            Ok(g) => g,
            Err(p) => {
                stats.violations.push((
                    format!("C15/map/get/panic/{}", panic_site(&p)),
                    format!("NameMap::get({q:?}) panicked: {p}"),
                    case_json(hist, names, q),
                ));
                ok = false;
                continue;
            }
        };
        let want = ref_get(&st.model, q);
        let got_name = got.as_ref().map(|v| v.rsplit_once('#').unwrap().0.to_string());
        let fine = match (&got, &want) {
            (None, None) => true,
            (Some(v), Some(adm)) => {
                let n = got_name.as_ref().unwrap();
                adm.contains(n) && st.model.get(n) == Some(v)
            }
            _ => false,
        };
        if got.is_some() && !st.model.contains_key(q.as_str()) {
            stats.lookups_semver_hit += 1;
        }
        if !fine {
            ok = false;
            let class = match (&got_name, &want) {
                (Some(_), None) => "returned-entry-for-unmatched-name".to_string(),
                (None, Some(_)) => "missed-compatible-entry".to_string(),
                (Some(n), Some(adm)) => {
                    let a = adm.iter().next().unwrap();
                    if split_name(n).0 != split_name(a).0 {
                        "entry-of-other-base".into()
                    } else if ref_track(n) != ref_track(a) {
                        "entry-of-other-track".into()
                    } else if st.model.get(n) != got.as_ref() {
                        "stale-value".into()
                    } else {
                        "not-highest-version".into()
                    }
                }
                _ => unreachable!(),
            };
            stats.violations.push((
                format!("C15/map/get/{class}"),
                format!("after {:?}, get({q:?}) = {got:?}, reference admits {want:?}", hist_names(hist, names)),
                case_json(hist, names, q),
            ));
            continue;
        }
        // order independence within the same inserted set
        let e = stats.by_set.entry(set_key.clone()).or_default();
        match e.get(q) {
            None => {
                e.insert(q.clone(), got_name);
            }
            Some(prev) => {
                if *prev != got_name {
                    ok = false;
                    stats.violations.push((
                        "C15/map/get/order-dependent".into(),
                        format!("get({q:?}) resolves to {got_name:?} after {:?} but to {prev:?} after another order of the same insertions", hist_names(hist, names)),
                        case_json(hist, names, q),
                    ));
                }
            }
        }
    }
    ok
}

fn hist_names(hist: &[Op], names: &[&str]) -> Vec<String> {
    hist.iter().map(|(i, s)| format!("{}{}", names[*i], if *s { " (shadow ok)" } else { "" })).collect()
}

fn case_json(hist: &[Op], names: &[&str], q: &str) -> Value {
    json!({"kind": "map", "ops": hist.iter().map(|(i, s)| json!([names[*i], s])).collect::<Vec<_>>(), "get": q})
}

fn explore(st: &MapState, hist: &mut Vec<Op>, depth: usize, names: &[&str], queries: &[String], stats: &mut MapStats) {
    if depth == 0 {
        return;
    }
    for i in 0..names.len() {
        for shadow in [false, true] {
            // shadow flag only matters when the name is present; skip the redundant twin
            if shadow && !st.model.contains_key(names[i]) {
                continue;
            }
            stats.transitions += 1;
            hist.push((i, shadow));
            match apply(st, names, (i, shadow)) {
                Err((fp, what)) => stats.violations.push((fp, what, case_json(hist, names, ""))),
                Ok(next) => {
                    if stats.samples.len() < 3 && hist.len() == 3 && i == 4 {
                        stats.samples.push(json!({"insertions": hist_names(hist, names), "model": next.model}));
                    }
                    // R4: a violating state is not expanded
                    if check_state(&next, hist, names, queries, stats) {
                        explore(&next, hist, depth - 1, names, queries, stats);
                    }
                }
            }
            hist.pop();
        }
    }
}

fn run_map(depth: usize, names: &[&str], queries: &[String]) -> MapStats {
    // one subtree per first insertion, in parallel; merged deterministically afterwards
    let parts: Vec<MapStats> = (0..names.len())
        .into_par_iter()
        .map(|first| {
            let mut stats = MapStats {
                transitions: 0,
                lookups: 0,
                lookups_semver_hit: 0,
                states: BTreeSet::new(),
                by_set: BTreeMap::new(),
                violations: Vec::new(),
                samples: Vec::new(),
            };
            let st0 = MapState { real: NameMap::default(), model: BTreeMap::new(), counts: BTreeMap::new() };
            let mut hist = vec![(first, false)];
            stats.transitions += 1;
            match apply(&st0, names, (first, false)) {
                Err((fp, what)) => stats.violations.push((fp, what, case_json(&hist, names, ""))),
                Ok(next) => {
                    if check_state(&next, &hist, names, queries, &mut stats) {
                        explore(&next, &mut hist, depth - 1, names, queries, &mut stats);
                    }
                }
            }
            stats
        })
        .collect();
    let mut total = MapStats {
        transitions: 0,
        lookups: 0,
        lookups_semver_hit: 0,
        states: BTreeSet::new(),
        by_set: BTreeMap::new(),
        violations: Vec::new(),
        samples: Vec::new(),
    };
    for p in parts {
        total.transitions += p.transitions;
        total.lookups += p.lookups;
        total.lookups_semver_hit += p.lookups_semver_hit;
        total.states.extend(p.states);
        total.samples.extend(p.samples);
        total.violations.extend(p.violations);
        // cross-subtree order independence
        for (set, m) in p.by_set {
            let e = total.by_set.entry(set.clone()).or_default();
            for (q, n) in m {
                match e.get(&q) {
                    None => {
                        e.insert(q, n);
                    }
                    Some(prev) if *prev != n => total.violations.push((
                        "C15/map/get/order-dependent".into(),
                        format!("for inserted set {{{set}}}, get({q:?}) resolves to {n:?} under one order and {prev:?} under another"),
                        json!({"kind": "map-set", "set": set, "get": q}),
                    )),
                    _ => {}
                }
            }
        }
    }
    total
}

fn replay(ctx: &mut Ctx, case: &Value) {
    match case["kind"].as_str() {
        Some("pair") => {
            let (a, b) = (case["a"].as_str().unwrap(), case["b"].as_str().unwrap());
            if let Some((fp, what)) = check_pair(a, b) {
                ctx.violation(fp, what, case.clone());
            }
        }
        Some("map") => {
            let names = insert_universe();
            let ops: Vec<Op> = case["ops"]
                .as_array()
                .unwrap()
                .iter()
                .map(|o| (names.iter().position(|n| *n == o[0].as_str().unwrap()).expect("name"), o[1].as_bool().unwrap()))
                .collect();
            let mut st = MapState { real: NameMap::default(), model: BTreeMap::new(), counts: BTreeMap::new() };
            let mut stats = MapStats {
                transitions: 0,
                lookups: 0,
                lookups_semver_hit: 0,
                states: BTreeSet::new(),
                by_set: BTreeMap::new(),
                violations: Vec::new(),
                samples: Vec::new(),
            };
            let queries = universe();
            for (k, op) in ops.iter().enumerate() {
                match apply(&st, &names, *op) {
                    Ok(n) => st = n,
                    Err((fp, what)) => {
                        ctx.violation(fp, what, case.clone());
                        return;
                    }
                }
                check_state(&st, &ops[..=k], &names, &queries, &mut stats);
            }
            for (fp, what, c) in stats.violations {
                ctx.violation(fp, what, c);
            }
        }
        _ => mc_core::machinery_error("C15 replay: unsupported case kind (map-set cases are replayed by rerunning the check)"),
    }
}

pub fn run(args: &[String]) {
    let mut ctx = Ctx::new("C15", "model_checking", args);
    if let Some(case) = ctx.replay_case().cloned() {
        replay(&mut ctx, &case);
        ctx.finish(Map::new(), vec![]);
    }
    let tier = ctx.tier();
    let names = universe();

    // (a) all ordered pairs
    let pair_results: Vec<(usize, usize, Option<(String, String)>, bool)> = (0..names.len())
        .into_par_iter()
        .flat_map_iter(|i| {
            let names = &names;
            (0..names.len()).map(move |j| {
                let r = check_pair(&names[i], &names[j]);
                (i, j, r, ref_compatible(&names[i], &names[j]))
            })
        })
        .collect();
    let mut pairs = 0u64;
    let mut compatible_offdiag = 0u64;
    let mut samples = Samples::new(3);
    for (i, j, r, compat) in pair_results {
        pairs += 1;
        if compat && i != j {
            compatible_offdiag += 1;
            samples.offer(|| json!({"pair": [names[i], names[j]], "compatible": true}));
        }
        if let Some((fp, what)) = r {
            ctx.violation(fp, what, json!({"kind": "pair", "a": names[i], "b": names[j]}));
        }
    }

    // (b) map histories
    let depth = tier.pick(4, 4);
    let ins = insert_universe();
    let stats = run_map(depth, &ins, &names);
    for (fp, what, case) in stats.violations {
        ctx.violation(fp, what, case);
    }
    for s in stats.samples.into_iter().take(3) {
        samples.items.push(s);
    }

    let mut cov = Map::new();
    cov.insert("states".into(), json!(stats.states.len()));
    cov.insert("transitions".into(), json!(stats.transitions));
    cov.insert("traces_validated_against_impl".into(), json!(stats.transitions));
    cov.insert("samples".into(), json!(samples.items));
    cov.insert("exhaustive".into(), json!(true));
    cov.insert("name_universe".into(), json!(names.len()));
    cov.insert("ordered_pairs_checked".into(), json!(pairs));
    cov.insert("compatible_offdiagonal_pairs".into(), json!(compatible_offdiag));
    cov.insert("map_insert_universe".into(), json!(ins.len()));
    cov.insert("map_history_depth".into(), json!(depth));
    cov.insert("map_lookups".into(), json!(stats.lookups));
    cov.insert("map_lookups_answered_by_semver_fallback".into(), json!(stats.lookups_semver_hit));
    cov.insert("distinct_inserted_sets".into(), json!(stats.by_set.len()));
    cov.insert("evaluations".into(), json!(pairs + stats.lookups));
    cov.insert("distinct_nontrivial".into(), json!(compatible_offdiag + stats.states.len() as u64));
    cov.insert(
        "rule".into(),
        json!("every ordered pair of the name universe; every NameMap insertion history up to the depth over the insert universe (the model is stepped in lock-step with the real map, so every transition is a validated trace); non-trivial = off-diagonal compatible pair, or distinct map content"),
    );
    let _ = Tier::Quick;
    ctx.finish(
        cov,
        vec![
            "the reference track relation is the property statement implemented on an independent semver.org parse".into(),
            "build-metadata ties may resolve to either entry but identically for every insertion order".into(),
        ],
    );
}
