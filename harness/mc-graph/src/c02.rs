//! C02 — encoded wiring is exactly the composition graph (E1 constructive alphabet + E2).
//! LibW is built so that every argument slot has several type-compatible candidates.

use crate::c06::{classify_names, coverage};
use crate::e1::*;
use crate::lib_spec::{PkgSpec, Ty};
use crate::refgraph::*;
use crate::wiring::wiring_and_interface_check;
use mc_core::{Ctx, Tier};
use serde_json::{json, Map};

pub fn library() -> Vec<PkgSpec> {
    let f0 = Ty::func0();
    let nx = Ty::inst(&[("x", f0.clone()), ("y", f0.clone())]);
    vec![
        // producer: two same-typed functions and an instance with two same-typed functions
        PkgSpec::new("t:prod", None, &[], &[("a", f0.clone()), ("b", f0.clone()), ("n", nx.clone())]),
        // the same package name at another version, with different content
        PkgSpec::new("t:prod", Some("2.0.0"), &[], &[("a", f0.clone()), ("b", f0.clone()), ("n", nx.clone()), ("c", f0.clone())]),
        // consumer: two same-typed slots, and an instance slot
        PkgSpec::new("t:cons", Some("1.2.0"), &[("p", f0.clone()), ("q", f0.clone())], &[("r", f0.clone())]),
        // middle: consumes one, offers the same names as the producer (sibling trap)
        PkgSpec::new(
            "t:mid",
            None,
            &[("p", f0.clone()), ("m", Ty::inst(&[("x", f0.clone())]))],
            &[("a", f0.clone()), ("n", Ty::inst(&[("x", f0.clone()), ("y", f0.clone()), ("deep", Ty::inst(&[("x", f0.clone())]))]))],
        ),
        // exports TYPES (a resource, a record and a function over the resource): every
        // instantiation has its own `r`, so an alias of `r` must name its own instance
        PkgSpec::from_component("t:ty", None, mc_core::libs::wat(TY_EXPORTER).expect("t:ty")),
        // imports a COMPONENT: an explicit import of that kind occupies a slot of the component
        // index space next to the embedded / imported packages
        PkgSpec::from_component("t:host", None, mc_core::libs::wat(COMPONENT_IMPORTER).expect("t:host")),
    ]
}

pub const COMPONENT_IMPORTER: &str = r#"(component
      (import "plugin" (component (export "y" (func))))
      (import "p" (func))
      (export "hq" (func 0))
    )"#;

pub const TY_EXPORTER: &str = r#"(component
      (type $r' (resource (rep i32)))
      (export $r "r" (type $r'))
      (type $rec' (record (field "a" u32)))
      (export $rec "rec" (type $rec'))
      (core module $m (func (export "mk") (result i32) i32.const 0))
      (core instance $i (instantiate $m))
      (func $mk (result (own $r)) (canon lift (core func $i "mk")))
      (export "mk" (func $mk))
    )"#;


pub fn universe(prop: &'static str, tier: Tier) -> Universe {
    let mut u = Universe::build(prop, library());
    u.add_import_kind_from_import(2, "p");
    u.add_import_kind_from_import(3, "m");
    u.add_import_kind_from_import(5, "plugin");
    let s = |v: &[&str]| v.iter().map(|x| x.to_string()).collect::<Vec<_>>();
    // (`mk`, a function over the resource, is not aliased here: exporting it without `r` is the
    // C01 finding export-of-a-function-over-a-resource-that-is-not-exported)
    u.alias_names = s(&["a", "b", "n", "x", "y", "r", "deep", "rec"]);
    u.import_names = s(&["p", "k"]);
    u.export_names = s(&["e1", "e2"]);
    u.arg_names = s(&["p", "q", "m", "plugin"]);
    u.node_names = s(&["n1", "n2"]);
    u.define_names = vec![];
    u.names = classify_names(&["a", "b", "n", "x", "y", "r", "deep", "rec", "mk", "p", "q", "m", "k", "e1", "e2", "plugin", "hq"]);
    u.max_nodes = 7;
    u.max_pkgs = 6;
    u.ops = ["Instantiate", "Alias", "Import", "SetArg", "Export", "SetName"].into_iter().collect();
    u
}

pub fn seeds() -> Vec<Vec<Op>> {
    let s = |x: &str| x.to_string();
    let reg = vec![Op::Register(0), Op::Register(1), Op::Register(2), Op::Register(3), Op::Register(4), Op::Register(5)];
    let with = |ops: Vec<Op>| -> Vec<Op> { reg.iter().cloned().chain(ops).collect() };
    vec![
        with(vec![]),
        // both versions of the same package name, one consumer
        with(vec![Op::Instantiate(0), Op::Instantiate(1), Op::Alias(0, s("a")), Op::Alias(1, s("a")), Op::Instantiate(2)]),
        // producer + consumer, both slot candidates aliased
        with(vec![Op::Instantiate(0), Op::Alias(0, s("a")), Op::Alias(0, s("b")), Op::Instantiate(2)]),
        // two producers (same package twice) + consumer: sibling ambiguity
        with(vec![Op::Instantiate(0), Op::Instantiate(0), Op::Alias(0, s("a")), Op::Alias(1, s("a")), Op::Instantiate(2)]),
        // diamond: one alias feeds two consumers, one of them wired
        with(vec![Op::Instantiate(0), Op::Alias(0, s("a")), Op::Instantiate(2), Op::Instantiate(2), Op::SetArg(2, s("p"), 1)]),
        // alias of alias of nested instance export; instance argument
        with(vec![Op::Instantiate(3), Op::Alias(0, s("n")), Op::Alias(1, s("deep")), Op::Alias(2, s("x")), Op::Instantiate(3)]),
        // the same TYPE export aliased from two instantiations of one package
        with(vec![Op::Instantiate(4), Op::Instantiate(4), Op::Alias(0, s("r")), Op::Alias(1, s("r")), Op::Alias(1, s("rec")), Op::Alias(0, s("rec"))]),
        // node exported under two names, named nodes, explicit import as an argument
        with(vec![
            Op::Instantiate(0),
            Op::Alias(0, s("b")),
            Op::Export(1, s("e1")),
            Op::SetName(1, s("n1")),
            Op::Import(s("k"), 0),
            Op::Instantiate(2),
            Op::SetArg(3, s("q"), 2),
        ]),
    ]
}

pub fn run(args: &[String]) {
    let mut ctx = Ctx::new("C02", "translation_validation", args);
    if let Some(case) = ctx.replay_case().cloned() {
        let u = universe("C02", if case["tier"] == "thorough" { Tier::Thorough } else { Tier::Quick });
        let ops: Vec<Op> = serde_json::from_value(case["ops"].clone()).unwrap_or_else(|e| mc_core::machinery_error(&format!("bad ops: {e}")));
        let (_, v) = replay_history(&u, &ops, Some(&wiring_and_interface_check));
        for (fp, what) in v {
            ctx.violation(fp, what, case.clone());
        }
        ctx.finish(Map::new(), vec![]);
    }
    let tier = ctx.tier();
    let u = universe("C02", tier);
    let depth = tier.pick(3, 4);
    let (stats, found) = bfs(&u, &seeds(), depth, Some(&wiring_and_interface_check), tier.pick(2_000_000, 30_000_000), None);
    for f in found {
        let mut case = f.case;
        case["tier"] = json!(tier.as_str());
        ctx.violation(f.fingerprint, f.what, case);
    }
    let mut cov = coverage(&u, &stats, depth, seeds().len());
    let programs = stats.encode_classes.get("Ok").copied().unwrap_or(0);
    cov.insert("programs".into(), json!(programs));
    cov.insert("disagreements_checked".into(), json!(programs));
    cov.insert(
        "rule".into(),
        json!("every composition reachable by the constructive operations within the depth from the seeds; each successfully encoded (composition, dependency mode) pair is a 'program': its bytes are re-read by the independent E2 walker and the multiset of instantiations with argument provenance, export bindings, alias sources, embedded component hashes and name-section entries must equal the graph's denotation"),
    );
    ctx.finish(
        cov,
        vec![
            "E2 (harness/mc-core/src/e2.rs) is an independent reader over wasmparser payloads; the graph side is read through public queries".into(),
            "an implicit import is identified up to its semver track (the merged name is C03's business)".into(),
        ],
    );
}
