//! C10 — plugging satisfies every matchable socket import and re-exports the socket.
//! All sockets x all ordered plug lists up to a length, on the real `plug` function.

use crate::lib_spec::{PkgSpec, Ty};
use crate::refgraph::same_track;
use mc_core::e2::{decode, Kind, Prov};
use mc_core::{catch, panic_site, sha256_hex, Ctx, Samples, Tier};
use rayon::prelude::*;
use serde_json::{json, Map};
use std::collections::{BTreeMap, BTreeSet};
use wac_graph::types::Package;
use wac_graph::{plug, CompositionGraph, EncodeOptions, NodeKind, PlugError};

fn lib() -> (Vec<PkgSpec>, Vec<PkgSpec>) {
    let f0 = Ty::func0();
    let f1 = Ty::func(&[("p", "u32")], None);
    let i = |e: &[(&str, Ty)]| Ty::inst(e);
    let ifc = i(&[("f", f0.clone())]);
    let sockets = vec![
        PkgSpec::new("s:s0", None, &[("x", f0.clone())], &[("out", f0.clone())]),
        PkgSpec::new("s:s1", None, &[("a:b/i@1.0.0", ifc.clone())], &[]),
        PkgSpec::new("s:s2", None, &[("a:b/i@0.2.0", ifc.clone()), ("x", f0.clone())], &[("out", f0.clone())]),
        PkgSpec::new(
            "s:s3",
            None,
            &[("x", f0.clone()), ("a:b/i@1.0.0", ifc.clone()), ("c:d/e", ifc.clone())],
            &[("out", f0.clone()), ("out2", i(&[("x", f0.clone())]))],
        ),
        PkgSpec::new("s:s4", None, &[], &[("out", f0.clone())]),
        PkgSpec::new("s:s5", None, &[("a:b/i@1.0.0", ifc.clone()), ("a:b/i@0.2.0", ifc.clone())], &[]),
        PkgSpec::new("s:s6", None, &[("c:d/e", ifc.clone())], &[("out", f0.clone())]),
        PkgSpec::new("s:s7", None, &[("x", f1.clone())], &[("out", f0.clone())]),
        // two versions of one interface on ONE semver track, in ascending and descending order:
        // a plug export named exactly like one of them belongs to that one, whatever the order
        PkgSpec::new("s:s8", None, &[("a:b/i@0.2.0", ifc.clone()), ("a:b/i@0.2.1", ifc.clone())], &[("out", f0.clone())]),
        PkgSpec::new("s:s9", None, &[("a:b/i@1.1.0", ifc.clone()), ("a:b/i@1.0.0", ifc.clone()), ("x", f0.clone())], &[]),
        // tracks whose textual key is a prefix of another track's (1 / 10, 0.2 / 0.20), alone and next to the shorter one
        PkgSpec::new("s:s10", None, &[("a:b/i@10.0.0", ifc.clone())], &[("out", f0.clone())]),
        PkgSpec::new("s:s11", None, &[("a:b/i@0.20.3", ifc.clone()), ("x", f0.clone())], &[]),
        PkgSpec::new("s:s12", None, &[("a:b/i@1.0.0", ifc.clone()), ("a:b/i@10.0.0", ifc.clone())], &[]),
    ];
    let plugs = vec![
        PkgSpec::new("p:p0", None, &[], &[("x", f0.clone())]),
        PkgSpec::new("p:p1", None, &[], &[("x", f1.clone())]),
        PkgSpec::new("p:p2", None, &[], &[("a:b/i@1.0.0", ifc.clone())]),
        PkgSpec::new("p:p3", None, &[], &[("a:b/i@1.1.0", i(&[("f", f0.clone()), ("g", f0.clone())]))]),
        PkgSpec::new("p:p4", None, &[], &[("a:b/i@2.0.0", ifc.clone())]),
        PkgSpec::new("p:p5", None, &[], &[("a:b/i@0.2.1", ifc.clone())]),
        PkgSpec::new("p:p6", None, &[], &[("a:b/i@0.3.0", ifc.clone())]),
        PkgSpec::new("p:p7", None, &[("y", f0.clone())], &[("c:d/e", ifc.clone()), ("x", f0.clone())]),
        PkgSpec::new("p:p8", None, &[], &[("zz", f0.clone())]),
        PkgSpec::new("p:p9", None, &[], &[("a:b/i@1.0.0", i(&[("f", f1.clone())])), ("x", f0.clone())]),
        PkgSpec::new("p:p10", None, &[], &[("a:b/i@0.2.0", ifc.clone()), ("a:b/i@0.2.1", ifc.clone())]),
        PkgSpec::new("p:p11", None, &[], &[("a:b/i@0.2.2", ifc.clone())]),
        PkgSpec::new("p:p12", None, &[], &[("a:b/i@10.2.0", ifc.clone())]),
        PkgSpec::new("p:p13", None, &[], &[("a:b/i@0.20.0", ifc.clone())]),
    ];
    (sockets, plugs)
}

/// Which exports of `plug` offer a compatible item for socket import (name, ty).
///
/// "Under the same name or, failing that, a semver-compatible name": a plug that has an export
/// named exactly like the import offers that export (if type-compatible) and nothing else;
/// only without a same-named export does a semver-compatible one stand in - and, read from the
/// export's side, only an export that has no same-named socket import of its own.
fn offers(plug: &PkgSpec, socket: &PkgSpec, name: &str, ty: &Ty) -> Vec<String> {
    if plug.exports.iter().any(|(n, _)| n == name) {
        return plug.exports.iter().filter(|(n, t)| n == name && t.is_subtype_of(ty)).map(|(n, _)| n.clone()).collect();
    }
    plug.exports
        .iter()
        .filter(|(n, t)| same_track(n, name) && t.is_subtype_of(ty) && !socket.imports.iter().any(|(i, _)| i == n))
        .map(|(n, _)| n.clone())
        .collect()
}

struct Expect {
    /// socket import -> list of (plug position, export name) offering it
    offered: BTreeMap<String, Vec<(usize, String)>>,
    unspecified: bool,
}

fn expect(socket: &PkgSpec, plugs: &[&PkgSpec]) -> Expect {
    let mut offered = BTreeMap::new();
    let mut unspecified = false;
    for (name, ty) in &socket.imports {
        let mut v = Vec::new();
        for (pi, p) in plugs.iter().enumerate() {
            let o = offers(p, socket, name, ty);
            if o.len() > 1 {
                unspecified = true; // one plug, two candidates for one import: the statement is silent
            }
            for e in o {
                v.push((pi, e));
            }
        }
        offered.insert(name.clone(), v);
    }
    // one export without a same-named socket import but with two semver-compatible socket
    // imports: the statement does not say which of them it supplies
    for p in plugs {
        for (e, _) in &p.exports {
            if !socket.imports.iter().any(|(i, _)| i == e) && socket.imports.iter().filter(|(i, _)| same_track(i, e)).count() > 1 {
                unspecified = true;
            }
        }
    }
    Expect { offered, unspecified }
}

type Viol = (String, String);

fn check_case(sockets: &[PkgSpec], plugs_lib: &[PkgSpec], si: usize, list: &[usize]) -> (Vec<Viol>, &'static str, bool) {
    let mut v: Vec<Viol> = Vec::new();
    let socket = &sockets[si];
    let plug_specs: Vec<&PkgSpec> = list.iter().map(|p| &plugs_lib[*p]).collect();
    let exp = expect(socket, &plug_specs);
    let mut graph = CompositionGraph::new();
    let reg = |g: &mut CompositionGraph, s: &PkgSpec| {
        let pkg = Package::from_bytes(&s.name, None, s.to_bytes(), g.types_mut()).expect("decodes");
        g.register_package(pkg)
    };
    let sid = reg(&mut graph, socket).expect("socket registers");
    // the same plug package may be listed twice: one registration, same id passed twice
    let mut ids = BTreeMap::new();
    let mut plug_ids = Vec::new();
    for p in list {
        let id = *ids.entry(*p).or_insert_with(|| reg(&mut graph, &plugs_lib[*p]).expect("plug registers"));
        plug_ids.push(id);
    }
    let res = catch(|| plug(&mut graph, plug_ids.clone(), sid));
    let res = match res {
        Err(p) => {
            v.push((format!("C10/panic/{}", panic_site(&p)), format!("plug panicked: {p}")));
            return (v, "panic", exp.unspecified);
        }
        Ok(r) => r,
    };
    let any_offer = exp.offered.values().any(|o| !o.is_empty());
    let contested: Vec<&String> = exp
        .offered
        .iter()
        .filter(|(_, o)| o.iter().map(|(pi, _)| *pi).collect::<BTreeSet<_>>().len() > 1)
        .map(|(n, _)| n)
        .collect();
    let class = match &res {
        Ok(()) => "Ok",
        Err(PlugError::NoPlugHappened) => "NoPlugHappened",
        Err(PlugError::GraphError { .. }) => "GraphError",
    };
    if exp.unspecified {
        return (v, class, true);
    }
    // NoPlugHappened <=> nothing could be supplied
    if (class == "NoPlugHappened") != !any_offer {
        v.push((
            format!("C10/no-plug-verdict/got-{class}/offers-{any_offer}"),
            format!("plug returned {class}; socket imports that some plug can supply: {:?}", exp.offered.iter().filter(|(_, o)| !o.is_empty()).map(|(n, _)| n).collect::<Vec<_>>()),
        ));
        return (v, class, false);
    }
    if !contested.is_empty() {
        if class == "Ok" {
            v.push((
                "C10/contested-import-accepted".into(),
                format!("two different plugs offer a compatible item for {contested:?} but plug succeeded (chose silently)"),
            ));
        }
        return (v, class, false);
    }
    if class != "Ok" {
        if any_offer {
            v.push((format!("C10/unexpected-failure/{class}"), format!("plug failed with {res:?} although no import is contested")));
        }
        return (v, class, false);
    }
    // --- successful plug: inspect the graph through public queries
    let g = &graph;
    let insts: Vec<_> = g.node_ids().filter(|n| matches!(g[*n].kind(), NodeKind::Instantiation(_))).collect();
    let socket_insts: Vec<_> = insts.iter().filter(|n| g[**n].package() == Some(sid)).collect();
    if socket_insts.len() != 1 {
        v.push(("C10/socket-instantiations".into(), format!("{} instantiations of the socket", socket_insts.len())));
        return (v, class, false);
    }
    let sn = *socket_insts[0];
    let args: BTreeMap<String, _> = g.get_instantiation_arguments(sn).map(|(n, a)| (n.to_string(), a)).collect();
    for (name, offers) in &exp.offered {
        match (offers.first(), args.get(name)) {
            (None, None) => {}
            (None, Some(_)) => v.push(("C10/supplied-without-offer".into(), format!("socket import `{name}` was supplied although no plug offers a compatible item"))),
            (Some(_), None) => v.push(("C10/matchable-import-not-supplied".into(), format!("socket import `{name}` is offered by {offers:?} but was left unsatisfied"))),
            (Some((pi, export)), Some(a)) => {
                let ok = match g.get_alias_source(*a) {
                    Some((src, e)) => e == export && g[src].package() == Some(plug_ids[*pi]) && matches!(g[src].kind(), NodeKind::Instantiation(_)),
                    None => false,
                };
                if !ok {
                    v.push((
                        "C10/supplied-by-wrong-item".into(),
                        format!("socket import `{name}` should be supplied by export `{export}` of plug #{pi}; got {:?}", g.get_alias_source(*a).map(|(s, e)| (s.to_string(), e.to_string()))),
                    ));
                }
            }
        }
    }
    // a plug contributing nothing is not instantiated; contributing plugs exactly once
    for (pi, id) in plug_ids.iter().enumerate() {
        let contributes = exp.offered.values().any(|o| o.iter().any(|(p, _)| *p == pi));
        let count = insts.iter().filter(|n| g[**n].package() == Some(*id)).count();
        let listed = plug_ids.iter().filter(|x| *x == id).count();
        if listed == 1 && count != usize::from(contributes) {
            v.push((
                format!("C10/plug-instantiation-count/{}", if contributes { "contributing" } else { "idle" }),
                format!("plug #{pi} ({}) contributes={contributes} but is instantiated {count} time(s)", plug_specs[pi].name),
            ));
        }
    }
    // every socket export is exported under its own name
    for (name, _) in &socket.exports {
        let ok = g.get_export(name).and_then(|n| g.get_alias_source(n).map(|(src, e)| src == sn && e == name)).unwrap_or(false);
        if !ok {
            v.push(("C10/socket-export".into(), format!("socket export `{name}` is not exported under its own name from the socket instance")));
        }
    }
    // the encoding validates and says the same
    for define in [true, false] {
        let mode = if define { "embedded" } else { "imported" };
        match catch(|| g.encode(EncodeOptions { define_components: define, validate: false, processor: None })) {
            Err(p) => v.push((format!("C10/encode/panic/{mode}/{}", panic_site(&p)), p)),
            Ok(Err(e)) => v.push((format!("C10/encode/error/{mode}"), format!("a successful plug does not encode: {e:?}"))),
            Ok(Ok(bytes)) => {
                if let Err(e) = mc_core::libs::validate(&bytes) {
                    v.push((format!("C10/encode/invalid/{mode}"), format!("a successful plug encodes to an invalid component: {e}")));
                    continue;
                }
                let d = match decode(&bytes) {
                    Ok(d) => d,
                    Err(e) => {
                        v.push(("C10/e2/reader-error".into(), e));
                        continue;
                    }
                };
                // unsupplied socket imports remain imports of the result
                let import_names: BTreeSet<&String> = d.imports.iter().map(|(n, _)| n).collect();
                for (name, offers) in &exp.offered {
                    if offers.is_empty() && !import_names.iter().any(|n| same_track(n, name)) {
                        v.push((format!("C10/unsupplied-import-not-imported/{mode}"), format!("socket import `{name}` is not supplied and not an import of the result ({import_names:?})")));
                    }
                    if !offers.is_empty() && import_names.contains(name) {
                        v.push((format!("C10/supplied-import-still-imported/{mode}"), format!("socket import `{name}` is supplied by a plug but still imported by the result")));
                    }
                }
                let exports: BTreeMap<&String, (&Kind, &Prov)> = d.exports.iter().map(|(n, k, p)| (n, (k, p))).collect();
                for (name, _) in &socket.exports {
                    match exports.get(name) {
                        Some((_, Prov::Alias(inst, e))) if e == name => {
                            if define {
                                let want = sha256_hex(&socket.to_bytes());
                                if !matches!(&**inst, Prov::Inst(c, _) if **c == Prov::Embedded(want.clone())) {
                                    v.push((format!("C10/encoded-export-source/{mode}"), format!("export `{name}` does not come from the socket instance: {inst:?}")));
                                }
                            }
                        }
                        other => v.push((format!("C10/encoded-export/{mode}"), format!("socket export `{name}` is encoded as {other:?}"))),
                    }
                }
                if exports.len() != socket.exports.len() {
                    v.push((format!("C10/encoded-export-count/{mode}"), format!("result exports {:?}", exports.keys().collect::<Vec<_>>())));
                }
                // the socket instantiation receives, under each supplied name, the designated plug export
                if define {
                    let ssha = sha256_hex(&socket.to_bytes());
                    let sock: Vec<&Prov> = d.instantiations.iter().filter(|p| matches!(p, Prov::Inst(c, _) if **c == Prov::Embedded(ssha.clone()))).collect();
                    if sock.len() != 1 {
                        v.push((format!("C10/encoded-socket-instantiations/{mode}"), format!("{} encoded socket instantiations", sock.len())));
                    } else if let Prov::Inst(_, args) = sock[0] {
                        for (name, offers) in &exp.offered {
                            if let Some((pi, export)) = offers.first() {
                                let psha = sha256_hex(&plug_specs[*pi].to_bytes());
                                let ok = matches!(args.get(name), Some(Prov::Alias(inst, e)) if e == export && matches!(&**inst, Prov::Inst(c, _) if **c == Prov::Embedded(psha.clone())));
                                if !ok {
                                    v.push((format!("C10/encoded-argument/{mode}"), format!("encoded socket argument `{name}` is {:?}; expected export `{export}` of {}", args.get(name), plug_specs[*pi].name)));
                                }
                            }
                        }
                    }
                }
            }
        }
    }
    (v, class, false)
}

fn lists(n: usize, max_len: usize, repeats_up_to: usize) -> Vec<Vec<usize>> {
    let mut out = Vec::new();
    fn rec(n: usize, max_len: usize, repeats_up_to: usize, cur: &mut Vec<usize>, out: &mut Vec<Vec<usize>>) {
        if !cur.is_empty() {
            out.push(cur.clone());
        }
        if cur.len() == max_len {
            return;
        }
        for i in 0..n {
            if cur.contains(&i) && cur.len() >= repeats_up_to {
                continue;
            }
            cur.push(i);
            rec(n, max_len, repeats_up_to, cur, out);
            cur.pop();
        }
    }
    rec(n, max_len, repeats_up_to, &mut Vec::new(), &mut out);
    out
}

pub fn run(args: &[String]) {
    let mut ctx = Ctx::new("C10", "exploration", args);
    let (sockets, plugs) = lib();
    if let Some(case) = ctx.replay_case().cloned() {
        let si = case["socket"].as_u64().unwrap() as usize;
        let list: Vec<usize> = serde_json::from_value(case["plugs"].clone()).unwrap();
        let (v, _, _) = check_case(&sockets, &plugs, si, &list);
        for (fp, what) in v {
            ctx.violation(fp, what, case.clone());
        }
        ctx.finish(Map::new(), vec![]);
    }
    let tier = ctx.tier();
    let all_lists = lists(plugs.len(), tier.pick(4, 4), 2);
    let cases: Vec<(usize, Vec<usize>)> = (0..sockets.len()).flat_map(|s| all_lists.iter().map(move |l| (s, l.clone()))).collect();
    let outs: Vec<(usize, Vec<usize>, Vec<Viol>, &'static str, bool)> = cases
        .par_iter()
        .map(|(s, l)| {
            let (v, class, unspec) = check_case(&sockets, &plugs, *s, l);
            (*s, l.clone(), v, class, unspec)
        })
        .collect();
    let mut classes: BTreeMap<&str, u64> = BTreeMap::new();
    let mut unspecified = 0u64;
    let mut samples = Samples::new(3);
    let mut nontrivial = 0u64;
    for (s, l, v, class, unspec) in outs {
        *classes.entry(class).or_default() += 1;
        if unspec {
            unspecified += 1;
        }
        if class == "Ok" {
            nontrivial += 1;
            if l.len() == 2 {
                samples.offer(|| json!({"socket": sockets[s].name, "plugs": l.iter().map(|p| plugs[*p].name.clone()).collect::<Vec<_>>(), "result": "Ok"}));
            }
        }
        for (fp, what) in v {
            ctx.violation(fp, what, json!({"socket": s, "plugs": l, "socket_name": sockets[s].name, "plug_names": l.iter().map(|p| plugs[*p].name.clone()).collect::<Vec<_>>()}));
        }
    }
    let mut cov = Map::new();
    cov.insert("evaluations".into(), json!(cases.len()));
    cov.insert("distinct_nontrivial".into(), json!(nontrivial));
    cov.insert("samples".into(), json!(samples.items));
    cov.insert("exhaustive".into(), json!(true));
    cov.insert("sockets".into(), json!(sockets.len()));
    cov.insert("plug_universe".into(), json!(plugs.len()));
    cov.insert("max_list_length".into(), json!(tier.pick(4, 4)));
    cov.insert("outcomes".into(), json!(classes));
    cov.insert("unspecified_cases".into(), json!(unspecified));
    cov.insert(
        "rule".into(),
        json!("every socket x every ordered list of plugs (distinct up to the length, one repeated pair) is plugged on a fresh graph with the real plug(); non-trivial = plug succeeded; on success the graph (public queries) and both encodings (reference validator + E2 provenance) are compared with the statement; failure verdicts are compared with the offer table computed from the generator's descriptors"),
    );
    ctx.finish(
        cov,
        vec![
            "offers are computed from the library descriptors with the resource-free structural subtype rule (C07 ties wac's checker to the reference)".into(),
            "one plug offering two candidates for one import: no verdict (statement silent)".into(),
        ],
    );
}
