#!/bin/bash
# C18 needs the `wit,wat` build of mc-env (the second build of the resolver); see pre-C19.sh.
ROOT="$(cd "$(dirname "${BASH_SOURCE[0]}")" && pwd)"
exec "$ROOT/pre-C19.sh" mc-env-only
