#!/bin/bash
# MANIFEST.setup_cmd: builds the whole harness offline from files on disk.
set -eu
ROOT="$(cd "$(dirname "${BASH_SOURCE[0]}")" && pwd)"
export CARGO_NET_OFFLINE=true
export CARGO_TARGET_DIR="${VERIF_TARGET_DIR:-$ROOT/harness/target}"
cd "$ROOT/harness"
cargo build --release --offline --workspace
