#!/bin/bash
# MANIFEST.setup_cmd: builds the whole harness offline from files on disk.
set -eu
ROOT="$(cd "$(dirname "${BASH_SOURCE[0]}")" && pwd)"
export CARGO_NET_OFFLINE=true
export CARGO_TARGET_DIR="${VERIF_TARGET_DIR:-$ROOT/harness/target}"
cd "$ROOT/harness"
cargo build --release --offline --workspace
# warm the secondary builds the C16 / C18 / C19 checks (re)build on demand
"$ROOT/pre-C16.sh"
"$ROOT/pre-C19.sh"
