#!/bin/bash
# builds the hash-seed shim used by C16 (E8) next to the harness build output
set -eu
ROOT="$(cd "$(dirname "${BASH_SOURCE[0]}")" && pwd)"
OUT="${CARGO_TARGET_DIR:-$ROOT/harness/target}/getrandom_shim.so"
if [ ! -f "$OUT" ] || [ "$ROOT/shim/getrandom_shim.c" -nt "$OUT" ]; then
  gcc -O2 -shared -fPIC -o "$OUT" "$ROOT/shim/getrandom_shim.c"
fi
